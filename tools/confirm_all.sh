#!/bin/sh
# confirm every incoming seed that has no confirm.json yet, two at a time
cd /verif
ls -d seeded/_incoming/*/* | while read d; do [ -f $d/confirm.json ] || echo $d; done | xargs -P 2 -n 1 tools/confirm_seed.py
