#!/venv/bin/python
"""Run checks against a deliberately broken scratch copy of /repo (never inside /repo or /verif).

  tools/mutant.py <mutant> <ID> [<ID> ...] [--tier quick]
<mutant> is a .patch/.diff file (git apply format) or a JSON file
  {"file": "PEPit/x.py", "old": "...", "new": "..."} (exact, unique textual replacement; may be a list).
Exit code 0 if every listed check reported a violation (mutant caught), 1 otherwise.
"""
import json, os, shutil, subprocess, sys, tempfile

ROOT = os.path.dirname(os.path.dirname(os.path.abspath(__file__)))


def main():
    args = sys.argv[1:]
    tier = "quick"
    if "--tier" in args:
        i = args.index("--tier"); tier = args[i + 1]; del args[i:i + 2]
    do_replay = "--replay" in args
    if do_replay:
        args.remove("--replay")
    mut, ids = args[0], args[1:]
    scratch = tempfile.mkdtemp(prefix="pvmut_", dir="/var/tmp")
    try:
        subprocess.run(["git", "-C", "/repo", "worktree", "add", "--detach", "-f", scratch + "/repo", "HEAD"],
                       check=True, stdout=subprocess.DEVNULL, stderr=subprocess.DEVNULL)
        # bring uncommitted state of /repo along (normally none)
        tree = scratch + "/repo"
        if mut.endswith(".json"):
            spec = json.load(open(mut))
            for e in (spec if isinstance(spec, list) else [spec]):
                p = os.path.join(tree, e["file"])
                src = open(p).read()
                assert src.count(e["old"]) == 1, "pattern occurs %d times in %s" % (src.count(e["old"]), e["file"])
                open(p, "w").write(src.replace(e["old"], e["new"]))
        else:
            subprocess.run(["git", "-C", tree, "apply", os.path.abspath(mut)], check=True)
        env = dict(os.environ, VERIF_REPO=tree, VERIF_EVIDENCE_DIR=scratch + "/evidence",
                   VERIF_REPLAY_DIR=scratch + "/replay")
        allc = True
        for pid in ids:
            r = subprocess.run([os.path.join(ROOT, "check"), pid, tier], env=env, capture_output=True, text=True)
            viol = [l for l in r.stdout.splitlines() if l.startswith("VIOLATION") or l.startswith("  key=")]
            print("%s %s on %s: exit=%d %s" % (pid, tier, os.path.basename(mut), r.returncode,
                                               "CAUGHT" if r.returncode == 1 else "MISSED"))
            for l in viol[:6]:
                print("   " + l[:260])
            if do_replay and r.returncode == 1:
                # every witness file the check wrote must reproduce the violation when replayed on the broken tree
                files = [l.split("replay=")[1].strip() for l in r.stdout.splitlines() if l.startswith("VIOLATION") and "replay=" in l]
                for fpath in files[:2]:
                    rr = subprocess.run([os.path.join(ROOT, "check"), pid, "--replay", fpath], env=env, capture_output=True, text=True)
                    print("   replay %s: exit=%d %s" % (os.path.basename(fpath)[:60], rr.returncode,
                                                      "REPRODUCED" if rr.returncode == 1 else "NOT REPRODUCED"))
                    if rr.returncode != 1:
                        print("      " + "\n      ".join((rr.stdout + rr.stderr).splitlines()[-4:])[:600])
            if r.returncode != 1:
                allc = False
                print("   " + "\n   ".join(r.stdout.splitlines()[-3:]))
        return 0 if allc else 1
    finally:
        subprocess.run(["git", "-C", "/repo", "worktree", "remove", "--force", scratch + "/repo"],
                       stdout=subprocess.DEVNULL, stderr=subprocess.DEVNULL)
        shutil.rmtree(scratch, ignore_errors=True)
        subprocess.run(["git", "-C", "/repo", "worktree", "prune"], stdout=subprocess.DEVNULL, stderr=subprocess.DEVNULL)


if __name__ == "__main__":
    sys.exit(main())
