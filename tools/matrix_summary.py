#!/venv/bin/python
"""Summarise seeded/matrix.json: seeds caught by the quick check of their own property / only by another check / by none."""
import json, os, re, sys
ROOT = os.path.dirname(os.path.dirname(os.path.abspath(__file__)))
m = json.load(open(os.path.join(ROOT, "seeded", "matrix.json")))
seeds = sorted(d for d in os.listdir(os.path.join(ROOT, "seeded")) if re.match(r"C\d\d-\d", d))
own, cross, none, absent = [], [], [], []
for s in seeds:
    r = m.get(s)
    if not r or s[:3] not in r:
        absent.append(s)
        continue
    if r[s[:3]]["verdict"] == "CAUGHT":
        own.append(s)
    elif any(v["verdict"] == "CAUGHT" for c, v in r.items() if c != s[:3]):
        cross.append((s, [c for c, v in r.items() if c != s[:3] and v["verdict"] == "CAUGHT"]))
    else:
        none.append((s, {c: v["verdict"] for c, v in r.items()}))
print("seeds kept: %d; in matrix: %d" % (len(seeds), len(seeds) - len(absent)))
print("caught by own quick check: %d" % len(own))
print("only by another check: %s" % cross)
print("by none: %s" % none)
print("not run: %s" % absent)
extra = sum(len(r) - 1 for r in m.values())
miss_cross = [(s, c) for s, r in m.items() for c, v in r.items() if c != s[:3] and v["verdict"] != "CAUGHT"]
print("cross runs: %d, of which not caught: %s" % (extra, miss_cross))
