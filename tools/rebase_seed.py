#!/venv/bin/python
"""Re-create a seeded patch on /repo HEAD from an exact textual replacement: tools/rebase_seed.py <seed dir> <file> <old> <new>
writes <seed dir>/patch_rebased.diff (the original patch.diff is kept)."""
import os, subprocess, sys, tempfile, shutil
d, path, old, new = sys.argv[1:5]
scratch = tempfile.mkdtemp(prefix="rb_", dir="/var/tmp"); tree = scratch + "/repo"
try:
    subprocess.run(["git", "-C", "/repo", "worktree", "add", "--detach", "-f", tree, "HEAD"], check=True, capture_output=True)
    p = os.path.join(tree, path); s = open(p).read()
    assert s.count(old) == 1, s.count(old)
    open(p, "w").write(s.replace(old, new))
    out = subprocess.run(["git", "-C", tree, "diff"], capture_output=True, text=True).stdout
    open(os.path.join(d, "patch_rebased.diff"), "w").write(out)
    print(out)
finally:
    subprocess.run(["git", "-C", "/repo", "worktree", "remove", "--force", tree], capture_output=True)
    shutil.rmtree(scratch, ignore_errors=True); subprocess.run(["git", "-C", "/repo", "worktree", "prune"], capture_output=True)
