#!/venv/bin/python
"""Confirm a seeded defect in a scratch worktree of /repo HEAD (outside /repo and /verif):
demo passes on the clean tree, patch applies, demo fails with it, the existing suite still passes with it.
  tools/confirm_seed.py <seed dir> [--nosuite]
Writes <seed dir>/confirm.json. The worktree is removed afterwards."""
import json, os, shutil, subprocess, sys, tempfile, time
d = os.path.abspath(sys.argv[1])
nosuite = "--nosuite" in sys.argv
scratch = tempfile.mkdtemp(prefix="seedwt_", dir="/var/tmp")
tree = scratch + "/repo"
res = {"seed": d, "at": time.strftime("%Y-%m-%dT%H:%M:%S"), "repo_head": subprocess.run(["git", "-C", "/repo", "rev-parse", "--short", "HEAD"], capture_output=True, text=True).stdout.strip()}
try:
    subprocess.run(["git", "-C", "/repo", "worktree", "add", "--detach", "-f", tree, "HEAD"], check=True, capture_output=True)
    env = dict(os.environ, PYTHONPATH=tree, OMP_NUM_THREADS="1", PYTHONDONTWRITEBYTECODE="1")
    def demo():
        r = subprocess.run(["/venv/bin/python", "-B", os.path.join(d, "demo.py")], env=env, cwd=tree, capture_output=True, text=True, timeout=1800)
        return r.returncode, (r.stdout + r.stderr)[-400:]
    rc, out = demo(); res["demo_clean_rc"] = rc; res["demo_clean_tail"] = out[-200:]
    pf = os.path.join(d, "patch_rebased.diff") if os.path.exists(os.path.join(d, "patch_rebased.diff")) else os.path.join(d, "patch.diff"); res["patch_file"] = os.path.basename(pf); ap = subprocess.run(["git", "-C", tree, "apply", pf], capture_output=True, text=True)
    res["patch_applies"] = ap.returncode == 0
    if ap.returncode != 0:
        ap = subprocess.run(["git", "-C", tree, "apply", "-3", os.path.join(d, "patch.diff")], capture_output=True, text=True)
        res["patch_applies_3way"] = ap.returncode == 0
        res["apply_err"] = ap.stderr[-300:]
    if res.get("patch_applies") or res.get("patch_applies_3way"):
        rc, out = demo(); res["demo_changed_rc"] = rc; res["demo_changed_tail"] = out[-300:]
        if not nosuite:
            t0 = time.time()
            r = subprocess.run(["/venv/bin/python", "-m", "pytest", "-q", "-p", "no:cacheprovider", "-n", "5", "tests",
                                "--deselect", "tests/test_examples.py::TestExamplesCVXPY::test_gradient_descent_lc",
                                "--deselect", "tests/test_examples.py::TestExamplesMosek::test_gradient_descent_lc"],
                               env=env, cwd=tree, capture_output=True, text=True, timeout=3600)
            res["suite_rc"] = r.returncode; res["suite_tail"] = r.stdout.strip().splitlines()[-1][-200:] if r.stdout.strip() else ""
            res["suite_wall_s"] = round(time.time() - t0)
    res["confirmed"] = bool(res.get("demo_clean_rc") == 0 and res.get("demo_changed_rc") == 1 and (nosuite or res.get("suite_rc") == 0))
finally:
    subprocess.run(["git", "-C", "/repo", "worktree", "remove", "--force", tree], capture_output=True)
    shutil.rmtree(scratch, ignore_errors=True)
    subprocess.run(["git", "-C", "/repo", "worktree", "prune"], capture_output=True)
json.dump(res, open(os.path.join(d, "confirm.json"), "w"), indent=1)
print(os.path.basename(os.path.dirname(d)), os.path.basename(d), "confirmed" if res.get("confirmed") else "NOT CONFIRMED", {k: res.get(k) for k in ("demo_clean_rc", "demo_changed_rc", "suite_rc", "patch_applies", "suite_tail")})
