#!/venv/bin/python
"""Regenerate MANIFEST.json from the table below (keeps it schema-valid at all times)."""
import json, os, sys
ROOT = os.path.dirname(os.path.dirname(os.path.abspath(__file__)))
sys.path.insert(0, ROOT)

CHECKS = {
 "C01": dict(cat="exploration", ref="DESIGN 3/C01",
   text="Every generated model that solves to a finite value has its dual certificate re-assembled by an independent oracle "
        "(own coefficient walk, wrapper-boundary log of what was sent): identity, signs, PSD-ness, and dual-mode return == "
        "identity constant at 1e-9. Sampling over programs/configurations, not exhaustive.",
   note="trusted: pv/canon.py, numerical thresholds (1e-4*scale Clarabel / 5e-3*scale SCS), solver status 'optimal'; "
        "MOSEK side observed through a stand-in module",
   tech="runtime monitor at the wrapper boundary + independent certificate re-assembly oracle"),
 "C02": dict(cat="exploration", ref="DESIGN 3/C02",
   text="After every finite optimal solve of a generated model, all leaves, all objects held by the program and objects built "
        "after the solve are evaluated through the real accessors and compared with an independent evaluator; Gram "
        "reproduction, feasibility of every sent constraint/LMI, objective = min metric, primal <= dual. Sampling.",
   note="trusted: pv/canon.py, thresholds of DESIGN 2.8, solver status 'optimal'",
   tech="runtime monitor at the wrapper boundary + independent evaluator oracle over accessor results"),
 "C06": dict(cat="exploration", ref="DESIGN 3/C06",
   text="Contracts wrapped around the real dunder methods of Point/Expression check every operator application driven by random "
        "expression trees and by model construction: denotation under random leaf assignment, operands unchanged, fresh result, "
        "comparison sense, and every COEFFICIENT of the result against the operands' coefficients (relative to its own "
        "contributions: terms of 1e-12 next to 1 count); scalars down to 1e-200, combinations built by the documented "
        "constructor; 43 bad-operand kinds must raise. 2e6 applications per quick run.",
   note="trusted: pv/canon.py; identity testing at random points in R^5 at 1e-9 relative",
   tech="runtime contracts (pre/post snapshots) on the real operator methods + reference interpreter"),
 "C16": dict(cat="exploration", ref="DESIGN 3/C16",
   text="Every object reachable in generated models is asked for eval()/eval_dual() before any solve and after a solve that "
        "returned None (must raise ValueError exactly); purpose-built unbounded/infeasible models must return None when the "
        "back-end says so (Clarabel, SCS, MOSEK stand-in); the per-function dual tables are judged as accessors too; invalid "
        "option values (solve options, unknown solver names, step options, constraint sense) must raise.",
   note="objects without any leaf are outside the statement; SolverError is inconclusive for that case",
   tech="runtime monitor of accessor outcomes (exception type / returned value) over generated and fault models"),
 "C07": dict(cat="exploration", ref="DESIGN 3/C07",
   text="After every public Function call of random (and, thorough tier, exhaustively enumerated short) call sequences on leaf and "
        "composite functions, a state-walking hook evaluates the bookkeeping invariants (one value per point, gradient reuse, "
        "weighted-sum coherence by search over term samples, stationary/fixed points, alias points, recorded samples immutable) "
        "and contracts on returned objects; 'the same point' is the same zero-pruned decomposition; linear operators and their "
        "adjoints included. 5e6 invariant evaluations per quick run.",
   note="trusted: pv/canon.py; coefficient equality at 1e-9 relative",
   tech="invariant-at-a-hook: executable bookkeeping model checked at quiescent points after each call"),
 "C15": dict(cat="exploration", ref="DESIGN 3/C15",
   text="Monitor on BlockPartition.get_block (sum-back, repeated request identity, one-block identity) + comparison of the "
        "partition constraints crossing the wrapper boundary with the reference orthogonality set (both inclusions) + evaluation "
        "on real coordinate projections of random vectors, over random multi-partition models; block-smooth class constraints "
        "evaluated on real block-smooth quadratics with real projections (points sharing labels); a quadratic too steep on one "
        "block must be rejected; points written with null coefficients.",
   note="trusted: pv/canon.py and an independent bilinear expansion; growth across re-solves is judged under C13",
   tech="runtime contracts on get_block + reference-set comparison of sent constraints + concrete-projection evaluation"),
 "C12": dict(cat="exploration", ref="DESIGN 3/C12",
   text="For pairs (history, B) the canonical dump of everything crossing the wrapper boundary (order, sense, names, counters, "
        "float.hex coefficients keyed by leaf counters, solver chosen, class counters at PEP() time, null objects) taken first in a "
        "fresh interpreter is compared bit-for-bit with the dump taken after a random in-process history including failed, abandoned "
        "(sys.monitoring failpoints), nested and orphan-object histories, B itself abandoned three times inside its translator; "
        "results compared at 1e-9.",
   note="solver assumed deterministic for bit-identical input; histories are sampled",
   tech="offline checker over recorded wrapper-boundary dumps, fresh-process reference vs fault-injected in-process histories"),
 "C13": dict(cat="exploration", ref="DESIGN 3/C13",
   text="Schedules of 2-4 solves on one problem object interleaved with edits, option changes, injected solver failures and "
        "evaluations; after each finite re-solve the C01/C02 oracles run against the latest solution, and the multiset of "
        "functionals/LMIs crossing the wrapper boundary, the Gram size and the returned value are compared with a freshly built "
        "equivalent model run in another interpreter; held constraints / LMIs (also removed or never added ones) must evaluate to "
        "the latest solution; after a re-solve without value accessors must raise; the solver keywords reaching the wrapper "
        "are those of the current call; the size of the solver problem does not grow with the number of solves.",
   note="fresh equivalent = declarations+edits replayed without earlier solves; objects removed from the model by an edit are "
        "outside the statement; thresholds DESIGN 2.8",
   tech="runtime monitor of per-solve wrapper-boundary data + fresh-process reference model + accessor oracles"),
 "C11": dict(cat="translation_validation", ref="DESIGN 3/C11, 2.6",
   text="Every generated program is solved through both back-ends (MOSEK through a recording/validating/solving stand-in of the "
        "Optimizer API); compared: optimal value, C01 certificate and C02 primal oracles on the MOSEK side over the same sent "
        "list, and the Task rows/LMI couplings/objective reconstructed from the recorded calls against the declared functionals.",
   note="MOSEK is modelled by pv/standins/mosek (self-checked against the manual's dual equations), not run; thresholds DESIGN 2.8",
   tech="translation validation of recorded solver-API traces + differential run of two back-ends under certificate/primal oracles"),
 "C05": dict(cat="translation_validation", ref="DESIGN 3/C05",
   text="With the solver call stubbed at the wrapper boundary, (1) the multiset of objects crossing the boundary is reconciled "
        "with the client-side declaration log + class/partition constraints (each as often as declared, declared sense, nothing "
        "else, also at a second solve after new samples); (2) every emitted cvxpy constraint/objective is evaluated at random "
        "(G,F,M) against the independent evaluator and the MOSEK Task is reconstructed from recorded calls; (3) dense and "
        "sparse translators are called on random expression shapes.",
   note="trusted: pv/canon.py; MOSEK through pv/standins/mosek; identity testing at random points, 1e-9 relative",
   tech="translation validation at the wrapper boundary (declared log vs emitted solver data), solver stubbed"),
 "C14": dict(cat="exploration", ref="DESIGN 3/C14",
   text="Programs solved with trace/logdetN heuristics (random tolerances, both modes, both back-ends); monitors record Gram and "
        "value after every inner solve and when duals are assigned; oracle: duals assigned before any heuristic solve, C01 "
        "certificate vs originally sent constraints, dual return = plain-solve dual, primal within [opt - tol, opt], C02 "
        "feasibility, trace monotone, heuristic problem never excludes the optimum; one configuration in six in an environment "
        "without the mosek package (documented switch to cvxpy must keep the options); the wrapper's dual getter is a pure read.",
   note="trusted: pv/canon.py, thresholds DESIGN 2.8; MOSEK via stand-in",
   tech="runtime monitor of inner solver calls + certificate/primal oracles + differential plain solve"),
 "C04": dict(cat="exploration", ref="DESIGN 3/C04, Appendix A",
   text="One multiset of samples per scenario is recorded under several declaration orders (stationary first/last/middle, repeated "
        "subgradients, fixed points, prox and composite-function arrivals, intermediate solves) for all 24 classes; generated "
        "constraints/LMIs become canonical functionals with role labels; oracle A: equal across orders; oracle B: equal to an "
        "independent reference implementation of the documented conditions, unmatched items decided by an SDP implication test "
        "whose optimum is a concrete (Gram, F) witness; attainment: for the 8 function classes with an explicit canonical "
        "interpolant, small PEPs are solved and the interpolant of the returned samples (a real function) must pass through them "
        "and satisfy the definition of its class.",
   note="trusted: pv/ref/conditions.py (transcription of the documented conditions), pv/ref/sym.py, Clarabel 'optimal' for the "
        "implication SDPs; 'attained by a real member' is constructed for 8 function classes (pv/interp.py) and relies on the "
        "published interpolation theorems for the operator / linear / quadratic / QG / RSI-EB classes",
   tech="reference-model monitor over constraint lists observed after set_class_constraints, under permuted histories"),
 "C17": dict(cat="exploration", ref="DESIGN 3/C17",
   text="After finite solves of generated models covering all 24 classes in every parameter variant (named/unnamed points and "
        "functions, repeated evaluations at a named point, stationary point declared last) the tables of constraints and "
        "get_class_constraints_duals() are compared with the reference conditions: one table per documented condition, shape and "
        "labels, entry (i,j) = constraint of that ordered pair (canonical functional equality) or 0, dual entry = eval_dual() "
        "exactly, names parse back to (function, condition, points); repeated after a second solve of the same object; functions "
        "created by their constructor next to declared ones, no identifier shared by two functions.",
   note="trusted: pv/ref/conditions.py names/pairs, pv/canon.py",
   tech="reference-model monitor over the dual-table accessor and constraint names after real solves"),
 "C03": dict(cat="exploration", ref="DESIGN 3/C03, 2.5",
   text="For all 24 classes, random admissible parameters incl. boundary regimes and real members (41 class/family kinds, each "
        "self-tested on its class's defining property), concrete samples are registered through the real API in random order "
        "(leaf and combination points, repeated subgradient selections, stationary/fixed points, proximal steps, transposes, "
        "block decompositions), every leaf is bound to its concrete value and every generated scalar constraint / LMI is evaluated "
        "by the independent evaluator; a non-differentiable function must hand out a free subgradient when queried again "
        "(admissible choices representable); limit parameters L = inf, mu = 0; 1e6 constraint evaluations per quick run.",
   note="trusted: pv/ref/members.py (self-tested members), pv/canon.py; members come from constructive families (exotic members "
        "are out of reach; C04's reference comparison is the complementary guard)",
   tech="runtime evaluation of generated constraint lists on concrete executions of real class members (conservation-style oracle)"),
 "C08": dict(cat="exploration", ref="DESIGN 3/C08",
   text="Each of the 8 primitive steps is called with every option, random step sizes/accuracies, leaf/combination/evaluated "
        "start points, on leaf and composite functions; oracle A compares returned tuple, added samples and added side constraints "
        "(canonical functional set equality) with a specification transcribed from the step documentation, and that caller-owned "
        "arguments are untouched; oracle B runs the real operation on real functions (exact prox, exact line search, LMO, Bregman "
        "steps, inexact proxes and eps-subgradients whose true gap comes from the conjugate) and requires every recorded side and "
        "class constraint to hold, tight where the construction is tight; a step that queries a function that is not "
        "differentiable records a new sample, also at a declared stationary point.",
   note="trusted: the specifications in pv/checks/c08.py (documentation transcription), pv/ref/members.py, pv/ref/sym.py",
   tech="runtime contracts on step calls against a reference specification + concrete executions on real functions"),
 "C09": dict(cat="exploration", ref="DESIGN 3/C09, 8.1",
   text="A numeric re-implementation of the small API the examples are written against (points = numpy vectors, declared "
        "functions = real self-tested members of the declared class, primitive steps = the real operations) is swapped into each "
        "example module, so the example's own method code runs numerically on real functions from starting points that make the "
        "initial condition active; for random admissible parameters the performance of many such runs is compared with the value "
        "the library returns (perf <= bound*(1+1e-4)+1e-7); hard instances are searched by a (1+1) evolution strategy over "
        "by-construction member families, starting directions and inexactness choices. 85 of the 86 examples are executed this "
        "way. For 39 examples the method DOCUMENTED in the docstring is transcribed independently (pv/ref/methods.py) and must "
        "give the same performance as the example's body on the same function, and stay below the bound.",
   note="sampling of members and starting points: evidence reports the best performance/bound ratio reached per example (1.000 "
        ">= 0.95 for about 40 of them in the quick tier); a bound too small by less than that gap is invisible",
   tech="differential execution: the modelled method run on real class members vs the returned bound"),
 "C10": dict(cat="exploration", ref="DESIGN 3/C10",
   text="Every shipped example is run at its pinned tuple and at random admissible tuples from its documented validity range "
        "(pv/ref/examples_table.py, transcribed from the docstrings and cross-checked with the test assertions), with Clarabel and "
        "partly through the MOSEK stand-in; tight => |pepit-theory| <= 1e-3*theory, upper => pepit <= theory*(1+1e-3); the "
        "complexified variants must return the value of their base example at the same parameters; equivalent reformulations "
        "(inequalities as function LMIs, useless partition, block decompositions written P_i(2p)/2) must not move the value "
        "(compared on proven intervals when the solver stops with optimal_inaccurate).",
   note="documented ranges are hand-transcribed (SUSPECTS list in the table documents every restriction); runs whose back-end "
        "status is not optimal are skipped and counted",
   tech="runtime oracle over example outputs on sampled documented parameter ranges (reference closed forms shipped with the examples)"),
}
NOT_YET = {}

def main():
    import importlib
    props = [json.loads(l) for l in open(os.path.join(ROOT, "properties.jsonl"))]
    checks = []
    na = []
    for p in props:
        pid = p["id"]
        if pid in CHECKS and os.path.exists(os.path.join(ROOT, "pv", "checks", pid.lower() + ".py")):
            c = CHECKS[pid]
            checks.append({
                "property_id": pid,
                "quick_cmd": "./check %s quick" % pid,
                "thorough_cmd": "./check %s thorough" % pid,
                "evidence_file": "/verif/evidence/%s.json" % pid,
                "replay_cmd_template": "./check %s --replay {path}" % pid,
                "engine": "pv",
                "level_claimed": {"category": c["cat"], "text": c["text"], "design_ref": c["ref"]},
                "level_note": c["note"],
                "technique": c["tech"],
            })
        else:
            na.append({"property_id": pid, "reason": NOT_YET.get(pid, "check not built yet in this session (runtime-monitoring design exists in DESIGN.md section 3); will be claimed once its monitor runs silently on the unchanged tree")})
    man = {
        "version": 1,
        "setup_cmd": "/venv/bin/python -B pv/main.py --setup",
        "hooks": {"guard": "PEPIT_VERIF", "enable": "checks export PEPIT_VERIF=1 and put /repo first on PYTHONPATH (pure Python: nothing to build); no source hook is needed so far, all monitors wrap public boundaries from outside",
                  "baseline_off_cmd": "cd /repo && env -u PEPIT_VERIF /venv/bin/python -m pytest -ra -q -p no:cacheprovider --timeout=900 --continue-on-collection-errors tests",
                  "source_commits": [], "add_only": True},
        "engines": [{"name": "pv", "path": "/verif/pv", "serves_properties": [c["property_id"] for c in checks],
                     "kind_free_text": "runtime monitoring: boundary monitors wrapped around the real PEPit classes, generated workload programs, independent oracles; subprocess shards"}],
        "checks": checks,
        "not_applicable": na,
        "notes": "Verdicts: exit 0 held on what was observed, exit 1 VIOLATION, exit 2 INCONCLUSIVE (deciding monitor not reached / shard watchdog). Known findings in /verif/known_findings.json.",
    }
    if not na:
        del man["not_applicable"]
    json.dump(man, open(os.path.join(ROOT, "MANIFEST.json"), "w"), indent=1)
    print("MANIFEST.json: %d checks, %d not_applicable" % (len(checks), len(na)))

if __name__ == "__main__":
    main()
