#!/venv/bin/python
"""Move confirmed seeds from seeded/_incoming/<P>/<k> to seeded/<P>-<k>/ (meta.json completed with what was run);
unconfirmed ones go to seeded/_rejected/<P>-<k>/ with the reason."""
import json, os, shutil
ROOT = os.path.dirname(os.path.dirname(os.path.abspath(__file__)))
inc = os.path.join(ROOT, "seeded", "_incoming")
NOTES = {
 "C07-6": "neutralised by the repair 9a338d6 (the lookup now prunes null coefficients of the query, so a point reached through an un-pruned cancelling subtraction is recognised again): equivalent on the repaired tree; it was caught by C07 quick before the repair",
 "C04-2": "neutralised by the repair ba0f5cf (set_class_constraints now resets list_of_class_psd, so the seeded guard never triggers): equivalent on the repaired tree",
 "C13-3": "does not apply on the repaired tree (32e7309 rewrote the same lines); superseded by the equivalent seed C15-2 produced on the repaired tree",
}
for P in sorted(os.listdir(inc)):
    for k in sorted(os.listdir(os.path.join(inc, P))):
        d = os.path.join(inc, P, k)
        if not os.path.isdir(d):
            continue
        sid = "%s-%s" % (P, k)
        conf = json.load(open(os.path.join(d, "confirm.json"))) if os.path.exists(os.path.join(d, "confirm.json")) else {}
        meta = json.load(open(os.path.join(d, "meta.json"))) if os.path.exists(os.path.join(d, "meta.json")) else {}
        ok = conf.get("confirmed") and sid not in NOTES
        meta_out = {"id": sid, "property": meta.get("property", P), "title": meta.get("title"), "files": meta.get("files"),
                    "what_breaks": meta.get("what_breaks"), "needs_to_manifest": meta.get("needs_to_manifest"),
                    "why_tests_pass": meta.get("why_tests_pass"), "agent_ran": meta.get("ran"),
                    "confirmed_by_me": {"in": "scratch worktree of /repo HEAD %s under /var/tmp (removed)" % conf.get("repo_head"),
                                         "patch_file": conf.get("patch_file"), "demo_on_clean_tree_rc": conf.get("demo_clean_rc"),
                                         "demo_with_patch_rc": conf.get("demo_changed_rc"), "suite_with_patch": conf.get("suite_tail"),
                                         "command": "tools/confirm_seed.py (demo; git apply; demo; pytest -n 5 tests minus the two known failures)"},
                    "note": NOTES.get(sid)}
        dest = os.path.join(ROOT, "seeded", sid if ok else os.path.join("_rejected", sid))
        if os.path.exists(dest):
            shutil.rmtree(dest)
        os.makedirs(os.path.dirname(dest), exist_ok=True)
        shutil.copytree(d, dest)
        for junk in ("suite.log", "confirm.json"):
            p = os.path.join(dest, junk)
            if os.path.exists(p):
                os.remove(p)
        json.dump(meta_out, open(os.path.join(dest, "meta.json"), "w"), indent=1)
        print(sid, "kept" if ok else "REJECTED: %s" % (NOTES.get(sid) or "not confirmed"))
