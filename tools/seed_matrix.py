#!/venv/bin/python
"""Run checks against every kept seed (scratch worktrees) and write seeded/MATRIX.md + seeded/matrix.json.
  tools/seed_matrix.py [seed ids...] [--extra C01,C02]"""
import json, os, re, subprocess, sys, time
ROOT = os.path.dirname(os.path.dirname(os.path.abspath(__file__)))
CROSS = {"C01-3": ["C13"], "C02-3": ["C13"], "C05-2": ["C13"], "C05-3": ["C11"], "C09-1": ["C03"], "C09-2": ["C08"], "C09-3": ["C03"],
         "C10-1": ["C05"], "C10-2": ["C03"], "C11-2": ["C14"], "C13-1": ["C01"], "C15-2": ["C13"], "C16-1": ["C13"], "C14-3": ["C01"],
         "C04-1": ["C17"], "C04-3": ["C17", "C03"], "C12-3": ["C06"], "C03-1": ["C09"], "C03-2": ["C04"], "C03-3": ["C04"],
         "C09-4": ["C03", "C08"], "C09-5": ["C03", "C08"],
         "C09-8": ["C03", "C04"], "C09-11": ["C07", "C08"], "C10-11": ["C07"], "C10-12": ["C09"], "C15-13": ["C04"], "C02-13": ["C05"],
         "C01-13": ["C05"]}
args = [a for a in sys.argv[1:] if not a.startswith("--")]
seeds = args or sorted(d for d in os.listdir(os.path.join(ROOT, "seeded")) if re.match(r"C\d\d-\d", d))
mpath = os.path.join(ROOT, "seeded", "matrix.json")
matrix = json.load(open(mpath)) if os.path.exists(mpath) else {}
have = set(re.findall(r'"C\d\d": dict', open(os.path.join(ROOT, "tools", "make_manifest.py")).read()))
have = {h[1:4] for h in have}
for sid in seeds:
    d = os.path.join(ROOT, "seeded", sid)
    patch = os.path.join(d, "patch_rebased.diff") if os.path.exists(os.path.join(d, "patch_rebased.diff")) else os.path.join(d, "patch.diff")
    checks = [sid[:3]] + CROSS.get(sid, [])
    for c in checks:
        if c not in have or (sid in matrix and c in matrix[sid] and "--redo" not in sys.argv):
            continue
        t0 = time.time()
        r = subprocess.run([os.path.join(ROOT, "tools", "mutant.py"), patch, c], capture_output=True, text=True)
        first = [l.strip() for l in r.stdout.splitlines() if l.strip().startswith("key=")]
        if "patch failed" in (r.stderr + r.stdout) or "Traceback" in r.stderr:
            verdict = "ERROR(patch does not apply / tool error)"
        else:
            verdict = "CAUGHT" if "CAUGHT" in r.stdout else ("INCONCLUSIVE" if "exit=2" in r.stdout else "MISSED")
        matrix.setdefault(sid, {})[c] = {"verdict": verdict, "first_key": first[0][:200] if first else None, "wall_s": round(time.time() - t0)}
        print(sid, c, verdict, (first[0][:120] if first else ""), flush=True)
        json.dump(matrix, open(mpath, "w"), indent=1)
lines = ["# Seeded defects vs checks (quick tier, VERIF_SEED=0)", "",
         "Each seed is an independent sub-agent's change that breaks the named property while the unedited suite passes; applied to a scratch",
         "worktree of /repo HEAD by `tools/mutant.py`, never to /repo itself.", "", "| seed | title | check | verdict | first violation key |", "|---|---|---|---|---|"]
for sid in sorted(matrix):
    meta = json.load(open(os.path.join(ROOT, "seeded", sid, "meta.json"))) if os.path.exists(os.path.join(ROOT, "seeded", sid, "meta.json")) else {}
    for c, v in sorted(matrix[sid].items()):
        lines.append("| %s | %s | %s | %s | %s |" % (sid, (meta.get("title") or "")[:90].replace("|", "/"), c, v["verdict"], (v.get("first_key") or "").replace("|", "/")[:150]))
open(os.path.join(ROOT, "seeded", "MATRIX.md"), "w").write("\n".join(lines) + "\n")
