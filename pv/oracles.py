"""Deterministic oracles over recorded solve events (independent of PEP.check_feasibility).

Numerical verdict policy (DESIGN 2.8): scale s = 1 + max(|tau|, |multipliers|, |G|, |F|);
violated if defect > VIOL*s, held if < HELD*s, marginal in between (reported, not judged).
"""
import numpy as np

from pv import canon

TOL = {  # solver family -> (held, violated)
    "CLARABEL": (1e-6, 1e-4),
    "SCS": (2e-4, 5e-3),
    "STANDIN": (1e-6, 1e-4),
}


# mechanisms recorded as known findings of C01 (known_findings.json): other checks count them and do not judge them
C01_KNOWN_KEYS = ("identity_open_in_span_of_lmi_entry_symmetries", "identity_open_constraint_object_sent_twice")


def solver_family(rec):
    name = None
    if rec["inner"]:
        name = rec["inner"][0].get("solver")
    name = str(name or "").upper()
    if "SCS" in name:
        return "SCS"
    if "CLARABEL" in name:
        return "CLARABEL"
    if "MOSEK" in name:
        return "STANDIN"
    return "SCS"


def _grade(defect, scale, fam):
    held, viol = TOL[fam]
    if defect > viol * scale:
        return "violated"
    if defect > held * scale:
        return "marginal"
    return "held"


def _mineig(M):
    M = np.asarray(M, dtype=float)
    if M.size == 0:
        return 0.0
    S = (M + M.T) / 2.0
    return float(np.min(np.linalg.eigvalsh(S)))


def certificate_check(rec, ret_value, mode):
    """C01 oracle. rec: Boundary record of a solve that returned a finite value.

    Returns (findings, info): findings = list of dicts {key, what, defect, grade} for every non-held item."""
    from PEPit.constraint import Constraint
    from PEPit.psd_matrix import PSDMatrix
    pep = rec["pep"]
    idx = canon.Index()
    fam = solver_family(rec)
    findings = []
    info = {"solver": fam}

    def add(key, what, defect, scale):
        g = _grade(defect, scale, fam)
        if g != "held":
            findings.append({"key": key, "what": what, "defect": float(defect), "scale": float(scale), "grade": g})

    if not idx.counters_ok:
        findings.append({"key": "leaf_counters_inconsistent", "what": "leaf counters do not match registries",
                         "defect": 1.0, "scale": 1.0, "grade": "violated"})
        return findings, info

    sent = [(k, o) for (k, o, tracked) in rec["sent"] if tracked]
    # the certificate must range over the list PEP itself says it sent
    own = list(pep._list_of_constraints_sent_to_wrapper)
    own_psd = list(pep._list_of_psd_sent_to_wrapper)
    log_c = [o for k, o in sent if k == "c"]
    log_l = [o for k, o in sent if k == "lmi"]
    if len(own) != len(log_c) or any(a is not b for a, b in zip(own, log_c)) or \
            len(own_psd) != len(log_l) or any(a is not b for a, b in zip(own_psd, log_l)):
        findings.append({"key": "sent_list_mismatch",
                         "what": "PEP._list_of_*_sent_to_wrapper differs from what crossed the wrapper boundary "
                                 "(%d/%d scalar, %d/%d lmi)" % (len(own), len(log_c), len(own_psd), len(log_l)),
                         "defect": 1.0, "scale": 1.0, "grade": "violated"})

    obj = rec["objective"]
    n, m = idx.n, idx.m
    residual = pep.residual
    if residual is None or np.shape(residual) != (n, n):
        findings.append({"key": "residual_shape", "what": "residual missing or wrong shape %r" % (np.shape(residual),),
                         "defect": 1.0, "scale": 1.0, "grade": "violated"})
        return findings, info
    residual = np.asarray(residual, dtype=float)

    A0, a0, c0 = canon.expr_num(obj, idx)
    RA = A0.copy()
    Ra = a0.copy()
    Rc = c0
    mults = [0.0]
    lam_min = 0.0
    n_ineq = n_eq = n_lmi = 0
    nonzero = 0
    lmi_kinds = []
    for kind, o in sent:
        if kind == "c":
            if not isinstance(o, Constraint):
                raise canon.CanonError("sent scalar object is not a Constraint")
            try:
                lam = o.eval_dual()
            except Exception as e:
                findings.append({"key": "dual_missing", "what": "eval_dual raised %r on a sent constraint" % (e,),
                                 "defect": 1.0, "scale": 1.0, "grade": "violated"})
                continue
            lam = float(lam)
            A, a, c = canon.expr_num(o.expression, idx)
            RA -= lam * A
            Ra -= lam * a
            Rc -= lam * c
            mults.append(abs(lam))
            if abs(lam) > 1e-7:
                nonzero += 1
            if o.equality_or_inequality == "inequality":
                n_ineq += 1
                lam_min = min(lam_min, lam)
            else:
                n_eq += 1
        else:
            if not isinstance(o, PSDMatrix):
                raise canon.CanonError("sent lmi object is not a PSDMatrix")
            n_lmi += 1
            try:
                S = o.eval_dual()
            except Exception as e:
                findings.append({"key": "dual_missing", "what": "eval_dual raised %r on a sent LMI" % (e,),
                                 "defect": 1.0, "scale": 1.0, "grade": "violated"})
                continue
            S = np.asarray(S, dtype=float)
            if S.shape != o.shape:
                findings.append({"key": "lmi_dual_shape", "what": "LMI dual shape %r != %r" % (S.shape, o.shape),
                                 "defect": 1.0, "scale": 1.0, "grade": "violated"})
                continue
            mults.append(float(np.max(np.abs(S))) if S.size else 0.0)
            symmetric_as_written = True
            for i in range(o.shape[0]):
                for j in range(o.shape[1]):
                    A, a, c = canon.expr_num(o[i, j], idx)
                    RA += S[i, j] * A
                    Ra += S[i, j] * a
                    Rc += S[i, j] * c
                    if j > i:
                        A2, a2, c2 = canon.expr_num(o[j, i], idx)
                        if np.max(np.abs(A - A2), initial=0) > 1e-12 or np.max(np.abs(a - a2), initial=0) > 1e-12 \
                                or abs(c - c2) > 1e-12:
                            symmetric_as_written = False
            lmi_kinds.append("sym" if symmetric_as_written else "nonsym")
    RA += residual

    scale = 1.0 + max(max(mults), float(np.max(np.abs(residual))) if residual.size else 0.0,
                      abs(ret_value) if ret_value is not None else 0.0)
    info.update({"scale": scale, "n_ineq": n_ineq, "n_eq": n_eq, "n_lmi": n_lmi, "nonzero_multipliers": nonzero,
                 "lmi_kinds": lmi_kinds})
    nonsym = "nonsym" in lmi_kinds
    dG = float(np.max(np.abs(RA))) if RA.size else 0.0
    dF = float(np.max(np.abs(Ra))) if Ra.size else 0.0
    info["identity_defect_raw"] = max(dG, dF)
    open_in_span = False
    if nonsym and _grade(max(dG, dF), scale, fam) != "held":
        # Is what is left exactly a combination of the entry-symmetry equalities T_ij = T_ji of the LMIs that
        # are not symmetric as written (multipliers that exist in the solver but are never exposed)?
        basis, consts = [], []
        for kind, o in sent:
            if kind != "lmi":
                continue
            for i in range(o.shape[0]):
                for j in range(i + 1, o.shape[1]):
                    A1, a1, c1 = canon.expr_num(o[i, j], idx)
                    A2, a2, c2 = canon.expr_num(o[j, i], idx)
                    v = np.concatenate([(A1 - A2).ravel(), a1 - a2])
                    if np.max(np.abs(v), initial=0.0) > 1e-12 or abs(c1 - c2) > 1e-12:
                        basis.append(v)
                        consts.append(c1 - c2)
        if basis:
            Bm = np.array(basis).T
            r = np.concatenate([RA.ravel(), Ra])
            coef, *_ = np.linalg.lstsq(Bm, r, rcond=None)
            rem = r - Bm @ coef
            sc2 = scale * (1.0 + float(np.max(np.abs(coef), initial=0.0)))
            if _grade(float(np.max(np.abs(rem), initial=0.0)), sc2, fam) != "violated":
                open_in_span = True
                info["open_in_span_coef_max"] = float(np.max(np.abs(coef), initial=0.0))
                findings.append({"key": "identity_open_in_span_of_lmi_entry_symmetries",
                                 "what": "exposed multipliers leave %.3e in the identity; the remainder is a "
                                         "combination of the entry equalities T_ij = T_ji of an LMI that is not "
                                         "symmetric as written (their multipliers are never exposed)" % max(dG, dF),
                                 "defect": max(dG, dF), "scale": scale, "grade": "violated"})
    # one Constraint object registered twice is sent twice (two multipliers in the solver) but can hold only one: when the
    # identity is open on such a model the mechanism is that one, whatever else may be wrong (known finding, keyed by it)
    ids_c = [id(o) for k, o in sent if k == "c"]
    twice = len(ids_c) != len(set(ids_c))
    info["constraint_object_sent_twice"] = twice
    twice_in_span = False
    if twice and not open_in_span and _grade(max(dG, dF), scale, fam) == "violated":
        # what is left must be a combination of the duplicated constraints themselves (two multipliers in the solver, one
        # exposed): anything else left in the identity of such a model is judged as usual
        seen_, dup_ = set(), []
        for k_, o_ in sent:
            if k_ == "c":
                if id(o_) in seen_ and not any(o_ is d_ for d_ in dup_):
                    dup_.append(o_)
                seen_.add(id(o_))
        basis = []
        for o_ in dup_:
            A_, a_, _c = canon.expr_num(o_.expression, idx)
            basis.append(np.concatenate([((A_ + A_.T) / 2.0).ravel(), a_]))
        Bm = np.array(basis).T
        r = np.concatenate([((RA + RA.T) / 2.0).ravel(), Ra])
        coef, *_ = np.linalg.lstsq(Bm, r, rcond=None)
        rem = r - Bm @ coef
        sc2 = scale * (1.0 + float(np.max(np.abs(coef), initial=0.0)))
        twice_in_span = _grade(float(np.max(np.abs(rem), initial=0.0)), sc2, fam) != "violated"
        info["sent_twice_in_span"] = twice_in_span
    if twice_in_span:
        findings.append({"key": "identity_open_constraint_object_sent_twice",
                         "what": "the same Constraint object was registered twice: it is sent twice and the solver holds two multipliers, "
                                 "the object exposes one; the identity is open by %.3e" % max(dG, dF),
                         "defect": max(dG, dF), "scale": scale, "grade": "violated"})
        open_in_span = True
    if not open_in_span:
        add("identity_gram", "certificate identity leaves a Gram-matrix term of size %.3e" % dG, dG, scale)
        add("identity_fvalues", "certificate identity leaves a function-value term of size %.3e" % dF, dF, scale)
    info["identity_defect"] = max(dG, dF)
    info["tau_identity"] = Rc
    add("negative_multiplier", "inequality multiplier %.3e < 0" % lam_min, -lam_min, scale)
    # symmetric + PSD residual / LMI duals
    asym = float(np.max(np.abs(residual - residual.T))) if residual.size else 0.0
    add("residual_not_symmetric", "residual asymmetric by %.3e" % asym, asym, scale)
    me = _mineig(residual)
    add("residual_not_psd", "residual min eigenvalue %.3e" % me, -me, scale)
    for kind, o in sent:
        if kind == "lmi" and o._dual_variable_value is not None:
            S = np.asarray(o._dual_variable_value, dtype=float)
            if S.shape != o.shape:
                continue
            asym = float(np.max(np.abs(S - S.T))) if S.size else 0.0
            add("lmi_dual_not_symmetric", "LMI dual asymmetric by %.3e" % asym, asym, scale)
            me = _mineig(S)
            add("lmi_dual_not_psd", "LMI dual min eigenvalue %.3e" % me, -me, scale)
    # the value returned in dual mode is exactly the constant of the identity
    if mode == "dual" and ret_value is not None:
        d = abs(Rc - ret_value)
        # same floats, different summation order: far tighter than solver tolerance
        if d > 1e-9 * scale:
            findings.append({"key": "dual_value_not_identity_constant",
                             "what": "dual-mode return %.15g differs from the identity constant %.15g by %.3e"
                                     % (ret_value, Rc, d), "defect": d, "scale": scale, "grade": "violated"})
    return findings, info


def primal_check(rec, ret_value, mode, held_objects=(), posthoc=None):
    """C02 oracle: consistency and feasibility of the returned primal instance."""
    from PEPit.point import Point
    from PEPit.expression import Expression
    pep = rec["pep"]
    idx = canon.Index()
    fam = solver_family(rec)
    findings = []
    info = {"solver": fam}
    G = np.asarray(pep.G_value, dtype=float)
    F = np.asarray(pep.F_value, dtype=float)
    n, m = idx.n, idx.m
    scale = 1.0 + max(float(np.max(np.abs(G))) if G.size else 0.0, float(np.max(np.abs(F[:m]))) if m else 0.0)
    info["scale"] = scale

    def add(key, what, defect, sc=None):
        g = _grade(defect, sc or scale, fam)
        if g != "held":
            findings.append({"key": key, "what": what, "defect": float(defect), "scale": float(sc or scale), "grade": g})

    if G.shape != (n, n):
        findings.append({"key": "gram_shape", "what": "G_value shape %r != (%d,%d)" % (G.shape, n, n),
                         "defect": 1.0, "scale": 1.0, "grade": "violated"})
        return findings, info
    # (i) leaf point values reproduce the PSD projection of G
    try:
        P = np.array([np.asarray(p.eval(), dtype=float) for p in idx.points]).T  # columns = points
    except Exception as e:
        findings.append({"key": "leaf_eval_raises", "what": "leaf point eval raised %r after a finite solve" % (e,),
                         "defect": 1.0, "scale": 1.0, "grade": "violated"})
        return findings, info
    if n:
        GG = P.T @ P
        w, V = np.linalg.eigh((G + G.T) / 2.0)
        Gproj = (V * np.maximum(w, 0)) @ V.T
        d = float(np.max(np.abs(GG - Gproj)))
        add("gram_not_reproduced", "inner products of evaluated leaf points differ from PSD-projected Gram by %.3e" % d, d)
        dneg = float(max(0.0, -np.min(w)))
        add("gram_not_psd", "solver Gram matrix min eigenvalue %.3e" % (-dneg), dneg)
    else:
        GG = np.zeros((0, 0))
    # leaf expressions equal F entries
    for j, e in enumerate(idx.exprs):
        try:
            v = float(e.eval())
        except Exception as ex:
            # leaves created after the solve have no value: not reachable here (idx built from registry now)
            findings.append({"key": "leaf_expr_eval_raises", "what": "leaf expression %d eval raised %r" % (j, ex),
                             "defect": 1.0, "scale": 1.0, "grade": "violated"})
            continue
        if j < len(F):
            d = abs(v - F[j])
            add("leaf_expr_value_mismatch", "leaf expression %d evaluates to %.6g, solver F is %.6g" % (j, v, F[j]), d)
    Fv = np.array([float(e.eval()) for e in idx.exprs]) if m else np.zeros(0)
    info["n_objects"] = 0

    def check_obj(o, tag):
        info["n_objects"] += 1
        if isinstance(o, (Point, Expression)):
            try:
                o.eval()
            except Exception as ex:
                findings.append({"key": "held_object_eval_raises:" + type(ex).__name__,
                                 "what": "%s %s .eval() raised %s after a finite solve: %s" % (tag, type(o).__name__, type(ex).__name__, str(ex)[:120]),
                                 "defect": 1.0, "scale": 1.0, "grade": "violated"})
                return
        if isinstance(o, Point):
            want = P @ canon.point_num(o, idx) if n else np.zeros(0)
            got = np.asarray(o.eval(), dtype=float)
            if got.shape != want.shape:
                findings.append({"key": "point_eval_shape", "what": "%s point eval shape %r" % (tag, got.shape),
                                 "defect": 1.0, "scale": 1.0, "grade": "violated"})
                return
            d = float(np.max(np.abs(got - want))) if want.size else 0.0
            add("point_eval_inconsistent", "%s point evaluates %.3e away from the combination of its leaves" % (tag, d), d)
        elif type(o).__name__ == "Constraint":
            want = canon.expr_value(o.expression, GG, Fv, idx)
            try:
                got = float(o.eval())
            except Exception as ex:
                findings.append({"key": "held_object_eval_raises:" + type(ex).__name__,
                                 "what": "%s Constraint .eval() raised %s after a finite solve: %s" % (tag, type(ex).__name__, str(ex)[:120]),
                                 "defect": 1.0, "scale": 1.0, "grade": "violated"})
                return
            sc = scale * (1.0 + sum(abs(float(v)) for v in o.expression.decomposition_dict.values()) if not o.expression.get_is_leaf() else scale)
            add("constraint_eval_inconsistent", "%s %s constraint evaluates to %.9g, the expression it compares with zero is worth %.9g"
                % (tag, o.equality_or_inequality, got, want), abs(got - want), sc)
        elif isinstance(o, Expression):
            want = canon.expr_value(o, GG, Fv, idx)
            got = float(o.eval())
            sc = scale * (1.0 + sum(abs(float(v)) for v in o.decomposition_dict.values()) if not o.get_is_leaf() else scale)
            add("expr_eval_inconsistent", "%s expression evaluates to %.9g, operands give %.9g" % (tag, got, want),
                abs(got - want), sc)

    for o in held_objects:
        check_obj(o, "held")
    if posthoc is not None:
        for o in posthoc():
            check_obj(o, "post-hoc")

    # (iii) feasibility of everything sent
    worst_ineq = worst_eq = 0.0
    for kind, o, tracked in rec["sent"]:
        if not tracked:
            continue
        if kind == "c":
            want = canon.expr_value(o.expression, GG, Fv, idx)
            try:
                got = float(o.eval())
            except Exception as e:
                findings.append({"key": "constraint_eval_raises", "what": "Constraint.eval raised %r after finite solve" % (e,),
                                 "defect": 1.0, "scale": 1.0, "grade": "violated"})
                continue
            csc = scale * (1.0 + sum(abs(float(v)) for v in o.expression.decomposition_dict.values())
                           if not o.expression.get_is_leaf() else scale)
            add("constraint_eval_inconsistent", "Constraint.eval %.9g vs operands %.9g" % (got, want), abs(got - want), csc)
            if o.equality_or_inequality == "inequality":
                worst_ineq = max(worst_ineq, want / (csc / scale))
                add("constraint_violated_at_instance", "sent inequality evaluates to %.3e > 0 at returned instance" % want,
                    want, csc)
            else:
                worst_eq = max(worst_eq, abs(want) / (csc / scale))
                add("equality_violated_at_instance", "sent equality evaluates to %.3e at returned instance" % want,
                    abs(want), csc)
        else:
            Mv = np.array([[canon.expr_value(o[i, j], GG, Fv, idx) for j in range(o.shape[1])]
                           for i in range(o.shape[0])])
            try:
                got = np.asarray(o.eval(), dtype=float)
                d = float(np.max(np.abs(got - Mv))) if Mv.size else 0.0
                msc = scale * (1.0 + float(np.max(np.abs(Mv))) if Mv.size else scale)
                add("psd_eval_inconsistent", "PSDMatrix.eval differs from operands by %.3e" % d, d, msc)
            except Exception as e:
                findings.append({"key": "psd_eval_raises", "what": "PSDMatrix.eval raised %r after finite solve" % (e,),
                                 "defect": 1.0, "scale": 1.0, "grade": "violated"})
            if Mv.size:
                msc = scale * (1.0 + float(np.max(np.abs(Mv))))
                asym = float(np.max(np.abs(Mv - Mv.T)))
                add("lmi_not_symmetric_at_instance", "sent LMI evaluates to a matrix asymmetric by %.3e" % asym, asym, msc)
                me = _mineig(Mv)
                add("lmi_violated_at_instance", "sent LMI has min eigenvalue %.3e at returned instance" % me, -me, msc)
    info["worst_ineq"] = worst_ineq
    info["worst_eq"] = worst_eq
    # (iii') what the user registered on the model or on one of its functions is part of "the constraints": an object that
    # was registered, never reached the solver and FAILS at the returned instance makes the instance one of another model
    try:
        from PEPit.function import Function
        sent_ids = {id(o) for _k, o, _t in rec["sent"]}
        owners = [("the model", pep)] + [("function %d" % i, f) for i, f in enumerate(Function.list_of_functions)]
        for oname, ow in owners:
            for o in list(getattr(ow, "list_of_psd", [])):
                if id(o) in sent_ids or not o.shape[0]:
                    continue
                info["n_unsent_registered"] = info.get("n_unsent_registered", 0) + 1
                Mv = np.array([[canon.expr_value(o[i, j], GG, Fv, idx) for j in range(o.shape[1])] for i in range(o.shape[0])])
                msc = scale * (1.0 + float(np.max(np.abs(Mv))))
                me = _mineig(Mv)
                add("registered_lmi_never_sent_and_violated_at_instance",
                    "an LMI registered on %s never reached the solver and has min eigenvalue %.3e at the returned instance" % (oname, me), -me, msc)
            for o in list(getattr(ow, "list_of_constraints", [])):
                if id(o) in sent_ids:
                    continue
                info["n_unsent_registered"] = info.get("n_unsent_registered", 0) + 1
                want = canon.expr_value(o.expression, GG, Fv, idx)
                csc = scale * (1.0 + sum(abs(float(v)) for v in o.expression.decomposition_dict.values())
                               if not o.expression.get_is_leaf() else scale)
                add("registered_constraint_never_sent_and_violated_at_instance",
                    "a constraint registered on %s never reached the solver and evaluates to %.3e at the returned instance" % (oname, want),
                    want if o.equality_or_inequality == "inequality" else abs(want), csc)
    except KeyError:
        pass        # an object that involves leaves created after the solve has no value at this instance
    # (iv) objective = min metric
    mets = list(pep.list_of_performance_metrics)
    if mets:
        mv = [canon.expr_value(e, GG, Fv, idx) for e in mets]
        objv = float(pep.objective.eval())
        sc = scale * (1.0 + max(abs(x) for x in mv))
        if rec.get("prepare") is None:
            add("objective_not_min_metric", "objective value %.9g vs min metric %.9g" % (objv, min(mv)), abs(objv - min(mv)), sc)
        else:
            # after a dimension-reduction heuristic the objective variable is only tied by
            # optimum - tol <= objective <= metric_k : it is a lower bound attained by the instance
            add("objective_exceeds_min_metric", "objective value %.9g exceeds the smallest metric %.9g at the returned instance"
                % (objv, min(mv)), max(objv - min(mv), 0.0), sc)
        info["min_metric"] = min(mv)
        if mode == "primal" and ret_value is not None:
            add("primal_return_not_objective", "primal-mode return %.9g vs objective value %.9g" % (ret_value, objv),
                abs(ret_value - objv), sc)
    return findings, info
