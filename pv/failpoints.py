"""Source-free failpoints with sys.monitoring (Python 3.12): raise InjectedFault on the n-th LINE event of a chosen
PEPit function.  Used to abandon model construction / solves half-way (C12, C13)."""
import sys

from pv.monitors import InjectedFault

TOOL = 4  # a free tool id


def targets():
    from PEPit.pep import PEP
    from PEPit.function import Function
    from PEPit.wrapper import Wrapper
    from PEPit.wrappers.cvxpy_wrapper import CvxpyWrapper
    from PEPit.wrappers.mosek_wrapper import MosekWrapper
    from PEPit.block_partition import BlockPartition
    from PEPit.tools import expressions_to_matrices as etm
    from PEPit.point import Point
    from PEPit.expression import Expression
    return {
        "PEP._solve_with_wrapper": PEP._solve_with_wrapper,
        "PEP._eval_points_and_function_values": PEP._eval_points_and_function_values,
        "PEP.check_feasibility": PEP.check_feasibility,
        "Function.add_point": Function.add_point,
        "Function.oracle": Function.oracle,
        "Function.add_constraints_from_two_lists_of_points": Function.add_constraints_from_two_lists_of_points,
        "Function.set_class_constraints": Function.set_class_constraints,
        "CvxpyWrapper.send_constraint_to_solver": CvxpyWrapper.send_constraint_to_solver,
        "CvxpyWrapper.send_lmi_constraint_to_solver": CvxpyWrapper.send_lmi_constraint_to_solver,
        "CvxpyWrapper._recover_dual_values": CvxpyWrapper._recover_dual_values,
        "Wrapper.assign_dual_values": Wrapper.assign_dual_values,
        "MosekWrapper.send_constraint_to_solver": MosekWrapper.send_constraint_to_solver,
        "MosekWrapper.send_lmi_constraint_to_solver": MosekWrapper.send_lmi_constraint_to_solver,
        "BlockPartition.add_partition_constraints": BlockPartition.add_partition_constraints,
        "BlockPartition.get_block": BlockPartition.get_block,
        "expression_to_matrices": etm.expression_to_matrices,
        "expression_to_sparse_matrices": etm.expression_to_sparse_matrices,
        "Point.__init__": Point.__init__,
        "Expression.__init__": Expression.__init__,
    }


class Failpoint(object):
    """Context manager arming one failpoint."""
    injected = 0

    def __init__(self, target_name, nth):
        self.name = target_name
        self.nth = nth
        self.hits = 0
        self.fired = False
        fn = targets()[target_name]
        while hasattr(fn, "__wrapped__"):
            fn = fn.__wrapped__
        # monitors may have wrapped the attribute: find the original code through closures
        self.code = _original_code(fn)

    def __enter__(self):
        mon = sys.monitoring
        try:
            mon.use_tool_id(TOOL, "pv-failpoints")
        except ValueError:
            pass
        fp = self

        def on_line(code, line):
            if code is not fp.code or fp.fired:
                return mon.DISABLE
            fp.hits += 1
            if fp.hits >= fp.nth:
                fp.fired = True
                Failpoint.injected += 1
                raise InjectedFault("failpoint %s line %d (hit %d)" % (fp.name, line, fp.hits))
            return None

        mon.register_callback(TOOL, mon.events.LINE, on_line)
        mon.set_local_events(TOOL, self.code, mon.events.LINE)
        return self

    def __exit__(self, *a):
        mon = sys.monitoring
        try:
            mon.set_local_events(TOOL, self.code, 0)
            mon.register_callback(TOOL, mon.events.LINE, None)
            mon.free_tool_id(TOOL)
        except Exception:
            pass
        return False


def _original_code(fn):
    """The PEPit function's own code object, even when a monitor wrapped the attribute (closure walk)."""
    seen = set()
    stack = [fn]
    while stack:
        f = stack.pop()
        if id(f) in seen:
            continue
        seen.add(id(f))
        code = getattr(f, "__code__", None)
        if code is not None and "/PEPit/" in code.co_filename:
            return code
        for cell in (getattr(f, "__closure__", None) or ()):
            try:
                v = cell.cell_contents
            except ValueError:
                continue
            if callable(v):
                stack.append(v)
    return fn.__code__
