"""Independent transcriptions of the methods the shipped examples DOCUMENT (the algorithm written in each example's
docstring, not the loop in its body), run on real functions.

C09 runs the example's own code numerically (pv/numeric.py).  That is blind to an example whose body models something
else than what its docstring says (a lost parenthesis, a loop over the wrong range): both sides would execute the same
wrong code.  For the examples listed in METHODS the documented method is therefore transcribed a second time here, by
hand, from the docstring; on the same real function and the same starting point the two must produce the same performance
(they are two executions of one deterministic method), and the transcription's performance must not exceed the bound.

Interface of a transcription:   fn(kw, env) -> float
    kw   the example's keyword arguments
    env  Env built from a numeric run of the example:
           env.f[i]      oracle of the i-th function DECLARED by the example (in declaration order):
                           .grad(x) / .apply(x)   gradient / operator value (single-valued members only)
                           .value(x)              function value
                           .prox(x, gamma)        exact proximal operator / resolvent  (I + gamma A)^-1 x
           env.x0[k]     k-th starting point (numpy vector), in the order of the example's set_initial_point() calls
           env.xs        the optimal / stationary / fixed point the example declares first (numpy vector) or None
           env.special   all such points in call order: list of ("stationary" | "fixed", vector)
    returns the performance measure documented for the example (same normalisation as its initial condition).

METHODS holds the transcriptions that agree with the shipped bodies on the unmodified tree (the selftest).  DOCUMENTED_ONLY
holds readings of docstrings whose body does something else already on the unmodified tree (index shifts, a missing factor,
another output point ...): they are kept as written in the docstring, are never compared, and are listed for the record.
"""
import numpy as np


class Oracle(object):
    def __init__(self, nfunc):
        self._f = nfunc
        self.member = nfunc.member

    def grad(self, x):
        if self.member.multivalued:
            raise NotSingleValued()
        return np.asarray(self.member.grad(np.asarray(x, dtype=float)), dtype=float)

    apply = grad

    def value(self, x):
        return float(self.member.value(np.asarray(x, dtype=float)))

    def prox(self, x, gamma):
        from pv import numeric
        return np.asarray(numeric._prox(self._f, np.asarray(x, dtype=float), float(gamma)), dtype=float)

    resolvent = prox


class NotSingleValued(Exception):
    pass


class Env(object):
    def __init__(self, env):
        self.f = [Oracle(f) for f in env["functions"]]
        self.x0 = [np.asarray(x, dtype=float) for x in env["x0"]]
        self.special = [(k, np.asarray(v, dtype=float)) for (k, _f, v) in env["special"]]
        self.xs = self.special[0][1] if self.special else None
        self.dim = env["dim"]
        # unit vectors e_t behind the inexact directions of the run, in call order: a transcription forms its own d_t from them
        self.inexact_units = [np.asarray(u, dtype=float) for u in env.get("inexact_units", [])]

    def relative_direction(self, t, g, epsilon):
        """the t-th inexact direction under the RELATIVE notion: d_t = g - epsilon ||g|| e_t  (||d_t - g|| <= epsilon ||g||)"""
        return g - epsilon * np.linalg.norm(g) * self.inexact_units[t]


def sq(v):
    return float(np.dot(v, v))


# ---- transcriptions (from the docstrings) --------------------------------------------------------------------------------
def gradient_descent(kw, env):
    """x_{t+1} = x_t - gamma grad f(x_t), n steps; f(x_n) - f_*   (||x_0 - x_*||^2 <= 1)"""
    f = env.f[0]
    x = env.x0[0]
    for _ in range(kw["n"]):
        x = x - kw["gamma"] * f.grad(x)
    return f.value(x) - f.value(env.xs)


def douglas_rachford_splitting_contraction(kw, env):
    """two sequences from w_0, w_0':  x_t = prox_{alpha f2}(w_t), y_t = prox_{alpha f1}(2 x_t - w_t),
    w_{t+1} = w_t + theta (y_t - x_t);  ||w_n - w_n'||^2   (||w_0 - w_0'||^2 <= 1)"""
    f1, f2 = env.f[0], env.f[1]
    a, th = kw["alpha"], kw["theta"]
    out = []
    for w in (env.x0[0], env.x0[1]):
        for _ in range(kw["n"]):
            x = f2.prox(w, a)
            y = f1.prox(2 * x - w, a)
            w = w + th * (y - x)
        out.append(w)
    return sq(out[0] - out[1])


def accelerated_proximal_point(kw, env):
    """A_0, x_0 = v_0;  for i < n:  alpha_i = (sqrt((A_i g_i)^2 + 4 A_i g_i) - A_i g_i) / 2,  y = (1 - alpha_i) x_i + alpha_i v_i,
    x_{i+1} = prox_{g_i f}(y),  v_{i+1} = v_i + (x_{i+1} - y) / alpha_i,  A_{i+1} = (1 - alpha_i) A_i;
    f(x_n) - f_*   (f(x_0) - f_* + A_0/2 ||x_0 - x_*||^2 <= 1)"""
    f = env.f[0]
    A = kw["A0"]
    x = v = env.x0[0]
    for i in range(kw["n"]):
        g = kw["gammas"][i]
        al = (np.sqrt((A * g) ** 2 + 4 * A * g) - A * g) / 2
        y = (1 - al) * x + al * v
        xn = f.prox(y, g)
        v = v + (xn - y) / al
        A = (1 - al) * A
        x = xn
    return f.value(x) - f.value(env.xs)


def _two_runs(step, starts, n):
    out = []
    for w in starts:
        for _ in range(n):
            w = step(w)
        out.append(w)
    return out


def gradient_descent_contraction(kw, env):
    """x_{t+1} = x_t - gamma grad f(x_t) run n steps from x_0 and from y_0;  ||x_n - y_n||^2   (||x_0 - y_0||^2 <= 1)"""
    f = env.f[0]
    a, b = _two_runs(lambda z: z - kw["gamma"] * f.grad(z), env.x0[:2], kw["n"])
    return sq(a - b)


def gradient_descent_non_convex(kw, env):
    """x_{t+1} = x_t - gamma grad f(x_t), t < n;  min_{t <= n} ||grad f(x_t)||^2   (f(x_0) - f(x_n) <= 1)"""
    f = env.f[0]
    x = env.x0[0]
    norms = [sq(f.grad(x))]
    for _ in range(kw["n"]):
        x = x - kw["gamma"] * f.grad(x)
        norms.append(sq(f.grad(x)))
    return min(norms)


def gradient_descent_qg_convex(kw, env):
    """x_{t+1} = x_t - gamma grad f(x_t), n steps, f convex QG+;  f(x_n) - f_*   (||x_0 - x_*||^2 <= 1)"""
    return gradient_descent(kw, env)


def gradient_descent_qg_convex_decreasing(kw, env):
    """u_0 = 1, u_t = u_{t-1}/2 + sqrt((u_{t-1}/2)^2 + 2);  x_{t+1} = x_t - grad f(x_t) / (L u_{t+1}), t < n;
    f(x_n) - f_*   (||x_0 - x_*||^2 <= 1)"""
    f = env.f[0]
    u = [1.0]
    for t in range(1, kw["n"] + 1):
        u.append(u[t - 1] / 2 + np.sqrt((u[t - 1] / 2) ** 2 + 2))
    x = env.x0[0]
    for t in range(kw["n"]):
        x = x - f.grad(x) / (kw["L"] * u[t + 1])
    return f.value(x) - f.value(env.xs)


def gradient_descent_quadratics(kw, env):
    """x_{t+1} = x_t - gamma grad f(x_t), n steps, f = x^T Q x / 2;  f(x_n) - f_*   (||x_0 - x_*||^2 <= 1)"""
    return gradient_descent(kw, env)


def _two_adic_valuation(i):
    v = 0
    while i % 2 == 0:
        i //= 2
        v += 1
    return v


def gradient_descent_silver_stepsize_convex(kw, env):
    """silver schedule of Altschuler-Parrilo II: gamma_t = (1 + rho^(nu(t+1) - 1)) / L, rho = 1 + sqrt 2, nu = 2-adic valuation;
    x_{t+1} = x_t - gamma_t grad f(x_t) for the largest n' = 2^k - 1 <= n steps;  f(x_n') - f_*   (||x_0 - x_*||^2 <= 1)"""
    f = env.f[0]
    n = 1
    while 2 * n + 1 <= kw["n"]:
        n = 2 * n + 1
    if kw["n"] < 1:
        n = 0
    rho = 1 + np.sqrt(2.0)
    x = env.x0[0]
    for t in range(n):
        x = x - (1 + rho ** (_two_adic_valuation(t + 1) - 1)) / kw["L"] * f.grad(x)
    return f.value(x) - f.value(env.xs)


def _silver_strongly_convex(k, kappa):
    """normalised silver steps (Altschuler-Parrilo I) of length 2^k and the last z: h^(1) = [psi(1/kappa)],
    h^(2m) = [h~^(m), psi(y_2m), h~^(m), psi(z_2m)] with h~ = h without its last entry, psi(t) = (1 + kappa t) / (1 + t),
    z_1 = 1/kappa, eta = 1 - z_m, y_2m = z_m / (eta + sqrt(1 + eta^2)), z_2m = z_m (eta + sqrt(1 + eta^2))"""
    psi = lambda t: (1 + kappa * t) / (1 + t)
    z = 1.0 / kappa
    h = [psi(z)]
    for _ in range(k):
        eta = 1 - z
        r = eta + np.sqrt(1 + eta ** 2)
        y, z = z / r, z * r
        h = h[:-1] + [psi(y)] + h[:-1] + [psi(z)]
    return h


def gradient_descent_silver_stepsize_strongly_convex(kw, env):
    """x_{t+1} = x_t - h_t / L grad f(x_t) with the silver schedule of Altschuler-Parrilo I (n = sum of powers of 2: the
    schedules of these lengths one after the other, shortest first);  ||x_n - x_*||^2   (||x_0 - x_*||^2 <= 1)"""
    f = env.f[0]
    n, L = kw["n"], kw["L"]
    h = []
    k = 0
    while (1 << k) <= n:
        if n & (1 << k):
            h += _silver_strongly_convex(k, L / kw["mu"])
        k += 1
    assert len(h) == n
    x = env.x0[0]
    for t in range(n):
        x = x - h[t] / L * f.grad(x)
    return sq(x - env.xs)


def accelerated_gradient_strongly_convex(kw, env):
    """x_{-1} = x_0;  y_t = x_t + (sqrt L - sqrt mu)/(sqrt L + sqrt mu) (x_t - x_{t-1}),  x_{t+1} = y_t - grad f(y_t) / L, t < n;
    f(x_n) - f_*   (f(x_0) - f_* + mu/2 ||x_0 - x_*||^2 <= 1)"""
    f = env.f[0]
    L, mu = kw["L"], kw["mu"]
    c = (np.sqrt(L) - np.sqrt(mu)) / (np.sqrt(L) + np.sqrt(mu))
    xp = x = env.x0[0]
    for _ in range(kw["n"]):
        y = x + c * (x - xp)
        xp, x = x, y - f.grad(y) / L
    return f.value(x) - f.value(env.xs)


def inexact_gradient_descent(kw, env):
    """x_{t+1} = x_t - gamma d_t with ||d_t - grad f(x_t)|| <= eps ||grad f(x_t)||, gamma = 2 / ((1+eps) L + (1-eps) mu), t < n;
    f(x_n) - f_*   (f(x_0) - f_* <= 1)"""
    f = env.f[0]
    L, mu, eps = kw["L"], kw["mu"], kw["epsilon"]
    gamma = 2 / ((1 + eps) * L + (1 - eps) * mu)
    x = env.x0[0]
    for t in range(kw["n"]):
        x = x - gamma * env.relative_direction(t, f.grad(x), eps)
    return f.value(x) - f.value(env.xs)


def inexact_accelerated_gradient(kw, env):
    """x_{t+1} = y_t - d_t / L with ||d_t - grad f(y_t)|| <= eps ||grad f(y_t)||,  y_{t+1} = x_{t+1} + (t-1)/(t+2) (x_{t+1} - x_t),
    x_1 the first iterate (t = 1 .. n), y_1 = x_0;  f(x_{n+1}) - f_*   (||x_0 - x_*||^2 <= 1)"""
    f = env.f[0]
    L, eps = kw["L"], kw["epsilon"]
    y = x = env.x0[0]
    for t in range(1, kw["n"] + 1):
        xn = y - env.relative_direction(t - 1, f.grad(y), eps) / L
        y = xn + (t - 1) / (t + 2) * (xn - x)
        x = xn
    return f.value(x) - f.value(env.xs)


def alternate_projections(kw, env):
    """y_{t+1} = Proj_Q1(x_t), x_{t+1} = Proj_Q2(y_{t+1}), t < n;  ||Proj_Q1(x_n) - Proj_Q2(x_n)||^2   (||x_0 - x_*||^2 <= 1)"""
    q1, q2 = env.f[0], env.f[1]
    x = env.x0[0]
    for _ in range(kw["n"]):
        x = q2.prox(q1.prox(x, 1.0), 1.0)
    return sq(q1.prox(x, 1.0) - q2.prox(x, 1.0))


def averaged_projections(kw, env):
    """x_{t+1} = (Proj_Q1(x_t) + Proj_Q2(x_t)) / 2, t < n;  ||Proj_Q1(x_n) - Proj_Q2(x_n)||^2   (||x_0 - x_*||^2 <= 1)"""
    q1, q2 = env.f[0], env.f[1]
    x = env.x0[0]
    for _ in range(kw["n"]):
        x = 0.5 * (q1.prox(x, 1.0) + q2.prox(x, 1.0))
    return sq(q1.prox(x, 1.0) - q2.prox(x, 1.0))


def dykstra(kw, env):
    """p_0 = q_0 = 0;  y_t = Proj_Q1(x_t + p_t), p_{t+1} = x_t + p_t - y_t, x_{t+1} = Proj_Q2(y_t + q_t), q_{t+1} = y_t + q_t - x_{t+1};
    ||Proj_Q1(x_n) - Proj_Q2(x_n)||^2   (||x_0 - x_*||^2 <= 1)"""
    q1, q2 = env.f[0], env.f[1]
    x = env.x0[0]
    p = np.zeros_like(x)
    q = np.zeros_like(x)
    for _ in range(kw["n"]):
        y = q1.prox(x + p, 1.0)
        p = x + p - y
        xn = q2.prox(y + q, 1.0)
        q = y + q - xn
        x = xn
    return sq(q1.prox(x, 1.0) - q2.prox(x, 1.0))


def heavy_ball_momentum(kw, env):
    """x_{-1} = x_0;  x_{t+1} = x_t - alpha grad f(x_t) + beta (x_t - x_{t-1}), t < n;  f(x_n) - f_*   (f(x_0) - f_* <= 1)"""
    f = env.f[0]
    xp = x = env.x0[0]
    for _ in range(kw["n"]):
        xp, x = x, x - kw["alpha"] * f.grad(x) + kw["beta"] * (x - xp)
    return f.value(x) - f.value(env.xs)


def heavy_ball_momentum_qg_convex(kw, env):
    """x_{-1} = x_0;  x_{t+1} = x_t - grad f(x_t) / (L (t + 2)) + t / (t + 2) (x_t - x_{t-1}), t < n;
    f(x_n) - f_*   (||x_0 - x_*||^2 <= 1)"""
    f = env.f[0]
    xp = x = env.x0[0]
    for t in range(kw["n"]):
        xp, x = x, x - f.grad(x) / (kw["L"] * (t + 2)) + t / (t + 2.0) * (x - xp)
    return f.value(x) - f.value(env.xs)


def optimized_gradient_for_gradient(kw, env):
    """th_n = 1, th_t = (1 + sqrt(4 th_{t+1}^2 + 1)) / 2 (0 < t < n), th_0 = (1 + sqrt(8 th_1^2 + 1)) / 2;  y_0 = x_0;
    y_{t+1} = x_t - grad f(x_t) / L,
    x_{t+1} = y_{t+1} + (th_t - 1)(2 th_{t+1} - 1) / (th_t (2 th_t - 1)) (y_{t+1} - y_t) + (2 th_{t+1} - 1)/(2 th_t - 1) (y_{t+1} - x_t);
    ||grad f(x_n)||^2   (f(x_0) - f_* <= 1)"""
    f = env.f[0]
    n = kw["n"]
    th = [None] * (n + 1)
    th[n] = 1.0
    for t in range(n - 1, 0, -1):
        th[t] = (1 + np.sqrt(4 * th[t + 1] ** 2 + 1)) / 2
    if n >= 1:
        th[0] = (1 + np.sqrt(8 * th[1] ** 2 + 1)) / 2
    x = y = env.x0[0]
    for t in range(n):
        yn = x - f.grad(x) / kw["L"]
        x = (yn + (th[t] - 1) * (2 * th[t + 1] - 1) / (th[t] * (2 * th[t] - 1)) * (yn - y)
             + (2 * th[t + 1] - 1) / (2 * th[t] - 1) * (yn - x))
        y = yn
    return sq(f.grad(x))


def proximal_point(kw, env):
    """x_{t+1} = argmin_x f(x) + ||x - x_t||^2 / (2 gamma), t < n;  f(x_n) - f_*   (||x_0 - x_*||^2 <= 1)"""
    f = env.f[0]
    x = env.x0[0]
    for _ in range(kw["n"]):
        x = f.prox(x, kw["gamma"])
    return f.value(x) - f.value(env.xs)


def proximal_gradient(kw, env):
    """y_t = x_t - gamma grad f1(x_t),  x_{t+1} = prox_{gamma f2}(y_t), t < n;  ||x_n - x_*||^2   (||x_0 - x_*||^2 <= 1),
    x_* a minimiser of f1 + f2"""
    f1, f2 = env.f[0], env.f[1]
    x = env.x0[0]
    for _ in range(kw["n"]):
        x = f2.prox(x - kw["gamma"] * f1.grad(x), kw["gamma"])
    return sq(x - env.xs)


def proximal_gradient_quadratics(kw, env):
    """y_t = x_t - gamma grad f1(x_t),  x_{t+1} = prox_{gamma f2}(y_t), t < n, f1 quadratic;  ||x_n - x_*||^2   (||x_0 - x_*||^2 <= 1)"""
    return proximal_gradient(kw, env)


def accelerated_proximal_gradient_method(kw, env):
    """y_0 = x_0;  x_{t+1} = prox_{h / L}(y_t - grad f(y_t) / L),  y_{t+1} = x_{t+1} + t / (t + 3) (x_{t+1} - x_t), t < n;
    F(x_n) - F(x_*), F = f + h   (||x_0 - x_*||^2 <= 1)"""
    f, h = env.f[0], env.f[1]
    L = kw["L"]
    x = y = env.x0[0]
    for t in range(kw["n"]):
        xn = h.prox(y - f.grad(y) / L, 1.0 / L)
        y = xn + t / (t + 3.0) * (xn - x)
        x = xn
    F = lambda z: f.value(z) + h.value(z)
    return F(x) - F(env.xs)


def douglas_rachford_splitting(kw, env):
    """w_0 given;  x_t = prox_{alpha f2}(w_t),  y_t = prox_{alpha f1}(2 x_t - w_t),  w_{t+1} = w_t + theta (y_t - x_t), n iterations;
    F(y) - F(x_*) at the y of the n-th iteration, F = f1 + f2   (||x_0 - x_*||^2 <= 1, x_0 = prox_{alpha f2}(w_0))"""
    f1, f2 = env.f[0], env.f[1]
    a = kw["alpha"]
    w = env.x0[0]
    y = None
    for _ in range(kw["n"]):
        x = f2.prox(w, a)
        y = f1.prox(2 * x - w, a)
        w = w + kw["theta"] * (y - x)
    F = lambda z: f1.value(z) + f2.value(z)
    return F(y) - F(env.xs)


def accelerated_douglas_rachford_splitting(kw, env):
    """u_0 = w_0, theta = (1 - alpha L)/(1 + alpha L);  x_t = prox_{alpha f2}(u_t),  y_t = prox_{alpha f1}(2 x_t - u_t),
    w_{t+1} = u_t + theta (y_t - x_t),  u_{t+1} = w_{t+1} + (t - 1)/(t + 2) (w_{t+1} - w_t) if t > 1 else w_{t+1}, n iterations;
    F(y) - F(x_*) at the y of the n-th iteration, F = f1 + f2   (||w_0 - w_*||^2 <= 1, x_* = prox_{alpha f2}(w_*))"""
    f1, f2 = env.f[0], env.f[1]
    a = kw["alpha"]
    th = (1 - a * kw["L"]) / (1 + a * kw["L"])
    u = w = env.x0[0]
    y = None
    for t in range(kw["n"]):
        x = f2.prox(u, a)
        y = f1.prox(2 * x - u, a)
        wn = u + th * (y - x)
        u = wn + (t - 1) / (t + 2.0) * (wn - w) if t > 1 else wn
        w = wn
    F = lambda z: f1.value(z) + f2.value(z)
    return F(y) - F(env.xs)


def three_operator_splitting(kw, env):
    """from w_0 and from w_0':  x_t = prox_{alpha f2}(w_t),  y_t = prox_{alpha f1}(2 x_t - w_t - alpha grad f3(x_t)),
    w_{t+1} = w_t + theta (y_t - x_t), t < n;  ||w_n - w_n'||^2   (||w_0 - w_0'||^2 <= 1)"""
    f1, f2, f3 = env.f[0], env.f[1], env.f[2]
    a = kw["alpha"]

    def step(w):
        x = f2.prox(w, a)
        y = f1.prox(2 * x - w - a * f3.grad(x), a)
        return w + kw["theta"] * (y - x)
    p, q = _two_runs(step, env.x0[:2], kw["n"])
    return sq(p - q)


def halpern_iteration(kw, env):
    """x_{t+1} = x_0 / (t + 2) + (1 - 1/(t + 2)) A x_t, t < n;  ||x_n - A x_n||^2   (||x_0 - x_*||^2 <= 1, x_* = A x_*)"""
    A = env.f[0]
    x0 = x = env.x0[0]
    for t in range(kw["n"]):
        x = x0 / (t + 2.0) + (1 - 1 / (t + 2.0)) * A.apply(x)
    return sq(x - A.apply(x))


def wc_optimal_contractive_halpern_iteration(kw, env):
    """phi_k = sum_{i <= k} gamma^(2i);  x_{t+1} = (1 - 1/phi_{t+1}) A x_t + x_0 / phi_{t+1}, t < n, A (1/gamma)-Lipschitz;
    ||x_n - A x_n||^2   (||x_0 - x_*||^2 <= 1)"""
    A = env.f[0]
    g = kw["gamma"]
    x0 = x = env.x0[0]
    for t in range(kw["n"]):
        phi = sum(g ** (2 * i) for i in range(t + 2))
        x = (1 - 1 / phi) * A.apply(x) + x0 / phi
    return sq(x - A.apply(x))


def krasnoselskii_mann_constant_step_sizes(kw, env):
    """x_{t+1} = (1 - gamma) x_t + gamma A x_t, t < n;  ||x_n - A x_n||^2 / 4   (||x_0 - x_*||^2 <= 1)"""
    A = env.f[0]
    x = env.x0[0]
    for _ in range(kw["n"]):
        x = (1 - kw["gamma"]) * x + kw["gamma"] * A.apply(x)
    return sq(x - A.apply(x)) / 4


def krasnoselskii_mann_increasing_step_sizes(kw, env):
    """x_{t+1} = x_t / (t + 2) + (1 - 1/(t + 2)) A x_t, t < n;  ||x_n - A x_n||^2 / 4   (||x_0 - x_*||^2 <= 1)"""
    A = env.f[0]
    x = env.x0[0]
    for t in range(kw["n"]):
        x = x / (t + 2.0) + (1 - 1 / (t + 2.0)) * A.apply(x)
    return sq(x - A.apply(x)) / 4


def proximal_point_method_operators(kw, env):
    """x_{t+1} = J_{alpha A}(x_t), t < n;  ||x_n - x_{n-1}||^2   (||x_0 - x_*||^2 <= 1, 0 in A x_*)"""
    A = env.f[0]
    xp = x = env.x0[0]
    for _ in range(kw["n"]):
        xp, x = x, A.resolvent(x, kw["alpha"])
    return sq(x - xp)


def douglas_rachford_splitting_operators(kw, env):
    """one iteration from w and from w':  x = J_{alpha B}(w),  y = J_{alpha A}(2 x - w),  w+ = w - theta (x - y)
    (A Lipschitz monotone, B strongly monotone);  ||w+ - w'+||^2   (||w - w'||^2 <= 1)"""
    A, B = env.f[0], env.f[1]
    a = kw["alpha"]

    def step(w):
        x = B.resolvent(w, a)
        y = A.resolvent(2 * x - w, a)
        return w - kw["theta"] * (x - y)
    p, q = _two_runs(step, env.x0[:2], 1)
    return sq(p - q)


def wc_optimal_strongly_monotone_proximal_point_operators(kw, env):
    """phi_k = sum_{i <= k} (1 + 2 mu)^(2i), phi_{-1} = 0, x_0 = y_0 = y_{-1};  x_{t+1} = J_A y_t,
    y_{t+1} = x_{t+1} + (phi_t - 1)/phi_{t+1} (x_{t+1} - x_t) - 2 mu phi_t/phi_{t+1} (y_t - x_{t+1})
              + (1 + 2 mu) phi_{t-1}/phi_{t+1} (y_{t-1} - x_t), t < n;
    ||y_{n-1} - x_n||^2 (the resolvent residual at x_n)   (||x_0 - x_*||^2 <= 1)"""
    A = env.f[0]
    mu = kw["mu"]
    phi = lambda k: sum((1 + 2 * mu) ** (2 * i) for i in range(k + 1))
    x = y = yp = env.x0[0]
    for t in range(kw["n"]):
        xn = A.resolvent(y, 1.0)
        yn = (xn + (phi(t) - 1) / phi(t + 1) * (xn - x) - 2 * mu * phi(t) / phi(t + 1) * (y - xn)
              + (1 + 2 * mu) * phi(t - 1) / phi(t + 1) * (yp - x))
        x, yp, y = xn, y, yn
    return sq(yp - x)


def subgradient_method(kw, env):
    """x_{t+1} = x_t - gamma g_t, g_t in df(x_t), t < n (only run where f is differentiable along the path);
    min_{0 <= t <= n} f(x_t) - f_*   (||x_0 - x_*||^2 <= 1)"""
    f = env.f[0]
    x = env.x0[0]
    vals = [f.value(x)]
    for _ in range(kw["n"]):
        x = x - kw["gamma"] * f.grad(x)
        vals.append(f.value(x))
    return min(vals) - f.value(env.xs)


def sgd(kw, env):
    """one step x_1 = x_0 - gamma grad f_i(x_0), i uniform in 1..n;  E ||x_1 - x_*||^2 = mean over i
    (||x_0 - x_*||^2 <= R^2, mean_i ||grad f_i(x_*)||^2 <= v^2), x_* the minimiser of mean_i f_i"""
    fs = env.f[:kw["n"]]
    x0 = env.x0[0]
    return float(np.mean([sq(x0 - kw["gamma"] * fi.grad(x0) - env.xs) for fi in fs]))


def saga(kw, env):
    """gamma = 1/(2 (mu n + L)), c = 1/(2 n gamma (1 - mu gamma));  V = mean_i (f_i(phi_i) - f_i(x_*) - <grad f_i(x_*), phi_i - x_*>)
    + c ||x - x_*||^2;  for j uniform: phi_j+ = x,  w = x - gamma (grad f_j(x) - grad f_j(phi_j) + mean_i grad f_i(phi_i)),
    x+ = prox_{gamma h}(w);  E V+ = mean over j   (V <= 1)"""
    n = kw["n"]
    h, fs = env.f[0], env.f[1:n + 1]
    phi, x = env.x0[:n], env.x0[n]
    xs = env.xs
    gamma = 1.0 / (2 * (kw["mu"] * n + kw["L"]))
    c = 1.0 / (2 * n * gamma * (1 - kw["mu"] * gamma))
    breg = lambda i, p: fs[i].value(p) - fs[i].value(xs) - float(np.dot(fs[i].grad(xs), p - xs))
    gbar = sum(fs[i].grad(phi[i]) for i in range(n)) / n
    total = 0.0
    for j in range(n):
        w = x - gamma * (fs[j].grad(x) - fs[j].grad(phi[j]) + gbar)
        xn = h.prox(w, gamma)
        total += c * sq(xn - xs) + sum(breg(i, x if i == j else phi[i]) for i in range(n)) / n
    return total / n


def _vi_start(env, gamma):
    """the examples draw a point p with ||p - x_*||^2 <= 1 and start the method from x_0 = Proj_C(p), which also serves as x~_{-1}"""
    C = env.f[0]
    return C.prox(env.x0[0], gamma)


def past_extragradient(kw, env):
    """x~_{-1} = x_0 in C;  x~_t = Proj_C[x_t - gamma F(x~_{t-1})],  x_{t+1} = Proj_C[x_t - gamma F(x~_t)], t < n;
    ||x_n - x_{n-1}||^2   (x_0 = Proj_C(p), ||p - x_*||^2 <= 1)"""
    C, F = env.f[0], env.f[1]
    g = kw["gamma"]
    xp = x = xt = _vi_start(env, g)
    for _ in range(kw["n"]):
        xt = C.prox(x - g * F.apply(xt), g)
        xp, x = x, C.prox(x - g * F.apply(xt), g)
    return sq(x - xp)


def optimistic_gradient(kw, env):
    """x~_{-1} = x_0 in C;  x~_t = Proj_C[x_t - gamma F(x~_{t-1})],  x_{t+1} = x~_t + gamma (F(x~_{t-1}) - F(x~_t)), t < n;
    ||x~ - x~_previous||^2 at the x~ of the n-th iteration (the docstring writes x~_n, x~_{n-1})   (x_0 = Proj_C(p), ||p - x_*||^2 <= 1)"""
    C, F = env.f[0], env.f[1]
    g = kw["gamma"]
    x = xt = xtp = _vi_start(env, g)
    for _ in range(kw["n"]):
        xtp, xt = xt, C.prox(x - g * F.apply(xt), g)
        x = xt + g * (F.apply(xtp) - F.apply(xt))
    return sq(xt - xtp)


# ---- documented readings that the example bodies do NOT follow on the unmodified tree (not registered, see DOCUMENTED_ONLY) ----
def accelerated_gradient_convex(kw, env):
    """y_0 = x_0;  x_{t+1} = y_t - grad f(y_t) / L,  y_{t+1} = x_{t+1} + (t - 1)/(t + 2) (x_{t+1} - x_t), t < n;
    f(x_n) - f_*   (||x_0 - x_*||^2 <= 1)        [the body uses t/(t + 3)]"""
    f = env.f[0]
    x = y = env.x0[0]
    for t in range(kw["n"]):
        xn = y - f.grad(y) / kw["L"]
        y = xn + (t - 1) / (t + 2.0) * (xn - x)
        x = xn
    return f.value(x) - f.value(env.xs)


def triple_momentum(kw, env):
    """rho = 1 - sqrt(mu/L), (alpha, beta, gamma, delta) = ((1 + rho)/L, rho^2/(2 - rho), rho^2/((1 + rho)(2 - rho)), rho^2/(1 - rho^2)),
    xi_0 = xi_1 = x_0;  for t = 1..n:  y_t = (1 + gamma) xi_t - gamma xi_{t-1},  xi_{t+1} = (1 + beta) xi_t - beta xi_{t-1} - alpha grad f(y_t),
    x_t = (1 + delta) xi_t - delta xi_{t-1};  f(x_n) - f_*   (||x_0 - x_*||^2 <= 1)        [the body returns f(x_{n+1}) - f_*]"""
    f = env.f[0]
    L = kw["L"]
    rho = 1 - np.sqrt(kw["mu"] / L)
    al, be, ga, de = (1 + rho) / L, rho ** 2 / (2 - rho), rho ** 2 / ((1 + rho) * (2 - rho)), rho ** 2 / (1 - rho ** 2)
    xi = [env.x0[0], env.x0[0]]
    for t in range(1, kw["n"] + 1):
        y = (1 + ga) * xi[t] - ga * xi[t - 1]
        xi.append((1 + be) * xi[t] - be * xi[t - 1] - al * f.grad(y))
    n = kw["n"]
    x = (1 + de) * xi[n] - de * xi[n - 1] if n >= 1 else env.x0[0]
    return f.value(x) - f.value(env.xs)


def optimized_gradient(kw, env):
    """th_0 = 1, th_t = (1 + sqrt(4 th_{t-1}^2 + 1))/2 (t < n), th_n = (1 + sqrt(8 th_{n-1}^2 + 1))/2, y_0 = x_0;
    x_{t+1} = y_t - grad f(y_t) / L,  y_{t+1} = x_{t+1} + (th_t - 1)/th_{t+1} (x_{t+1} - x_t) + th_t/th_{t+1} (x_{t+1} - y_t), t < n;
    f(x_n) - f_*   (||x_0 - x_*||^2 <= 1)        [the body returns f(y_n) - f_*]"""
    f = env.f[0]
    n = kw["n"]
    th = [1.0]
    for t in range(1, n + 1):
        th.append((1 + np.sqrt((4 if t < n else 8) * th[t - 1] ** 2 + 1)) / 2)
    x = y = env.x0[0]
    for t in range(n):
        xn = y - f.grad(y) / kw["L"]
        y = xn + (th[t] - 1) / th[t + 1] * (xn - x) + th[t] / th[t + 1] * (xn - y)
        x = xn
    return f.value(x) - f.value(env.xs)


def accelerated_proximal_point_operators(kw, env):
    """x_0 = y_0 = y_{-1};  x_{t+1} = J_{alpha A}(y_t),  y_{t+1} = x_{t+1} + t/(t + 2) (x_{t+1} - x_t) - t/(t + 1) (x_t - y_{t-1}), t < n;
    ||x_n - y_{n-1}||^2 (the quantity of the documented bound)   (||x_0 - x_*||^2 <= 1)        [the body uses t/(t + 2) twice]"""
    A = env.f[0]
    x = y = yp = env.x0[0]
    for t in range(kw["n"]):
        xn = A.resolvent(y, kw["alpha"])
        yn = xn + t / (t + 2.0) * (xn - x) - t / (t + 1.0) * (x - yp)
        x, yp, y = xn, y, yn
    return sq(x - yp)


def three_operator_splitting_operators(kw, env):
    """one iteration from w and from w':  x = J_{alpha B}(w),  y = J_{alpha A}(2 x - w - C x),  w+ = w - theta (x - y);
    ||w+ - w'+||^2   (||w - w'||^2 <= 1)        [the body uses alpha C x]"""
    A, B, C = env.f[0], env.f[1], env.f[2]
    a = kw["alpha"]

    def step(w):
        x = B.resolvent(w, a)
        y = A.resolvent(2 * x - w - C.grad(x), a)
        return w - kw["theta"] * (x - y)
    p, q = _two_runs(step, env.x0[:2], 1)
    return sq(p - q)


def point_saga(kw, env):
    """gamma = sqrt((n - 1)^2 + 4 n L/mu)/(2 L n) - (1 - 1/n)/(2 L);  V(x) = mean_i ||grad f_i(x) - grad f_i(x_*)||^2 / (L mu) + ||x - x_*||^2;
    for j uniform:  z = x + gamma (g_j - mean_i g_i),  x+ = prox_{gamma f_j}(z);  E V(x+) = mean over j   (V(x) <= 1)
    [the body's Lyapunov function uses the table g_i, with g_j+ = (z - x+)/gamma, in place of grad f_i(x)]"""
    n = kw["n"]
    fs, g, x, xs = env.f[:n], env.x0[:n], env.x0[n], env.xs
    gamma = np.sqrt((n - 1) ** 2 + 4.0 * n * kw["L"] / kw["mu"]) / (2 * kw["L"] * n) - (1 - 1.0 / n) / (2 * kw["L"])
    V = lambda z: sum(sq(fi.grad(z) - fi.grad(xs)) for fi in fs) / (n * kw["L"] * kw["mu"]) + sq(z - xs)
    gbar = sum(g) / n
    return sum(V(fs[j].prox(x + gamma * (g[j] - gbar), gamma)) for j in range(n)) / n


# name -> reading of the docstring that the selftest shows the body does not follow (kept for the record, never compared)
DOCUMENTED_ONLY = {
    "accelerated_gradient_convex": accelerated_gradient_convex,
    "triple_momentum": triple_momentum,
    "optimized_gradient": optimized_gradient,
    "accelerated_proximal_point_operators": accelerated_proximal_point_operators,
    "three_operator_splitting_operators": three_operator_splitting_operators,
    "point_saga": point_saga,
    "subgradient_method": subgradient_method,     # agrees by construction but the harness offers no differentiable Lipschitz member: 0 runs
}


METHODS = {
    "gradient_descent": gradient_descent,
    "douglas_rachford_splitting_contraction": douglas_rachford_splitting_contraction,
    "accelerated_proximal_point": accelerated_proximal_point,
    "gradient_descent_contraction": gradient_descent_contraction,
    "gradient_descent_non_convex": gradient_descent_non_convex,
    "gradient_descent_qg_convex": gradient_descent_qg_convex,
    "gradient_descent_qg_convex_decreasing": gradient_descent_qg_convex_decreasing,
    "gradient_descent_quadratics": gradient_descent_quadratics,
    "gradient_descent_silver_stepsize_convex": gradient_descent_silver_stepsize_convex,
    "gradient_descent_silver_stepsize_strongly_convex": gradient_descent_silver_stepsize_strongly_convex,
    "accelerated_gradient_strongly_convex": accelerated_gradient_strongly_convex,
    "heavy_ball_momentum": heavy_ball_momentum,
    "alternate_projections_low_dim": alternate_projections,
    "averaged_projections_low_dim": averaged_projections,
    "dykstra_low_dim": dykstra,
    "inexact_gradient_descent": inexact_gradient_descent,
    "inexact_accelerated_gradient_1": inexact_accelerated_gradient,
    "inexact_accelerated_gradient_2": inexact_accelerated_gradient,
    "inexact_accelerated_gradient_3": inexact_accelerated_gradient,
    "heavy_ball_momentum_qg_convex": heavy_ball_momentum_qg_convex,
    "optimized_gradient_for_gradient": optimized_gradient_for_gradient,
    "proximal_point": proximal_point,
    "proximal_gradient": proximal_gradient,
    "proximal_gradient_quadratics": proximal_gradient_quadratics,
    "accelerated_proximal_gradient_method": accelerated_proximal_gradient_method,
    "douglas_rachford_splitting": douglas_rachford_splitting,
    "accelerated_douglas_rachford_splitting": accelerated_douglas_rachford_splitting,
    "three_operator_splitting": three_operator_splitting,
    "halpern_iteration": halpern_iteration,
    "wc_optimal_contractive_halpern_iteration": wc_optimal_contractive_halpern_iteration,
    "krasnoselskii_mann_constant_step_sizes": krasnoselskii_mann_constant_step_sizes,
    "krasnoselskii_mann_increasing_step_sizes": krasnoselskii_mann_increasing_step_sizes,
    "proximal_point_method_operators": proximal_point_method_operators,
    "douglas_rachford_splitting_operators": douglas_rachford_splitting_operators,
    "wc_optimal_strongly_monotone_proximal_point_operators": wc_optimal_strongly_monotone_proximal_point_operators,
    "past_extragradient": past_extragradient,
    "optimistic_gradient": optimistic_gradient,
    "sgd": sgd,
    "saga": saga,
}


def compare(name, kw, member_seed, dir_seed, dim, adversary=None):
    """Run the example numerically and its transcription on the same function / start.
    Returns (perf_example, perf_transcription) or raises what the numeric side raises (Unsupported, InvalidRun, NotSingleValued)."""
    from pv import numeric
    from pv.ref import examples_table as ET
    e = ET.BY_NAME[name]
    r = numeric.run_numeric(e["module"], e["func"], kw, member_seed, dir_seed, dim, adversary=adversary)
    env = Env(r["env"])
    return r["perf"], float(METHODS[name](kw, env)), r


def selftest(names=None, n=6):
    import random
    import warnings
    from pv.ref import examples_table as ET
    from pv.ref import hard
    from pv.ref.draws import generic_draws
    warnings.simplefilter("ignore")
    bad = 0
    for name in (names or sorted(METHODS)):
        e = ET.BY_NAME[name]
        rng = random.Random("methods/" + name)
        cs = hard.corners(rng, 24)
        ok = tried = 0
        worst = 0.0
        for kw in [dict(e["base"])] + generic_draws(e, 0, 3, tag="methods"):
            for k in range(n):
                th = {i: cs[(k * 3 + i) % len(cs)] for i in range(4)}
                adv = {"thetas": th, "smooth_only": True}
                try:
                    a, b, _r = compare(name, kw, "mt%d" % k, "md%d" % k, 1 + k % 3, adversary=adv)
                except Exception as ex:
                    continue
                tried += 1
                d = abs(a - b) / (1.0 + abs(a))
                worst = max(worst, d)
                if d <= 1e-7:
                    ok += 1
                else:
                    print("   MISMATCH %s %r: example %.12g transcription %.12g" % (name, kw, a, b))
        print("%-45s %d/%d equal (worst relative difference %.2e)" % (name, ok, tried, worst))
        if tried == 0 or ok < tried:
            bad += 1
    return bad


if __name__ == "__main__":
    import sys
    sys.exit(1 if selftest(sys.argv[1:] or None) else 0)
