"""Independent transcriptions of the methods the shipped examples DOCUMENT (the algorithm written in each example's
docstring, not the loop in its body), run on real functions.

C09 runs the example's own code numerically (pv/numeric.py).  That is blind to an example whose body models something
else than what its docstring says (a lost parenthesis, a loop over the wrong range): both sides would execute the same
wrong code.  For the examples listed in METHODS the documented method is therefore transcribed a second time here, by
hand, from the docstring; on the same real function and the same starting point the two must produce the same performance
(they are two executions of one deterministic method), and the transcription's performance must not exceed the bound.

Interface of a transcription:   fn(kw, env) -> float
    kw   the example's keyword arguments
    env  Env built from a numeric run of the example:
           env.f[i]      oracle of the i-th function DECLARED by the example (in declaration order):
                           .grad(x) / .apply(x)   gradient / operator value (single-valued members only)
                           .value(x)              function value
                           .prox(x, gamma)        exact proximal operator / resolvent  (I + gamma A)^-1 x
           env.x0[k]     k-th starting point (numpy vector), in the order of the example's set_initial_point() calls
           env.xs        the optimal / stationary / fixed point the example declares first (numpy vector) or None
           env.special   all such points in call order: list of ("stationary" | "fixed", vector)
    returns the performance measure documented for the example (same normalisation as its initial condition).
"""
import numpy as np


class Oracle(object):
    def __init__(self, nfunc):
        self._f = nfunc
        self.member = nfunc.member

    def grad(self, x):
        if self.member.multivalued:
            raise NotSingleValued()
        return np.asarray(self.member.grad(np.asarray(x, dtype=float)), dtype=float)

    apply = grad

    def value(self, x):
        return float(self.member.value(np.asarray(x, dtype=float)))

    def prox(self, x, gamma):
        from pv import numeric
        return np.asarray(numeric._prox(self._f, np.asarray(x, dtype=float), float(gamma)), dtype=float)

    resolvent = prox


class NotSingleValued(Exception):
    pass


class Env(object):
    def __init__(self, env):
        self.f = [Oracle(f) for f in env["functions"]]
        self.x0 = [np.asarray(x, dtype=float) for x in env["x0"]]
        self.special = [(k, np.asarray(v, dtype=float)) for (k, _f, v) in env["special"]]
        self.xs = self.special[0][1] if self.special else None
        self.dim = env["dim"]


def sq(v):
    return float(np.dot(v, v))


# ---- transcriptions (from the docstrings) --------------------------------------------------------------------------------
def gradient_descent(kw, env):
    """x_{t+1} = x_t - gamma grad f(x_t), n steps; f(x_n) - f_*   (||x_0 - x_*||^2 <= 1)"""
    f = env.f[0]
    x = env.x0[0]
    for _ in range(kw["n"]):
        x = x - kw["gamma"] * f.grad(x)
    return f.value(x) - f.value(env.xs)


def douglas_rachford_splitting_contraction(kw, env):
    """two sequences from w_0, w_0':  x_t = prox_{alpha f2}(w_t), y_t = prox_{alpha f1}(2 x_t - w_t),
    w_{t+1} = w_t + theta (y_t - x_t);  ||w_n - w_n'||^2   (||w_0 - w_0'||^2 <= 1)"""
    f1, f2 = env.f[0], env.f[1]
    a, th = kw["alpha"], kw["theta"]
    out = []
    for w in (env.x0[0], env.x0[1]):
        for _ in range(kw["n"]):
            x = f2.prox(w, a)
            y = f1.prox(2 * x - w, a)
            w = w + th * (y - x)
        out.append(w)
    return sq(out[0] - out[1])


def accelerated_proximal_point(kw, env):
    """A_0, x_0 = v_0;  for i < n:  alpha_i = (sqrt((A_i g_i)^2 + 4 A_i g_i) - A_i g_i) / 2,  y = (1 - alpha_i) x_i + alpha_i v_i,
    x_{i+1} = prox_{g_i f}(y),  v_{i+1} = v_i + (x_{i+1} - y) / alpha_i,  A_{i+1} = (1 - alpha_i) A_i;
    f(x_n) - f_*   (f(x_0) - f_* + A_0/2 ||x_0 - x_*||^2 <= 1)"""
    f = env.f[0]
    A = kw["A0"]
    x = v = env.x0[0]
    for i in range(kw["n"]):
        g = kw["gammas"][i]
        al = (np.sqrt((A * g) ** 2 + 4 * A * g) - A * g) / 2
        y = (1 - al) * x + al * v
        xn = f.prox(y, g)
        v = v + (xn - y) / al
        A = (1 - al) * A
        x = xn
    return f.value(x) - f.value(env.xs)


METHODS = {
    "gradient_descent": gradient_descent,
    "douglas_rachford_splitting_contraction": douglas_rachford_splitting_contraction,
    "accelerated_proximal_point": accelerated_proximal_point,
}


def compare(name, kw, member_seed, dir_seed, dim, adversary=None):
    """Run the example numerically and its transcription on the same function / start.
    Returns (perf_example, perf_transcription) or raises what the numeric side raises (Unsupported, InvalidRun, NotSingleValued)."""
    from pv import numeric
    from pv.ref import examples_table as ET
    e = ET.BY_NAME[name]
    r = numeric.run_numeric(e["module"], e["func"], kw, member_seed, dir_seed, dim, adversary=adversary)
    env = Env(r["env"])
    return r["perf"], float(METHODS[name](kw, env)), r


def selftest(names=None, n=6):
    import random
    import warnings
    from pv.ref import examples_table as ET
    from pv.ref import hard
    from pv.ref.draws import generic_draws
    warnings.simplefilter("ignore")
    bad = 0
    for name in (names or sorted(METHODS)):
        e = ET.BY_NAME[name]
        rng = random.Random("methods/" + name)
        cs = hard.corners(rng, 24)
        ok = tried = 0
        worst = 0.0
        for kw in [dict(e["base"])] + generic_draws(e, 0, 3, tag="methods"):
            for k in range(n):
                th = {i: cs[(k * 3 + i) % len(cs)] for i in range(4)}
                adv = {"thetas": th, "smooth_only": True}
                try:
                    a, b, _r = compare(name, kw, "mt%d" % k, "md%d" % k, 1 + k % 3, adversary=adv)
                except Exception as ex:
                    continue
                tried += 1
                d = abs(a - b) / (1.0 + abs(a))
                worst = max(worst, d)
                if d <= 1e-7:
                    ok += 1
                else:
                    print("   MISMATCH %s %r: example %.12g transcription %.12g" % (name, kw, a, b))
        print("%-45s %d/%d equal (worst relative difference %.2e)" % (name, ok, tried, worst))
        if tried == 0 or ok < tried:
            bad += 1
    return bad


if __name__ == "__main__":
    import sys
    sys.exit(1 if selftest(sys.argv[1:] or None) else 0)
