"""Real members of the 24 shipped classes in R^d, with exact values and (sub)gradients and certified parameters.

Every member carries a self_test(rng) that checks the DEFINING property of its class on random pairs (not PEPit's
interpolation conditions), so that a wrong member is caught as a harness bug, never reported as a PEPit violation.

Interface
  m.cls, m.params (declared parameters), m.dim
  m.value(x) -> float           (functions; operators return 0.0)
  m.grad(x, rng=None) -> vec    a (sub)gradient / an element of the operator at x (random admissible selection if rng)
  m.domain_point(rng, scale)    a point where the member may be evaluated (indicators: inside the set)
  m.stationary()                x with 0 in the (sub)differential / operator, or None
  m.fixed_point()               x with x in A(x), or None
  m.prox(x, gamma)              resolvent (I + gamma A)^(-1) x  (closed form or linear solve), or None
"""
import math

import numpy as np

INF = float("inf")


def _rand_orth(rng, d):
    A = np.array([[rng.gauss(0, 1) for _ in range(d)] for _ in range(d)])
    Q, R = np.linalg.qr(A)
    return Q * np.sign(np.diag(R))


def _rand_vec(rng, d, scale=1.0):
    return np.array([rng.gauss(0, 1) for _ in range(d)]) * scale


def _sym_with_spectrum(rng, d, lo, hi, extremes=True):
    ev = [rng.uniform(lo, hi) for _ in range(d)]
    if extremes and d >= 1:
        ev[0] = lo if rng.random() < 0.7 else ev[0]
    if extremes and d >= 2:
        ev[1] = hi if rng.random() < 0.7 else ev[1]
    Q = _rand_orth(rng, d)
    return (Q * np.array(ev)) @ Q.T


def _skew(rng, d, norm):
    A = np.array([[rng.gauss(0, 1) for _ in range(d)] for _ in range(d)])
    K = A - A.T
    s = np.linalg.norm(K, 2)
    if s == 0:
        return K
    return K * (norm / s)


class Member(object):
    cls = None
    kind = "function"
    multivalued = False
    restricted_domain = False     # True when the member may only be evaluated on a set (indicators)

    def __init__(self, params, dim):
        self.params = params
        self.dim = dim

    def value(self, x):
        return 0.0

    def grad(self, x, rng=None):
        raise NotImplementedError

    def domain_point(self, rng, scale=1.0):
        return _rand_vec(rng, self.dim, scale)

    def stationary(self):
        return None

    def fixed_point(self):
        return None

    def prox(self, x, gamma):
        return None

    def self_test(self, rng, n=12):
        return True, ""

    def describe(self):
        return "%s(%s) in R^%d" % (type(self).__name__, self.cls, self.dim)


# ---- functions -----------------------------------------------------------------------------------------------
class Quadratic(Member):
    """f(x) = 1/2 (x-c)'Q(x-c) + b0 ; Q symmetric."""

    def __init__(self, cls, params, Q, c, b0=0.0):
        super().__init__(params, Q.shape[0])
        self.cls = cls
        self.Q, self.c, self.b0 = Q, c, b0

    def value(self, x):
        d = x - self.c
        return 0.5 * float(d @ self.Q @ d) + self.b0

    def grad(self, x, rng=None):
        return self.Q @ (x - self.c)

    def stationary(self):
        return self.c.copy()

    def prox(self, x, gamma):
        B = np.eye(self.dim) + gamma * self.Q
        if np.linalg.eigvalsh((B + B.T) / 2).min() < 1e-3:
            return None        # the proximal subproblem is not strongly convex (non-convex member)
        return np.linalg.solve(B, x + gamma * self.Q @ self.c)

    def spectrum(self):
        return np.linalg.eigvalsh((self.Q + self.Q.T) / 2)

    def self_test(self, rng, n=12):
        ev = self.spectrum()
        p = self.params
        if self.cls == "BlockSmoothConvexFunction":
            ok = ev.min() >= -1e-9
            for k, b in enumerate(self.blocks):
                if np.linalg.eigvalsh(self.Q[np.ix_(b, b)]).max() > p["L"][k] * (1 + 1e-9):
                    ok = False
            return ok, "block constants"
        lo = p.get("mu", 0.0)
        hi = p.get("L", INF)
        if self.cls in ("SmoothConvexFunction", "ConvexFunction", "ConvexQGFunction"):
            lo = 0.0
        if self.cls == "SmoothFunction":
            lo = -p["L"]
        if self.cls in ("StronglyConvexFunction", "ConvexFunction"):
            hi = INF
        ok = ev.min() >= lo - 1e-9 * (1 + abs(lo)) and ev.max() <= hi + 1e-9 * (1 + abs(hi) if hi < INF else 1)
        return ok, "spectrum [%.4g, %.4g] vs [%.4g, %.4g]" % (ev.min(), ev.max(), lo, hi)


class LinearFunction(Member):
    """f(x) = a.x + b0 : convex, L-smooth for every L >= 0, ||a||-Lipschitz; no minimiser unless a = 0."""

    def __init__(self, cls, params, a, b0=0.0):
        super().__init__(params, len(a))
        self.cls = cls
        self.a, self.b0 = np.asarray(a, dtype=float), b0

    def value(self, x):
        return float(self.a @ x) + self.b0

    def grad(self, x, rng=None):
        return self.a.copy()

    def stationary(self):
        return np.zeros(self.dim) if not np.any(self.a) else None

    def prox(self, x, gamma):
        return x - gamma * self.a

    def self_test(self, rng, n=12):
        ok = self.cls in ("ConvexFunction", "SmoothConvexFunction", "ConvexLipschitzFunction", "SmoothConvexLipschitzFunction")
        if "M" in self.params and self.params["M"] < INF:
            ok = ok and np.linalg.norm(self.a) <= self.params["M"] * (1 + 1e-9)
        return ok, "linear, ||a||=%.4g vs %r" % (np.linalg.norm(self.a), self.params)


class Huber(Member):
    """f(x) = sum_k huber_delta(a_k.x - b_k) * w ; L = w*||A'A||, M = w*delta*sum||a_k|| (Lipschitz bound)."""

    def __init__(self, cls, params, A, b, delta, w):
        super().__init__(params, A.shape[1])
        self.cls = cls
        self.A, self.b, self.delta, self.w = A, b, delta, w

    def _h(self, t):
        a = np.abs(t)
        return np.where(a <= self.delta, 0.5 * t * t, self.delta * (a - 0.5 * self.delta))

    def value(self, x):
        return float(self.w * np.sum(self._h(self.A @ x - self.b)))

    def grad(self, x, rng=None):
        t = self.A @ x - self.b
        return self.w * (self.A.T @ np.clip(t, -self.delta, self.delta))

    def stationary(self):
        x, *_ = np.linalg.lstsq(self.A, self.b, rcond=None)
        if np.max(np.abs(self.A @ x - self.b)) < 1e-10:
            return x
        return None

    def self_test(self, rng, n=12):
        L = self.w * np.linalg.norm(self.A, 2) ** 2
        M = self.w * self.delta * sum(np.linalg.norm(a) for a in self.A)
        ok = L <= self.params.get("L", INF) * (1 + 1e-9) and M <= self.params.get("M", INF) * (1 + 1e-9)
        return ok, "L=%.4g M=%.4g vs %r" % (L, M, self.params)


class LogSumExp(Member):
    """f(x) = w * log(sum_k exp(a_k.x + b_k)) ; smooth convex with L = w*max||a_k||^2 (bound), M = w*max||a_k||."""

    def __init__(self, cls, params, A, b, w):
        super().__init__(params, A.shape[1])
        self.cls = cls
        self.A, self.b, self.w = A, b, w

    def value(self, x):
        z = self.A @ x + self.b
        m = z.max()
        return float(self.w * (m + math.log(np.sum(np.exp(z - m)))))

    def grad(self, x, rng=None):
        z = self.A @ x + self.b
        p = np.exp(z - z.max())
        p = p / p.sum()
        return self.w * (self.A.T @ p)

    def self_test(self, rng, n=12):
        L = self.w * max(np.linalg.norm(a) for a in self.A) ** 2
        M = self.w * max(np.linalg.norm(a) for a in self.A)
        ok = L <= self.params.get("L", INF) * (1 + 1e-9) and M <= self.params.get("M", INF) * (1 + 1e-9)
        return ok, "L<=%.4g M<=%.4g vs %r" % (L, M, self.params)


class CosSum(Member):
    """f(x) = c * sum_k cos(a_k.x) : L-smooth non-convex with L = c*||sum a_k a_k'|| <= c*sum||a_k||^2."""

    def __init__(self, params, A, c):
        super().__init__(params, A.shape[1])
        self.cls = "SmoothFunction"
        self.A, self.c = A, c

    def value(self, x):
        return float(self.c * np.sum(np.cos(self.A @ x)))

    def grad(self, x, rng=None):
        return -self.c * (self.A.T @ np.sin(self.A @ x))

    def stationary(self):
        return np.zeros(self.dim)

    def stationary_list(self):
        """several stationary points with DIFFERENT values (non-convex): A x in pi Z^k"""
        out = [np.zeros(self.dim)]
        try:
            Ap = np.linalg.pinv(self.A)
            for j in range(len(self.A)):
                n = np.zeros(len(self.A))
                n[j] = math.pi
                x = Ap @ n
                if np.max(np.abs(np.sin(self.A @ x))) < 1e-12 and np.linalg.norm(self.grad(x)) < 1e-10 * (1 + abs(self.c)):
                    out.append(x)
        except np.linalg.LinAlgError:
            pass
        return out

    def self_test(self, rng, n=12):
        L = abs(self.c) * np.linalg.norm(self.A.T @ self.A, 2)
        return L <= self.params["L"] * (1 + 1e-9), "L=%.4g vs %.4g" % (L, self.params["L"])


class MaxAffine(Member):
    """f(x) = max_k (a_k.x + b_k) (+ mu/2 ||x - c||^2): convex, Lipschitz with M = max||a_k|| when mu = 0."""
    multivalued = True

    def __init__(self, cls, params, A, b, mu=0.0, c=None):
        super().__init__(params, A.shape[1])
        self.cls = cls
        self.A, self.b, self.mu = A, b, mu
        self.c = np.zeros(self.dim) if c is None else c

    def value(self, x):
        return float(np.max(self.A @ x + self.b) + 0.5 * self.mu * np.sum((x - self.c) ** 2))

    def grad(self, x, rng=None):
        z = self.A @ x + self.b
        act = np.where(z >= z.max() - 1e-12)[0]
        if rng is None or len(act) == 1:
            lam = np.zeros(len(z))
            lam[act[0]] = 1.0
        else:
            w = np.array([rng.random() for _ in act])
            lam = np.zeros(len(z))
            lam[act] = w / w.sum()
        return self.A.T @ lam + self.mu * (x - self.c)

    def stationary(self):
        if self.mu == 0:
            # a piece with zero slope that is maximal somewhere: use b-maximal zero row if present
            for k, a in enumerate(self.A):
                if np.all(a == 0) and self.b[k] >= np.max(self.b):
                    return np.zeros(self.dim)
            return None
        # minimise by subgradient-free fixed point on the prox: few pieces -> enumerate active sets of size 1
        best = None
        for k in range(len(self.b)):
            x = self.c - self.A[k] / self.mu
            z = self.A @ x + self.b
            if z[k] >= z.max() - 1e-10:
                best = x
                break
        return best

    def self_test(self, rng, n=12):
        M = max(np.linalg.norm(a) for a in self.A)
        ok = True
        if self.cls in ("ConvexLipschitzFunction",):
            ok = M <= self.params["M"] * (1 + 1e-9) and self.mu == 0
        if self.cls == "StronglyConvexFunction":
            ok = self.mu >= self.params["mu"] * (1 - 1e-12)
        # convexity on random pairs with random admissible subgradients
        for _ in range(n):
            x, y = _rand_vec(rng, self.dim, 2), _rand_vec(rng, self.dim, 2)
            g = self.grad(x, rng)
            if self.value(y) < self.value(x) + g @ (y - x) + 0.5 * self.mu * np.sum((y - x) ** 2) - 1e-9:
                return False, "subgradient inequality fails"
        return ok, "M=%.4g mu=%.4g vs %r" % (M, self.mu, self.params)


class NormFunction(Member):
    """f(x) = M ||x||_2 : convex, M-Lipschitz, support function of the M-ball."""
    multivalued = True

    def __init__(self, cls, params, M, dim):
        super().__init__(params, dim)
        self.cls = cls
        self.M = M

    def value(self, x):
        return float(self.M * np.linalg.norm(x))

    def grad(self, x, rng=None):
        nx = np.linalg.norm(x)
        if nx > 1e-14:
            return self.M * x / nx
        if rng is None:
            return np.zeros(self.dim)
        u = _rand_vec(rng, self.dim)
        return self.M * rng.random() * u / max(np.linalg.norm(u), 1e-14)

    def domain_point(self, rng, scale=1.0):
        return np.zeros(self.dim) if rng.random() < 0.2 else _rand_vec(rng, self.dim, scale)

    def stationary(self):
        return np.zeros(self.dim)

    def prox(self, x, gamma):
        nx = np.linalg.norm(x)
        return np.zeros(self.dim) if nx <= gamma * self.M else (1 - gamma * self.M / nx) * x

    def self_test(self, rng, n=12):
        ok = self.M <= self.params.get("M", INF) * (1 + 1e-12)
        return ok, "M=%.4g vs %r" % (self.M, self.params)


class PolytopeSupport(Member):
    """f(x) = max_k <v_k, x> : support function of conv{v_k} (inside the M-ball)."""
    multivalued = True
    cls = "ConvexSupportFunction"

    def __init__(self, params, V):
        super().__init__(params, V.shape[1])
        self.V = V

    def value(self, x):
        return float(np.max(self.V @ x))

    def grad(self, x, rng=None):
        z = self.V @ x
        act = np.where(z >= z.max() - 1e-12)[0]
        if rng is None or len(act) == 1:
            return self.V[act[0]].copy()
        w = np.array([rng.random() for _ in act])
        return (w / w.sum()) @ self.V[act]

    def domain_point(self, rng, scale=1.0):
        return np.zeros(self.dim) if rng.random() < 0.15 else _rand_vec(rng, self.dim, scale)

    def self_test(self, rng, n=12):
        R = max(np.linalg.norm(v) for v in self.V)
        return R <= self.params.get("M", INF) * (1 + 1e-12), "radius %.4g vs %r" % (R, self.params)


class BallIndicator(Member):
    """indicator of the ball B(c, r): diameter 2r <= D. Gradients are elements of the normal cone."""
    multivalued = True
    restricted_domain = True
    cls = "ConvexIndicatorFunction"

    def __init__(self, params, c, r):
        super().__init__(params, len(c))
        self.c, self.r = c, r

    def value(self, x):
        return 0.0

    def domain_point(self, rng, scale=1.0):
        u = _rand_vec(rng, self.dim)
        u = u / max(np.linalg.norm(u), 1e-14)
        t = 1.0 if rng.random() < 0.6 else rng.random()
        return self.c + self.r * t * u

    def grad(self, x, rng=None):
        d = x - self.c
        nd = np.linalg.norm(d)
        if nd < self.r * (1 - 1e-12):
            return np.zeros(self.dim)
        t = 0.0 if rng is None else rng.choice([0.0, rng.random() * 3, 1.0])
        return t * d / nd

    def project(self, x):
        d = x - self.c
        nd = np.linalg.norm(d)
        return x.copy() if nd <= self.r else self.c + self.r * d / nd

    def dist(self, x):
        return max(0.0, float(np.linalg.norm(x - self.c)) - self.r)

    def prox(self, x, gamma):
        return self.project(x)

    def stationary(self):
        return self.c.copy()

    def self_test(self, rng, n=12):
        return 2 * self.r <= self.params.get("D", INF) * (1 + 1e-12), "diameter %.4g vs %r" % (2 * self.r, self.params)


class BoxIndicator(Member):
    multivalued = True
    restricted_domain = True
    cls = "ConvexIndicatorFunction"

    def __init__(self, params, lo, hi):
        super().__init__(params, len(lo))
        self.lo, self.hi = lo, hi

    def domain_point(self, rng, scale=1.0):
        x = np.array([rng.uniform(a, b) for a, b in zip(self.lo, self.hi)])
        for i in range(self.dim):
            r = rng.random()
            if r < 0.3:
                x[i] = self.lo[i]
            elif r < 0.6:
                x[i] = self.hi[i]
        return x

    def grad(self, x, rng=None):
        g = np.zeros(self.dim)
        if rng is None:
            return g
        for i in range(self.dim):
            if abs(x[i] - self.hi[i]) < 1e-13:
                g[i] = rng.choice([0.0, rng.random() * 2])
            elif abs(x[i] - self.lo[i]) < 1e-13:
                g[i] = -rng.choice([0.0, rng.random() * 2])
        return g

    def project(self, x):
        return np.clip(x, self.lo, self.hi)

    def dist(self, x):
        return float(np.linalg.norm(x - np.clip(x, self.lo, self.hi)))

    def prox(self, x, gamma):
        return self.project(x)

    def stationary(self):
        return (self.lo + self.hi) / 2

    def self_test(self, rng, n=12):
        diam = float(np.linalg.norm(self.hi - self.lo))
        return diam <= self.params.get("D", INF) * (1 + 1e-12), "diameter %.4g vs %r" % (diam, self.params)


class MaxSquares(Member):
    """f(x) = max_k L_k/2 (a_k.x)^2, ||a_k|| <= 1, L_k <= L : convex, f - f* <= L/2 ||x||^2 (QG+), minimiser 0."""
    multivalued = True
    cls = "ConvexQGFunction"

    def __init__(self, params, A, Ls):
        super().__init__(params, A.shape[1])
        self.A, self.Ls = A, Ls

    def value(self, x):
        return float(np.max(0.5 * self.Ls * (self.A @ x) ** 2))

    def grad(self, x, rng=None):
        z = 0.5 * self.Ls * (self.A @ x) ** 2
        act = np.where(z >= z.max() - 1e-13)[0]
        G = (self.Ls[act] * (self.A[act] @ x))[:, None] * self.A[act]
        if rng is None or len(act) == 1:
            return G[0]
        w = np.array([rng.random() for _ in act])
        return (w / w.sum()) @ G

    def stationary(self):
        return np.zeros(self.dim)

    def self_test(self, rng, n=12):
        ok = max(np.linalg.norm(a) for a in self.A) <= 1 + 1e-12 and self.Ls.max() <= self.params["L"] * (1 + 1e-12)
        for _ in range(n):
            x = _rand_vec(rng, self.dim, 2)
            if self.value(x) > 0.5 * self.params["L"] * x @ x + 1e-9:
                return False, "quadratic growth upper bound fails"
        return ok, "ok"


class SumMember(Member):
    """f = f1 + f2 (same dim)."""

    def __init__(self, cls, params, m1, m2):
        super().__init__(params, m1.dim)
        self.cls = cls
        self.m1, self.m2 = m1, m2
        self.multivalued = m1.multivalued or m2.multivalued

    def value(self, x):
        return self.m1.value(x) + self.m2.value(x)

    def grad(self, x, rng=None):
        return self.m1.grad(x, rng) + self.m2.grad(x, rng)

    def self_test(self, rng, n=12):
        a, b = self.m1.self_test(rng, n), self.m2.self_test(rng, n)
        return a[0] and b[0], a[1] + " + " + b[1]


# ---- operators -----------------------------------------------------------------------------------------------
class LinearMap(Member):
    """A(x) = M (x - c) : single valued linear (affine) operator."""
    kind = "operator"

    def __init__(self, cls, params, M, c=None):
        super().__init__(params, M.shape[0])
        self.cls = cls
        self.M = M
        self.c = np.zeros(self.dim) if c is None else c

    def grad(self, x, rng=None):
        return self.M @ (x - self.c)

    def tgrad(self, u):
        return self.M.T @ u

    def stationary(self):
        return self.c.copy()

    def fixed_point(self):
        # M (x - c) = x  <=> (M - I) x = M c
        try:
            if np.linalg.cond(self.M - np.eye(self.dim)) > 1e6:
                return None
            x = np.linalg.solve(self.M - np.eye(self.dim), self.M @ self.c)
            if np.max(np.abs(self.grad(x) - x)) < 1e-9:
                return x
        except np.linalg.LinAlgError:
            pass
        return None

    def fixed_point_list(self):
        """fixed points of x -> M (x - c): one when M - I is invertible, several (a whole affine subspace) when 1 is an
        eigenvalue of M (identity, projections: the non-expansive limit L = 1)"""
        B = self.M - np.eye(self.dim)
        rhs = self.M @ self.c
        x, *_ = np.linalg.lstsq(B, rhs, rcond=None)
        if np.max(np.abs(B @ x - rhs)) > 1e-10 * (1 + np.max(np.abs(rhs))):
            return []
        out = [x]
        u, sv, vt = np.linalg.svd(B)
        null = vt[sv < 1e-12 * max(1.0, sv.max())] if len(sv) else vt
        for k, z in enumerate(null[:2]):
            out.append(x + (1.5 + k) * z)
        out = [p_ for p_ in out if np.max(np.abs(self.grad(p_) - p_)) < 1e-9 * (1 + np.max(np.abs(p_)))]
        return out

    def prox(self, x, gamma):
        B = np.eye(self.dim) + gamma * self.M
        try:
            if np.linalg.cond(B) > 1e6:
                return None          # resolvent not (numerically) defined: non-monotone map
            return np.linalg.solve(B, x + gamma * self.M @ self.c)
        except np.linalg.LinAlgError:
            return None

    def self_test(self, rng, n=12):
        M, p, I = self.M, self.params, np.eye(self.dim)
        S = (M + M.T) / 2
        evS = np.linalg.eigvalsh(S)
        nrm = np.linalg.norm(M, 2)
        c = self.cls
        tol = 1e-9
        if c == "MonotoneOperator":
            return evS.min() >= -tol, "sym part min eig %.3g" % evS.min()
        if c == "StronglyMonotoneOperator":
            return evS.min() >= p["mu"] - tol, "sym part min eig %.3g vs mu %.3g" % (evS.min(), p["mu"])
        if c == "CocoerciveOperator":
            e = np.linalg.eigvalsh(S - p["beta"] * M.T @ M)
            return e.min() >= -tol, "cocoercivity form min eig %.3g" % e.min()
        if c == "CocoerciveStronglyMonotoneOperator":
            e = np.linalg.eigvalsh(S - p["beta"] * M.T @ M)
            return e.min() >= -tol and evS.min() >= p["mu"] - tol, "coco %.3g strong %.3g" % (e.min(), evS.min())
        if c == "LipschitzOperator":
            return nrm <= p["L"] * (1 + tol), "norm %.4g vs L %.4g" % (nrm, p["L"])
        if c == "LipschitzStronglyMonotoneOperator":
            return nrm <= p["L"] * (1 + tol) and evS.min() >= p["mu"] - tol, "norm %.4g strong %.4g" % (nrm, evS.min())
        if c == "NegativelyComonotoneOperator":
            e = np.linalg.eigvalsh(S + p["rho"] * M.T @ M)
            return e.min() >= -tol, "comonotonicity form min eig %.3g" % e.min()
        if c == "NonexpansiveOperator":
            return nrm <= 1 + tol, "norm %.6g" % nrm
        if c == "LinearOperator":
            return nrm <= p["L"] * (1 + tol) and np.all(self.c == 0), "norm %.4g vs L %.4g" % (nrm, p["L"])
        if c == "SymmetricLinearOperator":
            ev = np.linalg.eigvalsh(S)
            return np.max(np.abs(M - M.T)) < 1e-12 and ev.min() >= p["mu"] - tol and ev.max() <= p["L"] + tol and np.all(self.c == 0), \
                "spectrum [%.4g, %.4g] vs [%.4g, %.4g]" % (ev.min(), ev.max(), p["mu"], p["L"])
        if c == "SkewSymmetricLinearOperator":
            return np.max(np.abs(M + M.T)) < 1e-12 and nrm <= p["L"] * (1 + tol) and np.all(self.c == 0), "norm %.4g" % nrm
        return False, "unknown class"


class Translation(Member):
    """T(x) = (R x_1, x_2 - v0): nonexpansive, infimal displacement vector v = (0, v0)."""
    kind = "operator"
    cls = "NonexpansiveOperator"

    def __init__(self, params, R, v0):
        super().__init__(params, R.shape[0] + len(v0))
        self.R, self.v0 = R, v0
        self.k = R.shape[0]

    def grad(self, x, rng=None):
        return np.concatenate([self.R @ x[:self.k], x[self.k:] - self.v0])

    def displacement(self):
        return np.concatenate([np.zeros(self.k), self.v0])

    def self_test(self, rng, n=12):
        return np.linalg.norm(self.R, 2) <= 1 + 1e-12, "ok"


class SubdiffOperator(Member):
    """A = subdifferential of a convex member (monotone / strongly monotone; multivalued)."""
    kind = "operator"

    def __init__(self, cls, params, fm):
        super().__init__(params, fm.dim)
        self.cls = cls
        self.fm = fm
        self.multivalued = fm.multivalued
        self.restricted_domain = fm.restricted_domain

    def grad(self, x, rng=None):
        return self.fm.grad(x, rng)

    def domain_point(self, rng, scale=1.0):
        return self.fm.domain_point(rng, scale)

    def stationary(self):
        return self.fm.stationary()

    def prox(self, x, gamma):
        return self.fm.prox(x, gamma)

    def self_test(self, rng, n=12):
        ok, why = self.fm.self_test(rng, n)
        mu = self.params.get("mu", 0.0)
        for _ in range(n):
            x, y = self.domain_point(rng, 2), self.domain_point(rng, 2)
            if (self.grad(x, rng) - self.grad(y, rng)) @ (x - y) < mu * np.sum((x - y) ** 2) - 1e-9:
                return False, "monotonicity fails"
        return ok, why


class SinOperator(Member):
    """A(x) = L sin(x) componentwise: L-Lipschitz, not monotone."""
    kind = "operator"
    cls = "LipschitzOperator"

    def __init__(self, params, dim):
        super().__init__(params, dim)

    def grad(self, x, rng=None):
        return self.params["L"] * np.sin(x)

    def stationary(self):
        return np.zeros(self.dim)


# ---- factories -----------------------------------------------------------------------------------------------
def _pick(rng, xs):
    return xs[rng.randrange(len(xs))]


def _maxaffine(cls, p, rng, d, M=None, mu=0.0, center=None):
    k = rng.randint(1, 4)
    A = np.array([_rand_vec(rng, d) for _ in range(k)])
    if M is not None:
        for i in range(k):
            n = np.linalg.norm(A[i])
            A[i] = A[i] * (M * rng.choice([1.0, rng.random()]) / max(n, 1e-12))
    b = np.array([rng.gauss(0, 1) for _ in range(k)])
    if rng.random() < 0.3:
        b[:] = 0.0          # all pieces meet at the origin: kinks at evaluation points
    return MaxAffine(cls, p, A, b, mu=mu, c=center)


def _quad(cls, p, rng, d, lo, hi, c):
    return Quadratic(cls, p, _sym_with_spectrum(rng, d, lo, hi), c, b0=rng.choice([0.0, rng.gauss(0, 1)]))


def make_member(cls, params, rng, dim=None, partition_blocks=None):
    """A random real member of class `cls` with the declared `params` (real numbers, inf allowed)."""
    d = dim or rng.randint(1, 5)
    p = dict(params)
    c = _rand_vec(rng, d, rng.choice([0.0, 1.0]))
    I = np.eye(d)
    if cls == "ConvexFunction":
        k = _pick(rng, ["maxaffine", "quad", "norm", "sum"])
        if k == "maxaffine":
            return _maxaffine(cls, p, rng, d)
        if k == "quad":
            return _quad(cls, p, rng, d, 0.0, rng.choice([1.0, 5.0]), c)
        if k == "norm":
            return NormFunction(cls, p, rng.choice([1.0, 2.5]), d)
        return SumMember(cls, p, NormFunction(cls, p, 1.0, d), _quad(cls, p, rng, d, 0.0, 2.0, c))
    if cls == "ConvexIndicatorFunction":
        D = p.get("D", INF)
        r = (D / 2 if D < INF else rng.choice([1.0, 3.0, 1e3])) * rng.choice([1.0, 1.0, 0.5])
        if rng.random() < 0.5 or d == 1:
            return BallIndicator(p, c, r)
        half = r / math.sqrt(d)
        w = np.array([half * rng.choice([1.0, 0.3]) for _ in range(d)])
        return BoxIndicator(p, c - w, c + w)
    if cls == "ConvexLipschitzFunction":
        M = p["M"]
        k = _pick(rng, ["norm", "maxaffine", "huberlike"])
        if k == "norm":
            return NormFunction(cls, p, M * rng.choice([1.0, 0.5]), d)
        return _maxaffine(cls, p, rng, d, M=M)
    if cls == "ConvexQGFunction":
        L = p["L"]
        k = _pick(rng, ["quad", "maxsq", "maxsq", "huber"])
        if k == "quad":
            return _quad(cls, p, rng, d, 0.0, L, c)
        if k == "huber":
            A = np.array([_rand_vec(rng, d) for _ in range(rng.randint(1, 3))])
            A = A / max(np.linalg.norm(A, 2), 1e-12)
            return Huber(cls, p, A, A @ c, rng.choice([0.5, 2.0]), L)
        kk = rng.randint(1, 3)
        A = np.array([_rand_vec(rng, d) for _ in range(kk)])
        A = np.array([a / max(np.linalg.norm(a), 1e-12) * rng.choice([1.0, 0.6]) for a in A])
        if rng.random() < 0.4 and d >= 2:
            A = np.eye(d)[:min(d, 3)]      # L/2 ||x||_inf^2 on a coordinate subspace
        Ls = np.array([L * rng.choice([1.0, 1.0, 0.5]) for _ in range(len(A))])
        return MaxSquares(p, A, Ls)
    if cls == "ConvexSupportFunction":
        M = p.get("M", INF)
        R = M if M < INF else rng.choice([1.0, 3.0])
        if rng.random() < 0.35:
            return NormFunction(cls, p, R, d)
        V = np.array([_rand_vec(rng, d) for _ in range(rng.randint(1, 5))])
        V = np.array([v / max(np.linalg.norm(v), 1e-12) * R * rng.choice([1.0, rng.random()]) for v in V])
        return PolytopeSupport(p, V)
    if cls == "RsiEbFunction":
        return _quad(cls, p, rng, d, p["mu"], p["L"], c)
    if cls == "SmoothConvexFunction":
        L = p["L"]
        k = _pick(rng, ["quad", "quad", "huber", "lse"])
        if L == INF:
            return _quad(cls, p, rng, d, 0.0, 3.0, c)
        if k == "quad":
            return _quad(cls, p, rng, d, 0.0, L, c)
        if k == "huber":
            A = np.array([_rand_vec(rng, d) for _ in range(rng.randint(1, 3))])
            A = A / max(np.linalg.norm(A, 2), 1e-12)
            return Huber(cls, p, A, A @ c, rng.choice([0.3, 1.0]), L)
        A = np.array([_rand_vec(rng, d) for _ in range(rng.randint(2, 4))])
        mx = max(np.linalg.norm(a) for a in A)
        A = A / max(mx, 1e-12)
        return LogSumExp(cls, p, A, np.array([rng.gauss(0, 1) for _ in range(len(A))]), L)
    if cls == "SmoothConvexLipschitzFunction":
        L, M = p["L"], p["M"]
        if rng.random() < 0.5:
            # one-piece Huber: L = w, M = w*delta  (||a|| = 1)
            a = _rand_vec(rng, d)
            a = a / max(np.linalg.norm(a), 1e-12)
            w = L
            delta = M / L
            return Huber(cls, p, a[None, :], np.array([a @ c]), delta, w)
        A = np.array([_rand_vec(rng, d) for _ in range(rng.randint(2, 3))])
        A = A / max(max(np.linalg.norm(a) for a in A), 1e-12)
        # w*max||a||^2 <= L and w*max||a|| <= M with max||a|| = s: choose s, w
        s_ = min(1.0, L / M) if M > 0 else 1.0
        w = min(L / s_ ** 2, M / s_)
        return LogSumExp(cls, p, A * s_, np.array([rng.gauss(0, 1) for _ in range(len(A))]), w)
    if cls == "SmoothFunction":
        L = p["L"]
        if rng.random() < 0.6:
            return _quad(cls, p, rng, d, -L, L, c)
        A = np.array([_rand_vec(rng, d) for _ in range(rng.randint(1, 3))])
        cc = L / max(np.linalg.norm(A.T @ A, 2), 1e-12)
        return CosSum(p, A, cc * rng.choice([1.0, -1.0]))
    if cls == "SmoothStronglyConvexFunction":
        mu, L = p["mu"], p["L"]
        if L == INF:
            return _quad(cls, p, rng, d, mu, mu + 3.0, c)
        r = rng.random()
        if r < 0.2:
            return Quadratic(cls, p, mu * I, c)
        if r < 0.4:
            return Quadratic(cls, p, L * I, c)
        if r < 0.75:
            return _quad(cls, p, rng, d, mu, L, c)
        A = np.array([_rand_vec(rng, d) for _ in range(rng.randint(1, 3))])
        A = A / max(np.linalg.norm(A, 2), 1e-12)
        return SumMember(cls, p, Quadratic(cls, {"mu": mu, "L": mu}, mu * I, c),
                         Huber("SmoothConvexFunction", {"L": L - mu}, A, A @ c, rng.choice([0.3, 1.0]), L - mu))
    if cls == "StronglyConvexFunction":
        mu = p["mu"]
        if rng.random() < 0.4:
            return _quad(cls, p, rng, d, mu, mu + rng.choice([0.0, 4.0]), c)
        return _maxaffine(cls, p, rng, d, mu=mu, center=c)
    if cls == "SmoothStronglyConvexQuadraticFunction":
        r = rng.random()
        if r < 0.15:
            return Quadratic(cls, p, p["mu"] * I, c)
        if r < 0.3:
            return Quadratic(cls, p, p["L"] * I, c)
        return _quad(cls, p, rng, d, p["mu"], p["L"], c)
    if cls == "BlockSmoothConvexFunction":
        # coordinate partition given by partition_blocks: list of index arrays; L_k = lambda_max(Q_kk)
        blocks = partition_blocks
        n = sum(len(b) for b in blocks)
        B = np.array([[rng.gauss(0, 1) for _ in range(n)] for _ in range(n)])
        Q = B.T @ B
        # scale so that every diagonal block satisfies lambda_max(Q_kk) <= L_k
        s = min(p["L"][k] / max(np.linalg.eigvalsh(Q[np.ix_(b, b)]).max(), 1e-12) for k, b in enumerate(blocks))
        Q = Q * s * rng.choice([1.0, 0.5])
        m = Quadratic(cls, p, Q, _rand_vec(rng, n, rng.choice([0.0, 1.0])))
        m.blocks = blocks
        return m
    # ---- operators
    if cls == "MonotoneOperator":
        r = rng.random()
        if r < 0.4:
            S = _sym_with_spectrum(rng, d, 0.0, 2.0)
            return LinearMap(cls, p, S + (_skew(rng, d, rng.choice([0.0, 1.0, 3.0])) if d > 1 else 0 * S), c)
        if r < 0.7:
            return SubdiffOperator(cls, p, _maxaffine("ConvexFunction", {}, rng, d))
        return SubdiffOperator(cls, p, make_member("ConvexIndicatorFunction", {"D": INF}, rng, d))
    if cls == "StronglyMonotoneOperator":
        mu = p["mu"]
        if rng.random() < 0.5:
            S = _sym_with_spectrum(rng, d, mu, mu + 2.0)
            return LinearMap(cls, p, S + (_skew(rng, d, rng.choice([0.0, 2.0])) if d > 1 else 0 * S), c)
        return SubdiffOperator(cls, p, _maxaffine("StronglyConvexFunction", {"mu": mu}, rng, d, mu=mu, center=c))
    if cls == "CocoerciveOperator":
        beta = p["beta"]
        if beta == 0:
            return LinearMap(cls, p, _sym_with_spectrum(rng, d, 0.0, 2.0), c)
        if rng.random() < 0.5 or d == 1:
            return LinearMap(cls, p, _sym_with_spectrum(rng, d, 0.0, 1.0 / beta), c)
        K = _skew(rng, d, rng.choice([0.5, 2.0]))
        return LinearMap(cls, p, np.linalg.inv(I + K) / beta, c)       # (1/beta) * firmly nonexpansive
    if cls == "CocoerciveStronglyMonotoneOperator":
        mu, beta = p["mu"], p["beta"]
        return LinearMap(cls, p, _sym_with_spectrum(rng, d, mu, 1.0 / beta), c)
    if cls in ("LipschitzOperator", "NonexpansiveOperator") and p.get("L", 1.0) == 1.0 and not p.get("with_v") and rng.random() < 0.2:
        # the non-expansive limit: identity and orthogonal projections have a whole subspace of fixed points
        Q = _rand_orth(rng, d)
        rk = rng.randint(1, d)
        Pm = Q[:, :rk] @ Q[:, :rk].T
        return LinearMap(cls, p, Pm if rng.random() < 0.7 else I, np.zeros(d))
    if cls == "LipschitzOperator":
        L = p["L"]
        r = rng.random()
        if r < 0.3:
            return SinOperator(p, d)
        if r < 0.6 and d > 1:
            return LinearMap(cls, p, L * _rand_orth(rng, d), c)
        A = np.array([[rng.gauss(0, 1) for _ in range(d)] for _ in range(d)])
        return LinearMap(cls, p, A * (L * rng.choice([1.0, 0.5]) / max(np.linalg.norm(A, 2), 1e-12)), c)
    if cls == "LipschitzStronglyMonotoneOperator":
        mu, L = p["mu"], p["L"]
        if rng.random() < 0.5 and d > 1 and L > mu:
            s = math.sqrt(max(L * L - mu * mu, 0.0)) * rng.choice([1.0, 0.5])
            return LinearMap(cls, p, mu * I + _skew(rng, d, s), c)
        return LinearMap(cls, p, _sym_with_spectrum(rng, d, mu, L), c)
    if cls == "NegativelyComonotoneOperator":
        rho = p["rho"]
        r = rng.random()
        if r < 0.35:
            S = _sym_with_spectrum(rng, d, 0.0, 2.0)
            return LinearMap(cls, p, S + (_skew(rng, d, 1.0) if d > 1 else 0 * S), c)
        if r < 0.6 and rho > 0:
            return LinearMap(cls, p, -(1.0 / rho) * rng.choice([1.0, 2.0]) * I, c)
        # (B^-1 - rho I)^-1 for a linear strongly monotone B
        Bm = _sym_with_spectrum(rng, d, 0.5, 2.0) + (_skew(rng, d, 1.0) if d > 1 else np.zeros((d, d)))
        Minv = np.linalg.inv(Bm) - rho * I
        if abs(np.linalg.det(Minv)) < 1e-6:
            return LinearMap(cls, p, _sym_with_spectrum(rng, d, 0.0, 2.0), c)
        return LinearMap(cls, p, np.linalg.inv(Minv), c)
    if cls == "NonexpansiveOperator":
        r = rng.random()
        if p.get("with_v"):
            k = max(d - 1, 0)
            R = _rand_orth(rng, k) if k > 0 else np.zeros((0, 0))
            return Translation(p, R * rng.choice([1.0, 0.7]) if k else R, _rand_vec(rng, 1))
        if r < 0.4 and d > 1:
            return LinearMap(cls, p, _rand_orth(rng, d), c)
        if r < 0.7:
            A = np.array([[rng.gauss(0, 1) for _ in range(d)] for _ in range(d)])
            return LinearMap(cls, p, A * (rng.choice([1.0, 0.6]) / max(np.linalg.norm(A, 2), 1e-12)), c)
        # averaged map (I + R)/2
        return LinearMap(cls, p, (I + (_rand_orth(rng, d) if d > 1 else I)) / 2, c)
    if cls == "LinearOperator":
        A = np.array([[rng.gauss(0, 1) for _ in range(d)] for _ in range(d)])
        if rng.random() < 0.3 and d > 1:
            A[:, 0] = 0.0        # rank deficient
        return LinearMap(cls, p, A * (p["L"] * rng.choice([1.0, 0.5]) / max(np.linalg.norm(A, 2), 1e-12)))
    if cls == "SymmetricLinearOperator":
        return LinearMap(cls, p, _sym_with_spectrum(rng, d, p["mu"], p["L"]))
    if cls == "SkewSymmetricLinearOperator":
        if d == 1:
            return LinearMap(cls, p, np.zeros((1, 1)))
        return LinearMap(cls, p, _skew(rng, d, p["L"] * rng.choice([1.0, 0.5])))
    raise KeyError(cls)
