"""Independent reference implementation of the documented (interpolation) conditions of the 24 shipped classes,
written from the class docstrings / cited papers (DESIGN Appendix A), over the samples recorded in a function.

reference(f) -> (conds, lmis)
  conds: list of dict(name, pair, sense, expr)   pair = (i, j) / (i,) indices into f.list_of_points
         meaning  expr <= 0  (inequality)  or  expr == 0  (equality)
  lmis : list of dict(name, matrix)               matrix = list of rows of E, meaning sym(matrix) >= 0
The condition `name`s are those PEPit documents for its tables of constraints (used by C17).
"""
import math

from pv.ref.sym import P, E, ip, sq


def _samples(f):
    return [(P.of(x), P.of(g), E.of(v)) for (x, g, v) in f.list_of_points]


def _is_stationary_index(f):
    """a sample is stationary iff its recorded (sub)gradient denotes zero (decided on the sample itself, not on the
    library's own list of stationary points)"""
    return [P.of(g).is_zero() for (x, g, v) in f.list_of_points]


def _pairs(n, ordered=True):
    for i in range(n):
        for j in range(n):
            if i != j and (ordered or i < j):
                yield i, j


def reference(f):
    name = type(f).__name__
    S = _samples(f)
    n = len(S)
    conds, lmis = [], []

    def C(cname, pair, sense, expr):
        conds.append({"name": cname, "pair": pair, "sense": sense, "expr": expr})

    inf = float("inf")
    if name == "ConvexFunction":
        for i, j in _pairs(n):
            (xi, gi, fi), (xj, gj, fj) = S[i], S[j]
            C("convexity", (i, j), "inequality", fj - fi + ip(gj, xi - xj))
    elif name == "ConvexIndicatorFunction":
        for i in range(n):
            C("value", (i,), "equality", S[i][2])
        for i, j in _pairs(n):
            (xi, gi, fi), (xj, gj, fj) = S[i], S[j]
            C("convexity", (i, j), "inequality", ip(gj, xi - xj))
        if f.D != inf:
            for i, j in _pairs(n):
                C("diameter", (i, j), "inequality", sq(S[i][0] - S[j][0]) - f.D ** 2)
    elif name == "ConvexLipschitzFunction":
        for i in range(n):
            C("lipschitz_continuity", (i,), "inequality", sq(S[i][1]) - f.M ** 2)
        for i, j in _pairs(n):
            (xi, gi, fi), (xj, gj, fj) = S[i], S[j]
            C("convexity", (i, j), "inequality", fj - fi + ip(gj, xi - xj))
    elif name == "ConvexQGFunction":
        st = _is_stationary_index(f)
        for s in range(n):
            if not st[s]:
                continue
            for j in range(n):
                if j == s:
                    continue
                (xs, gs, fs), (xj, gj, fj) = S[s], S[j]
                C("qg_convexity", (s, j), "inequality", fj - fs + ip(gj, xs - xj) + (1.0 / (2 * f.L)) * sq(gj))
        for i, j in _pairs(n):
            (xi, gi, fi), (xj, gj, fj) = S[i], S[j]
            C("convexity", (i, j), "inequality", fj - fi + ip(gj, xi - xj))
    elif name == "ConvexSupportFunction":
        for i in range(n):
            xi, gi, fi = S[i]
            C("fenchel_value", (i,), "equality", ip(gi, xi) - fi)
        if f.M != inf:
            for i in range(n):
                C("lipschitz_continuity", (i,), "inequality", sq(S[i][1]) - f.M ** 2)
        for i, j in _pairs(n):
            (xi, gi, fi), (xj, gj, fj) = S[i], S[j]
            C("convexity", (i, j), "inequality", ip(xj, gi - gj))
    elif name == "RsiEbFunction":
        st = _is_stationary_index(f)
        for s in range(n):
            if not st[s]:
                continue
            for j in range(n):
                if j == s:
                    continue
                (xs, gs, fs), (xj, gj, fj) = S[s], S[j]
                C("rsi", (s, j), "inequality", f.mu * sq(xs - xj) - ip(gs - gj, xs - xj))
                C("eb", (s, j), "inequality", sq(gs - gj) - f.L ** 2 * sq(xs - xj))
    elif name in ("SmoothConvexFunction", "SmoothConvexLipschitzFunction"):
        for i, j in _pairs(n):
            (xi, gi, fi), (xj, gj, fj) = S[i], S[j]
            e = fj - fi + ip(gj, xi - xj)
            if f.L != inf:
                e = e + (1.0 / (2 * f.L)) * sq(gi - gj)
            C("smoothness_convexity", (i, j), "inequality", e)
        if name == "SmoothConvexLipschitzFunction":
            for i in range(n):
                C("lipschitz_continuity", (i,), "inequality", sq(S[i][1]) - f.M ** 2)
    elif name == "SmoothFunction":
        for i, j in _pairs(n):
            (xi, gi, fi), (xj, gj, fj) = S[i], S[j]
            e = fj - fi - (f.L / 4.0) * sq(xi - xj) + 0.5 * ip(gi + gj, xi - xj) + (1.0 / (4 * f.L)) * sq(gi - gj)
            C("smoothness", (i, j), "inequality", e)
    elif name == "SmoothStronglyConvexFunction":
        mu, L = f.mu, f.L
        for i, j in _pairs(n):
            (xi, gi, fi), (xj, gj, fj) = S[i], S[j]
            if L == inf:
                e = fj - fi + ip(gj, xi - xj) + (mu / 2.0) * sq(xi - xj)
            else:
                e = fj - fi + ip(gj, xi - xj) + (1.0 / (2 * L)) * sq(gi - gj) \
                    + (mu / (2 * (1 - mu / L))) * sq((xi - xj) - (1.0 / L) * (gi - gj))
            C("smoothness_strong_convexity", (i, j), "inequality", e)
    elif name == "StronglyConvexFunction":
        for i, j in _pairs(n):
            (xi, gi, fi), (xj, gj, fj) = S[i], S[j]
            C("strong_convexity", (i, j), "inequality", fj - fi + ip(gj, xi - xj) + (f.mu / 2.0) * sq(xi - xj))
    elif name == "SmoothStronglyConvexQuadraticFunction":
        mu, L = f.mu, f.L
        st = _is_stationary_index(f)
        s0 = st.index(True)
        xs, gs, fs = S[s0]
        for i in range(n):
            xi, gi, fi = S[i]
            C("value", (i,), "equality", fi - fs - 0.5 * ip(xi - xs, gi))
        for i, j in _pairs(n, ordered=False):
            (xi, gi, fi), (xj, gj, fj) = S[i], S[j]
            C("symmetry", (i, j), "equality", ip(xi - xs, gj) - ip(xj - xs, gi))
        T = [[(L + mu) * ip(S[i][1], S[j][0] - xs) - ip(S[i][1], S[j][1]) - mu * L * ip(S[i][0] - xs, S[j][0] - xs)
              for j in range(n)] for i in range(n)]
        lmis.append({"name": "quadratic_lmi", "matrix": T})
    elif name == "BlockSmoothConvexFunction":
        part = f.partition
        d = part.get_nb_blocks()
        for i, j in _pairs(n):
            (xi, gi, fi), (xj, gj, fj) = S[i], S[j]
            gi_obj, gj_obj = f.list_of_points[i][1], f.list_of_points[j][1]
            for k in range(d):
                # block k of a gradient: the block PEPit's partition holds for that gradient object
                bi = part.blocks_dict.get(gi_obj)
                bj = part.blocks_dict.get(gj_obj)
                if bi is None or bj is None:
                    raise KeyError("gradient not decomposed by the partition")
                gik, gjk = P.of(bi[k]), P.of(bj[k])
                C("smoothness_convexity_block_%d" % k, (i, j), "inequality",
                  fj - fi + ip(gj, xi - xj) + (1.0 / (2 * f.L[k])) * sq(gik - gjk))
    elif name == "MonotoneOperator":
        for i, j in _pairs(n, ordered=False):
            C("monotonicity", (i, j), "inequality", -1.0 * ip(S[i][1] - S[j][1], S[i][0] - S[j][0]))
    elif name == "StronglyMonotoneOperator":
        for i, j in _pairs(n, ordered=False):
            d_ = S[i][0] - S[j][0]
            C("strong_monotonicity", (i, j), "inequality", f.mu * sq(d_) - ip(S[i][1] - S[j][1], d_))
    elif name == "CocoerciveOperator":
        for i, j in _pairs(n, ordered=False):
            dg = S[i][1] - S[j][1]
            C("cocoercivity", (i, j), "inequality", f.beta * sq(dg) - ip(dg, S[i][0] - S[j][0]))
    elif name == "CocoerciveStronglyMonotoneOperator":
        for i, j in _pairs(n, ordered=False):
            dg, dx = S[i][1] - S[j][1], S[i][0] - S[j][0]
            C("cocoercivity", (i, j), "inequality", f.beta * sq(dg) - ip(dg, dx))
            C("strong_monotonicity", (i, j), "inequality", f.mu * sq(dx) - ip(dg, dx))
    elif name == "LipschitzOperator":
        for i, j in _pairs(n, ordered=False):
            if f.L != inf:
                C("lipschitz_continuity", (i, j), "inequality", sq(S[i][1] - S[j][1]) - f.L ** 2 * sq(S[i][0] - S[j][0]))
    elif name == "LipschitzStronglyMonotoneOperator":
        for i, j in _pairs(n, ordered=False):
            dg, dx = S[i][1] - S[j][1], S[i][0] - S[j][0]
            C("strong_monotonicity", (i, j), "inequality", f.mu * sq(dx) - ip(dg, dx))
            if f.L != inf:
                C("lipschitz_continuity", (i, j), "inequality", sq(dg) - f.L ** 2 * sq(dx))
    elif name == "NegativelyComonotoneOperator":
        for i, j in _pairs(n, ordered=False):
            dg, dx = S[i][1] - S[j][1], S[i][0] - S[j][0]
            C("negative_comonotonicity", (i, j), "inequality", -1.0 * ip(dg, dx) - f.rho * sq(dg))
    elif name == "NonexpansiveOperator":
        for i, j in _pairs(n, ordered=False):
            C("nonexpansiveness", (i, j), "inequality", sq(S[i][1] - S[j][1]) - sq(S[i][0] - S[j][0]))
        if f.v is not None:
            v = P.of(f.v)
            for i in range(n):
                C("infimal_displacement_vector", (i,), "inequality", sq(v) - ip(S[i][0] - S[i][1], v))
    elif name == "LinearOperator":
        U = [(P.of(u), P.of(v)) for (u, v, h) in f.T.list_of_points]
        for i in range(n):
            for j in range(len(U)):
                C("adjoint", (i, j), "equality", ip(S[i][0], U[j][1]) - ip(S[i][1], U[j][0]))
        lmis.append({"name": "lmi_M", "matrix": [[f.L ** 2 * ip(S[i][0], S[j][0]) - ip(S[i][1], S[j][1]) for j in range(n)]
                                                   for i in range(n)]})
        m = len(U)
        lmis.append({"name": "lmi_Mt", "matrix": [[f.L ** 2 * ip(U[i][0], U[j][0]) - ip(U[i][1], U[j][1]) for j in range(m)]
                                                    for i in range(m)]})
    elif name == "SymmetricLinearOperator":
        mu, L = f.mu, f.L
        for i, j in _pairs(n, ordered=False):
            C("symmetric_linearity", (i, j), "equality", ip(S[i][0], S[j][1]) - ip(S[j][0], S[i][1]))
        T = [[L * ip(S[i][1], S[j][0]) - ip(S[i][1], S[j][1]) - mu * L * ip(S[i][0], S[j][0]) + mu * ip(S[i][0], S[j][1])
              for j in range(n)] for i in range(n)]
        lmis.append({"name": "symmetric_lmi", "matrix": T})
    elif name == "SkewSymmetricLinearOperator":
        for i in range(n):
            for j in range(i, n):      # the diagonal <x_i, A x_i> = 0 included
                C("antisymmetric_linearity", (i, j), "equality", ip(S[i][0], S[j][1]) + ip(S[j][0], S[i][1]))
        lmis.append({"name": "skew_lmi", "matrix": [[f.L ** 2 * ip(S[i][0], S[j][0]) - ip(S[i][1], S[j][1]) for j in range(n)]
                                                     for i in range(n)]})
    else:
        raise KeyError("no reference conditions for class %s" % name)
    return conds, lmis


def sym_matrix(M):
    n = len(M)
    return [[0.5 * (M[i][j] + M[j][i]) for j in range(n)] for i in range(n)]
