"""Tiny independent symbolic algebra for the reference models (does not use PEPit's operators).

P : linear combination of leaf points      {leaf: coef}
E : affine functional of (Gram, F)          G {(leafA, leafB) unordered: coef}, F {leaf expr: coef}, c
Leaves are PEPit leaf objects used only as opaque identities.
"""
from pv import canon


def _okey(a, b):
    return (a, b) if id(a) <= id(b) else (b, a)


class P(object):
    __slots__ = ("d",)

    def __init__(self, d=None):
        self.d = dict(d or {})

    @staticmethod
    def of(point):
        return P(canon.point_coeffs(point))

    def __add__(self, o):
        d = dict(self.d)
        for k, v in o.d.items():
            d[k] = d.get(k, 0.0) + v
        return P(d)

    def __sub__(self, o):
        return self + o * (-1.0)

    def __mul__(self, c):
        return P({k: v * c for k, v in self.d.items()})

    __rmul__ = __mul__

    def __neg__(self):
        return self * (-1.0)

    def is_zero(self, tol=1e-13):
        return all(abs(v) <= tol for v in self.d.values())


def ip(a, b):
    """inner product of two P -> E"""
    G = {}
    for k1, v1 in a.d.items():
        for k2, v2 in b.d.items():
            kk = _okey(k1, k2)
            G[kk] = G.get(kk, 0.0) + v1 * v2
    return E(G, {}, 0.0)


def sq(a):
    return ip(a, a)


class E(object):
    __slots__ = ("G", "F", "c")

    def __init__(self, G=None, F=None, c=0.0):
        self.G = dict(G or {})
        self.F = dict(F or {})
        self.c = float(c)

    @staticmethod
    def of(expr):
        G, F, c = canon.expr_coeffs(expr)
        GG = {}
        for (p, q), v in G.items():
            kk = _okey(p, q)
            GG[kk] = GG.get(kk, 0.0) + v
        return E(GG, F, c)

    @staticmethod
    def const(c):
        return E({}, {}, c)

    def __add__(self, o):
        if isinstance(o, (int, float)):
            return E(self.G, self.F, self.c + o)
        G = dict(self.G)
        for k, v in o.G.items():
            G[k] = G.get(k, 0.0) + v
        F = dict(self.F)
        for k, v in o.F.items():
            F[k] = F.get(k, 0.0) + v
        return E(G, F, self.c + o.c)

    __radd__ = __add__

    def __mul__(self, c):
        return E({k: v * c for k, v in self.G.items()}, {k: v * c for k, v in self.F.items()}, self.c * c)

    __rmul__ = __mul__

    def __neg__(self):
        return self * (-1.0)

    def __sub__(self, o):
        if isinstance(o, (int, float)):
            return self + (-o)
        return self + o * (-1.0)

    def __rsub__(self, o):
        return (-self) + o

    def key(self, sense, label=None):
        """canonical hashable key (same normalisation as canon.functional_key); label(leaf)->str, default id."""
        lab = label or (lambda x: id(x))
        terms = {}
        for (p, q), v in self.G.items():
            k = ("G",) + tuple(sorted((lab(p), lab(q)), key=repr))
            terms[k] = terms.get(k, 0.0) + v
        for k_, v in self.F.items():
            k = ("F", lab(k_))
            terms[k] = terms.get(k, 0.0) + v
        if self.c != 0.0:
            terms[("C",)] = self.c
        mx = max([abs(v) for v in terms.values()] or [0.0])
        terms = {k: v for k, v in terms.items() if abs(v) > 1e-11 * max(mx, 1e-300)}
        if not terms:
            return None
        if set(terms) == {("C",)}:
            cval = terms[("C",)]
            ok = (cval <= 0) if sense == "inequality" else (cval == 0)
            return None if ok else ("INFEASIBLE", sense)
        items = sorted(terms.items(), key=lambda kv: repr(kv[0]))
        scale = max(abs(v) for _, v in items)
        if sense == "equality" and items[0][1] < 0:
            scale = -scale
        return (sense,) + tuple((k, float("%.9e" % (v / scale))) for k, v in items)

    def rawkey(self, label=None):
        """un-normalised key (LMI entries)"""
        lab = label or (lambda x: id(x))
        terms = {}
        for (p, q), v in self.G.items():
            k = ("G",) + tuple(sorted((lab(p), lab(q)), key=repr))
            terms[k] = terms.get(k, 0.0) + v
        for k_, v in self.F.items():
            terms[("F", lab(k_))] = terms.get(("F", lab(k_)), 0.0) + v
        if self.c != 0.0:
            terms[("C",)] = self.c
        return tuple(sorted(((k, float("%.9e" % v)) for k, v in terms.items() if abs(v) > 1e-12), key=lambda kv: repr(kv[0])))

    def num(self, idx):
        """(A, a, alpha) numeric form with the registry index of canon.Index"""
        import numpy as np
        A = np.zeros((idx.n, idx.n))
        a = np.zeros(idx.m)
        for (p, q), v in self.G.items():
            i, j = idx.p(p), idx.p(q)
            A[i, j] += v / 2.0
            A[j, i] += v / 2.0
        for k, v in self.F.items():
            a[idx.e(k)] += v
        return A, a, self.c

    def value(self, pvals, evals):
        import numpy as np
        s = self.c
        for (p, q), v in self.G.items():
            s += v * float(np.dot(pvals[id(p)], pvals[id(q)]))
        for k, v in self.F.items():
            s += v * evals[id(k)]
        return s
