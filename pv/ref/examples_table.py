"""Table of the worked examples shipped in PEPit/examples, with admissible-parameter generators.

One entry per test method of tests/test_examples.py (class TestExamplesCVXPY; the Mosek class is the same list).

Entry fields
  name        test name without the leading 'test_'
  test        full test method name
  module      python module exporting the example
  func        attribute name of the example inside that module (several examples share a function name across modules)
  kind        documented/asserted relation between pepit_tau and theoretical_tau
                "tight": |pepit - theory| small          "upper": pepit <= theory
                "lower": theory <= pepit                 "none" : theoretical_tau is None / only compared to another run
  tol         "rel" : compare with a relative tolerance (tests use 1e-3 * theory)
              "abs" : the theoretical value is (or may be) 0 or negative; tests use an absolute tolerance of 5e-5
                      (use |theory| if a relative check is wanted for negative values)
  base        the exact keyword arguments pinned by tests/test_examples.py (first tuple when the test loops)
  bases       (optional) all pinned tuples when the test loops over several
  expected    (optional) hard-coded reference values asserted by the test: list of (kwargs, value)
  gen         function(rng: random.Random) -> kwargs inside the DOCUMENTED validity range of theoretical_tau
  range_doc   the range that was transcribed and where it comes from
  cost        "cheap" (< ~0.3 s), "medium" (< ~2 s), "heavy" (more) at the generated sizes with CLARABEL
  notes       anything noteworthy
  forwards_solver  (optional, False) the example ignores its wrapper/solver arguments (or does not have them)
  rtol_hint   (optional) relative tolerance to use instead of 1e-3 (the test itself is looser, or the reference table is
              rounded, or CLARABEL is known to be inaccurate on this SDP)
  gen_restricted (optional) generator limited to the sub-range where the formula is known to match, for the entries
              whose documented range is listed in SUSPECTS ("gen" keeps the documented range)
  gen_alt     (optional) generator of a second, also documented-looking, regime that is known to FAIL (see SUSPECTS)
  compare_to / monotone_in (optional) what the test compares pepit_tau with when there is no theoretical value

`call(entry, kwargs)` runs one example.  SUSPECTS (end of file) lists the cases where an example disagrees with
its own documented formula inside its documented range (found while validating this table with CLARABEL).
"""
import contextlib
import importlib
import inspect
import math

_U = "PEPit.examples.unconstrained_convex_minimization"
_C = "PEPit.examples.composite_convex_minimization"
_NC = "PEPit.examples.nonconvex_optimization"
_S = "PEPit.examples.stochastic_and_randomized_convex_minimization"
_MI = "PEPit.examples.monotone_inclusions_variational_inequalities"
_FP = "PEPit.examples.fixed_point_problems"
_PF = "PEPit.examples.potential_functions"
_AD = "PEPit.examples.adaptive_methods"
_LD = "PEPit.examples.low_dimensional_worst_cases_scenarios"
_IP = "PEPit.examples.inexact_proximal_methods"
_CT = "PEPit.examples.continuous_time_models"
_TU = "PEPit.examples.tutorials"


# ----------------------------------------------------------------------------------------------------------------
# elementary draws (only `rng`, plain python floats/ints)
# ----------------------------------------------------------------------------------------------------------------

def _logu(rng, lo, hi):
    return float(math.exp(rng.uniform(math.log(lo), math.log(hi))))


def _L(rng):
    """Smoothness-like positive constant; L != 1 most of the time."""
    r = rng.random()
    if r < 0.15:
        return 1.0
    if r < 0.30:
        return float(rng.choice([0.1, 0.5, 2.0, 3.0, 10.0]))
    return _logu(rng, 0.1, 10.0)


def _kappa(rng, lo=1e-3, hi=0.9):
    """mu / L, log-uniform on [lo, hi] with both end regimes over-represented."""
    r = rng.random()
    if r < 0.15:
        return _logu(rng, lo, min(hi, 10 * lo))
    if r < 0.30:
        return float(rng.uniform(0.7 * hi, hi))
    return _logu(rng, lo, hi)


def _unit(rng, closed_right=True, lo=1e-3):
    """A fraction u of a documented interval (0, 1] (or (0, 1) when closed_right is False); ends over-represented."""
    r = rng.random()
    if r < 0.2:
        return _logu(rng, lo, 0.05)
    if r < 0.4:
        return 1.0 if closed_right else float(1.0 - _logu(rng, 1e-3, 0.05))
    if r < 0.5:
        return float(1.0 - _logu(rng, 1e-3, 0.05))
    return float(rng.uniform(0.05, 0.95))


def _closed_unit(rng):
    """A number of [0, 1] with both ends hit exactly with non-negligible probability."""
    r = rng.random()
    if r < 0.15:
        return 0.0
    if r < 0.30:
        return 1.0
    return float(rng.uniform(0.0, 1.0))


def _eps(rng, hi_closed=False):
    """Relative inaccuracy in [0, 1) (or [0, 1])."""
    r = rng.random()
    if r < 0.15:
        return 0.0
    if r < 0.30:
        return 1.0 if hi_closed else float(1.0 - _logu(rng, 1e-2, 0.1))
    return float(rng.uniform(0.0, 0.95))


def _n(rng, lo, hi):
    return int(rng.randint(lo, hi))


def _pos(rng, lo=0.1, hi=10.0):
    return _logu(rng, lo, hi)


FLOOR = 1e-3


def _accept(rng, draw, value, floor=FLOOR, tries=50):
    """Redraw until the (dimensionless) theoretical value is >= floor.

    Numerical guard only: CLARABEL returns values with an absolute accuracy of about 1e-8..1e-7 on normalised
    problems, so a 1e-3 RELATIVE comparison is unreliable when the rate itself is below ~1e-3 (typically
    mu/L close to 1 together with several iterations).  The entries using it say so in "notes".
    """
    kw = draw(rng)
    for _ in range(tries):
        try:
            if value(kw) >= floor:
                return kw
        except (ZeroDivisionError, OverflowError, ValueError):
            pass
        kw = draw(rng)
    return kw


def _item_value(kw):
    q = kw["mu"] / kw["L"]
    A = 0.0
    for _ in range(kw["n"]):
        A = ((1 + q) * A + 2 * (1 + math.sqrt((1 + A) * (1 + q * A)))) / (1 - q) ** 2
    return 1 / (1 + q * A)


def _silver_sc_value(kw):
    L, mu, n = kw["L"], kw["mu"], kw["n"]
    tau = 1.0
    for g in [i for i in range(n.bit_length()) if n & (1 << i)]:
        z = mu / L
        for _ in range(g):
            eta = 1 - z
            z = z * (eta + math.sqrt(1 + eta ** 2))
        tau *= ((1 - z) / (1 + z)) ** 2
    return tau


def _inexact_rate(kw):
    eps = kw.get("epsilon", 0.0)
    Le, me = (1 + eps) * kw["L"], (1 - eps) * kw["mu"]
    return ((Le - me) / (Le + me)) ** (2 * kw["n"])


def _contraction_value(kw):
    return max((1 - kw["mu"] * kw["gamma"]) ** 2, (1 - kw["L"] * kw["gamma"]) ** 2) ** kw["n"]


def _quadratics_value(kw):
    L, mu, gamma, n = kw["L"], kw["mu"], kw["gamma"], kw["n"]
    alpha = min(1.0, max(mu / L, 1 / (L * gamma * (2 * n + 1))))
    return 0.5 * max(alpha * (1 - alpha * L * gamma) ** (2 * n), (1 - L * gamma) ** (2 * n))


def _lc_value(kw):
    n, kg = kw["n"], kw["mug"] / kw["Lg"]
    L = kw["Lg"] * kw["LM"] ** 2
    Lg = L * kw["gamma"]
    lo, hi = 0.0, 1.0 / (2 * n + 1)   # root of (1-(2n+1)x)(1-x)^(-2n-1) - 1 + kg on (0, 1/(2n+1))
    for _ in range(200):
        mid = 0.5 * (lo + hi)
        if (1 - (2 * n + 1) * mid) * (1 - mid) ** (-2 * n - 1) - 1 + kg > 0:
            lo = mid
        else:
            hi = mid
    M = min(1.0, max(kw["muM"] / kw["LM"], math.sqrt(lo / kg / Lg)))
    return 0.5 * max(kg * M ** 2 / (kg - 1 + (1 - kg * Lg * M ** 2) ** (-2 * n)), (1 - Lg) ** (2 * n))


# ----------------------------------------------------------------------------------------------------------------
# generators, in the order of tests/test_examples.py
# ----------------------------------------------------------------------------------------------------------------

def gen_optimized_gradient(rng):
    return {"L": _L(rng), "n": _n(rng, 1, 5)}


def gen_optimized_gradient_for_gradient(rng):
    return {"L": _L(rng), "n": _n(rng, 1, 5)}


def gen_epsilon_subgradient_method(rng):
    return {"M": _pos(rng, 0.2, 5.0), "n": _n(rng, 1, 4), "gamma": _logu(rng, 0.01, 3.0),
            "eps": float(rng.choice([0.0, rng.uniform(0.0, 2.0)])), "R": _pos(rng, 0.2, 5.0)}


def _draw_information_theoretic(rng):
    L = _L(rng)
    q = 0.0 if rng.random() < 0.1 else _kappa(rng)
    return {"mu": q * L, "L": L, "n": _n(rng, 1, 4)}


def gen_information_theoretic(rng):
    return _accept(rng, _draw_information_theoretic, _item_value)


def gen_gradient_descent(rng):
    L = _L(rng)
    return {"L": L, "gamma": _unit(rng) / L, "n": _n(rng, 1, 5)}


def _draw_gradient_descent_lc(rng):
    Lg = 1.0 if rng.random() < 0.2 else _logu(rng, 0.7, 2.0)
    LM = 1.0 if rng.random() < 0.2 else _logu(rng, 0.8, 1.25)
    typeM = rng.choice(["gen", "sym", "skew"])
    muM = 0.0
    if typeM == "sym" and rng.random() < 0.7:
        muM = float(rng.uniform(0.0, 0.9)) * LM
    mug = _kappa(rng, 1e-2, 0.9) * Lg
    gamma = 2.0 * _unit(rng) / (Lg * LM ** 2)
    return {"mug": mug, "Lg": Lg, "typeM": typeM, "muM": muM, "LM": LM, "gamma": gamma, "n": _n(rng, 1, 3)}


def gen_gradient_descent_lc(rng):
    return _accept(rng, _draw_gradient_descent_lc, _lc_value, floor=1e-3)


def _draw_gradient_descent_quadratics(rng):
    L = _L(rng)
    q = 0.0 if rng.random() < 0.15 else _kappa(rng)
    return {"mu": q * L, "L": L, "gamma": 2.0 * _unit(rng) / L, "n": _n(rng, 1, 4)}


def gen_gradient_descent_quadratics(rng):
    return _accept(rng, _draw_gradient_descent_quadratics, _quadratics_value)


def gen_gradient_descent_silver_stepsize_convex(rng):
    # any n is admissible: the docstring says it is reset to the largest 2^k - 1 not larger than the input
    n = int(rng.choice([1, 3, 7])) if rng.random() < 0.4 else _n(rng, 2, 9)
    return {"L": _L(rng), "n": n}


def _draw_silver_sc(rng):
    L = _L(rng)
    return {"L": L, "mu": _kappa(rng) * L, "n": _n(rng, 1, 8)}


def gen_gradient_descent_silver_stepsize_strongly_convex(rng):
    return _accept(rng, _draw_silver_sc, _silver_sc_value)


def gen_cyclic_coordinate_descent_one_block(rng):
    return {"L": [_L(rng)], "n": _n(rng, 1, 5)}


def gen_cyclic_coordinate_descent(rng):
    d = _n(rng, 2, 3)
    return {"L": [_L(rng) for _ in range(d)], "n": _n(rng, 1, 6)}


def gen_gradient_descent_qg_convex(rng):
    L = _L(rng)
    return {"L": L, "gamma": _unit(rng, closed_right=False) / L, "n": _n(rng, 1, 5)}


def gen_gradient_descent_qg_convex_decreasing(rng):
    return {"L": _L(rng), "n": _n(rng, 1, 5)}


def _draw_gradient_exact_line_search(rng):
    L = _L(rng)
    return {"L": L, "mu": _kappa(rng) * L, "n": _n(rng, 1, 3)}


def gen_gradient_exact_line_search(rng):
    return _accept(rng, _draw_gradient_exact_line_search, _inexact_rate)


def gen_subgradient_method(rng):
    M = _pos(rng, 0.2, 5.0)
    n = _n(rng, 1, 6)
    return {"M": M, "n": n, "gamma": 1.0 / (M * math.sqrt(n + 1))}


def _draw_subgradient_method_rsi_eb(rng):
    L = _L(rng)
    mu = _kappa(rng, 1e-2, 0.95) * L
    u = _unit(rng) if rng.random() < 0.85 else float(rng.uniform(1.0, 2.0))
    return {"mu": mu, "L": L, "gamma": u * 2.0 * mu / L ** 2, "n": _n(rng, 1, 4)}


def gen_subgradient_method_rsi_eb(rng):
    return _accept(rng, _draw_subgradient_method_rsi_eb,
                   lambda kw: (1 - 2 * kw["gamma"] * kw["mu"] + (kw["gamma"] * kw["L"]) ** 2) ** kw["n"])


def gen_conjugate_gradient(rng):
    return {"L": _L(rng), "n": _n(rng, 1, 3)}


def gen_conjugate_gradient_qg_convex(rng):
    return {"L": _L(rng), "n": _n(rng, 1, 4)}


def _draw_inexact_gradient_exact_line_search(rng):
    L = _L(rng)
    return {"L": L, "mu": _kappa(rng) * L, "epsilon": _eps(rng), "n": _n(rng, 1, 3)}


def gen_inexact_gradient_exact_line_search(rng):
    return _accept(rng, _draw_inexact_gradient_exact_line_search, _inexact_rate)


def _draw_inexact_gradient_descent(rng):
    L = _L(rng)
    return {"L": L, "mu": _kappa(rng) * L, "epsilon": _eps(rng), "n": _n(rng, 1, 3)}


def gen_inexact_gradient_descent(rng):
    return _accept(rng, _draw_inexact_gradient_descent, _inexact_rate)


def gen_proximal_point(rng):
    return {"gamma": _logu(rng, 0.05, 20.0), "n": _n(rng, 1, 5)}


def gen_optimized_gradient_method(rng):
    return {"L": _L(rng), "n": _n(rng, 1, 4)}


def _draw_inexact_gradient(rng):
    L = _L(rng)
    return {"L": L, "mu": _kappa(rng) * L, "epsilon": _eps(rng, hi_closed=True), "n": _n(rng, 1, 2)}


def gen_inexact_gradient(rng):
    return _accept(rng, _draw_inexact_gradient, _inexact_rate)


def gen_frank_wolfe_low_dim(rng):
    return {"L": _L(rng), "D": _pos(rng, 0.2, 5.0), "n": _n(rng, 1, 4)}


def gen_proximal_point_low_dim(rng):
    return {"alpha": _logu(rng, 0.05, 20.0), "n": _n(rng, 1, 5)}


def gen_halpern_iteration_low_dim(rng):
    return {"n": _n(rng, 1, 6)}


def gen_gradient_descent_non_convex_low_dim(rng):
    L = _L(rng)
    return {"L": L, "gamma": _unit(rng) / L, "n": _n(rng, 1, 4)}


def gen_alternate_projections_low_dim(rng):
    return {"n": _n(rng, 1, 5)}


def gen_averaged_projections_low_dim(rng):
    return {"n": _n(rng, 1, 5)}


def gen_dykstra_low_dim(rng):
    return {"n": _n(rng, 1, 5)}


def gen_inexact_accelerated_gradient_1(rng):
    return {"L": _L(rng), "epsilon": 0.0, "n": _n(rng, 1, 5)}


def gen_inexact_accelerated_gradient_2(rng):
    return {"L": _L(rng), "epsilon": _logu(rng, 1e-3, 0.05), "n": _n(rng, 1, 5)}


def gen_inexact_accelerated_gradient_3(rng):
    eps = 1.0 if rng.random() < 0.15 else float(rng.uniform(0.05, 1.0))
    return {"L": _L(rng), "epsilon": eps, "n": _n(rng, 1, 5)}


def gen_heavy_ball_momentum(rng):
    L = _L(rng)
    mu = _kappa(rng) * L
    alpha = _unit(rng) / L
    beta = math.sqrt(max(0.0, (1 - alpha * mu) * (1 - L * alpha)))
    return {"mu": mu, "L": L, "alpha": alpha, "beta": beta, "n": _n(rng, 1, 4)}


def gen_heavy_ball_momentum_qg_convex(rng):
    return {"L": _L(rng), "n": _n(rng, 1, 5)}


def gen_accelerated_proximal_point(rng):
    n = _n(rng, 1, 4)
    if rng.random() < 0.3:
        g = _pos(rng)
        gammas = [g for _ in range(n)]
    else:
        gammas = [_pos(rng) for _ in range(n)]
    if rng.random() < 0.3:
        gammas = gammas + [_pos(rng) for _ in range(rng.randint(1, 2))]     # a longer schedule: n steps use its first n entries
    return {"A0": _pos(rng), "gammas": gammas, "n": n}


def _draw_triple_momentum(rng):
    L = _L(rng)
    return {"mu": _kappa(rng) * L, "L": L, "n": _n(rng, 1, 4)}


def gen_triple_momentum(rng):
    return _accept(rng, _draw_triple_momentum,
                   lambda kw: (1 - math.sqrt(kw["mu"] / kw["L"])) ** (2 * kw["n"]) * kw["L"] / kw["mu"] / 2)


def gen_robust_momentum(rng):
    L = _L(rng)
    return {"mu": _kappa(rng) * L, "L": L, "lam": _closed_unit(rng)}


def gen_accelerated_gradient_convex(rng):
    return {"mu": 0, "L": _L(rng), "n": _n(rng, 1, 5)}


def gen_accelerated_gradient_strongly_convex(rng):
    L = _L(rng)
    return {"mu": _kappa(rng) * L, "L": L, "n": _n(rng, 1, 5)}


def gen_accelerated_proximal_gradient_method(rng):
    return {"mu": 0, "L": _L(rng), "n": _n(rng, 1, 5)}


def gen_accelerated_douglas_rachford_splitting(rng):
    L = _L(rng)
    return {"mu": _kappa(rng) * L, "L": L, "alpha": _unit(rng, closed_right=False, lo=1e-2) / L, "n": _n(rng, 1, 4)}


def gen_bregman_proximal_point_method(rng):
    return {"gamma": _pos(rng), "n": _n(rng, 1, 4)}


def gen_conditional_gradient_frank_wolfe(rng):
    return {"L": _L(rng), "D": _pos(rng, 0.2, 5.0), "n": _n(rng, 1, 5)}


def gen_douglas_rachford_splitting_contraction(rng):
    L = _L(rng)
    # theta is a free parameter of the scheme; the closed form is documented for theta = 1 only (theory is None otherwise)
    theta = 1 if rng.random() < 0.6 else float(rng.uniform(0.2, 1.8))
    return {"mu": _kappa(rng) * L, "L": L, "alpha": _logu(rng, 0.05, 20.0) / L, "theta": theta, "n": _n(rng, 1, 3)}


def gen_douglas_rachford_splitting(rng):
    return {"L": 1, "alpha": 1, "theta": 1, "n": _n(rng, 1, 10)}


def gen_improved_interior_algorithm(rng):
    L = _L(rng)
    mu = 1.0 if rng.random() < 0.5 else float(rng.uniform(1.0, 5.0))
    return {"L": L, "mu": mu, "c": _pos(rng), "lam": 1 / L, "n": _n(rng, 1, 4)}


def gen_improved_interior_algorithm_lam_sigma_over_L(rng):
    """[1, Thm 5.2] setting lam = mu / L with any mu > 0: the returned formula (no mu) fails for mu < 1."""
    L = _L(rng)
    mu = _pos(rng, 0.2, 5.0)
    return {"L": L, "mu": mu, "c": _pos(rng), "lam": mu / L, "n": _n(rng, 1, 4)}


def gen_no_lips_in_bregman_divergence(rng):
    L = _L(rng)
    return {"L": L, "gamma": _unit(rng) / L, "n": _n(rng, 2, 4)}


def gen_no_lips_in_function_value(rng):
    L = _L(rng)
    return {"L": L, "gamma": _unit(rng) / L, "n": _n(rng, 1, 4)}


def _draw_proximal_gradient(rng):
    L = _L(rng)
    u = 2.0 * _unit(rng) if rng.random() < 0.85 else float(rng.uniform(2.0, 3.0))
    return {"L": L, "mu": _kappa(rng) * L, "gamma": u / L, "n": _n(rng, 1, 3)}


def gen_proximal_gradient(rng):
    return _accept(rng, _draw_proximal_gradient, _contraction_value)


def _draw_proximal_gradient_quadratics(rng):
    L = _L(rng)
    u = 2.0 * _unit(rng) if rng.random() < 0.85 else float(rng.uniform(2.0, 3.0))
    return {"L": L, "mu": _kappa(rng) * L, "gamma": u / L, "n": _n(rng, 1, 3)}


def gen_proximal_gradient_quadratics(rng):
    return _accept(rng, _draw_proximal_gradient_quadratics, _contraction_value)


def gen_three_operator_splitting(rng):
    L1 = _L(rng)
    return {"mu1": _kappa(rng) * L1, "L1": L1, "L3": _L(rng), "alpha": _logu(rng, 0.1, 3.0),
            "theta": float(rng.uniform(0.1, 1.9)), "n": _n(rng, 1, 2)}


def gen_gradient_descent_non_convex(rng):
    L = _L(rng)
    return {"L": L, "gamma": _unit(rng) / L, "n": _n(rng, 1, 5)}


def gen_gradient_descent_non_convex_restricted(rng):
    """gamma = 1/L only: the only step size at which 4L/(3n) is the worst case."""
    L = _L(rng)
    return {"L": L, "gamma": 1 / L, "n": _n(rng, 1, 5)}


def gen_no_lips_1(rng):
    L = _L(rng)
    u = 0.5 if rng.random() < 0.4 else _unit(rng, closed_right=False)
    return {"L": L, "gamma": u / L, "n": _n(rng, 1, 4)}


def gen_no_lips_2(rng):
    L = _L(rng)
    u = 0.5 if rng.random() < 0.4 else _unit(rng)
    return {"L": L, "gamma": u / L, "n": _n(rng, 1, 4)}


def gen_saga(rng):
    L = _L(rng)
    return {"L": L, "mu": _kappa(rng) * L, "n": _n(rng, 1, 4)}


def gen_sgd(rng):
    L = _L(rng)
    v = 0.0 if rng.random() < 0.15 else _logu(rng, 0.05, 5.0)
    return {"L": L, "mu": _kappa(rng) * L, "gamma": 1 / L, "v": v, "R": _pos(rng, 0.2, 5.0), "n": _n(rng, 2, 4)}


def gen_sgd_overparametrized(rng):
    L = _L(rng)
    return {"L": L, "mu": _kappa(rng) * L, "gamma": 1 / L, "n": _n(rng, 1, 4)}


def gen_point_saga(rng):
    L = _L(rng)
    return {"L": L, "mu": _kappa(rng) * L, "n": _n(rng, 1, 5)}


def gen_randomized_coordinate(rng):
    L = _L(rng)
    return {"L": L, "gamma": _unit(rng) / L, "d": _n(rng, 1, 4), "t": _n(rng, 1, 10)}


def gen_randomized_coordinate_strongly_convex(rng):
    L = _L(rng)
    return {"L": L, "mu": _kappa(rng) * L, "gamma": _unit(rng) / L, "d": _n(rng, 1, 4)}


def gen_accelerated_proximal_point_operators(rng):
    return {"alpha": _logu(rng, 0.05, 20.0), "n": _n(rng, 1, 6)}


def gen_proximal_point_method_operators(rng):
    return {"alpha": _logu(rng, 0.05, 20.0), "n": _n(rng, 1, 6)}


def gen_wc_optimal_strongly_monotone_proximal_point_operators(rng):
    return _accept(rng, lambda r: {"n": _n(r, 1, 4), "mu": _logu(r, 1e-3, 2.0)},
                   lambda kw: (2 * kw["mu"] / ((1 + 2 * kw["mu"]) ** kw["n"] - 1)) ** 2)


def gen_douglas_rachford_splitting_operators(rng):
    return {"L": _logu(rng, 0.2, 5.0), "mu": _logu(rng, 0.05, 3.0), "alpha": _logu(rng, 0.2, 3.0),
            "theta": float(rng.uniform(0.05, 1.95))}


def gen_three_operator_splitting_operators(rng):
    L = _L(rng)
    return {"L": L, "mu": _kappa(rng) * L, "beta": _pos(rng, 0.2, 5.0), "alpha": _logu(rng, 0.1, 2.0),
            "theta": float(rng.uniform(0.1, 1.9))}


def gen_optimistic_gradient(rng):
    L = _L(rng)
    return {"n": _n(rng, 1, 5), "gamma": float(rng.uniform(0.05, 0.5)) / L, "L": L}


def gen_past_extragradient(rng):
    L = _L(rng)
    return {"n": _n(rng, 1, 5), "gamma": float(rng.uniform(0.05, 0.5)) / L, "L": L}


def gen_halpern_iteration(rng):
    return {"n": _n(rng, 1, 8)}


def gen_krasnoselskii_mann_constant_step_sizes(rng):
    n = _n(rng, 1, 6)
    r = rng.random()
    if r < 0.15:
        gamma = 0.5
    elif r < 0.30:
        gamma = 1.0
    elif r < 0.45:  # around the switching point of the two regimes
        gamma = min(1.0, max(0.5, 0.5 * (1 + math.sqrt(n / (n + 1))) + rng.uniform(-0.02, 0.02)))
    else:
        gamma = float(rng.uniform(0.5, 1.0))
    return {"n": n, "gamma": float(gamma)}


def gen_krasnoselskii_mann_increasing_step_sizes(rng):
    return {"n": _n(rng, 1, 8)}


def gen_wc_inconsistent_halpern_iteration(rng):
    return {"n": _n(rng, 1, 6)}


def _draw_oc_halpern(rng):
    r = rng.random()
    if r < 0.25:
        gamma = 1.0 + _logu(rng, 1e-3, 0.1)
    else:
        gamma = float(rng.uniform(1.05, 3.0))
    return {"n": _n(rng, 1, 5), "gamma": gamma}


def gen_wc_optimal_contractive_halpern_iteration(rng):
    return _accept(rng, _draw_oc_halpern, lambda kw: (1 + 1 / kw["gamma"]) ** 2 * (
        (kw["gamma"] - 1) / (kw["gamma"] ** (kw["n"] + 1) - 1)) ** 2)


def gen_gradient_descent_lyapunov_1(rng):
    L = _L(rng)
    return {"L": L, "gamma": 1 / L, "n": _n(rng, 0, 10)}


def gen_gradient_descent_lyapunov_2(rng):
    L = _L(rng)
    return {"L": L, "gamma": 1 / L, "n": _n(rng, 0, 10)}


def gen_accelerated_gradient_method(rng):
    L = _L(rng)
    lam = 0.0 if rng.random() < 0.1 else _logu(rng, 0.1, 20.0)
    return {"L": L, "gamma": 1 / L, "lam": lam}


def gen_polyak_steps_in_distance_to_optimum(rng):
    L = _L(rng)
    mu = _kappa(rng) * L
    r = rng.random()
    if r < 0.7:
        u = float(rng.uniform(0.02, 0.98))
    elif r < 0.9:
        u = float(rng.choice([0.02, 0.05, 0.95, 0.98]))
    else:
        u = float(rng.choice([0.0, 1.0]))  # exact ends: theoretical value 0
    return {"L": L, "mu": mu, "gamma": 1 / L + u * (1 / mu - 1 / L)}


def gen_polyak_steps_in_function_value(rng):
    L = _L(rng)
    mu = _kappa(rng) * L
    r = rng.random()
    if r < 0.7:
        u = float(rng.uniform(0.02, 0.98))
    elif r < 0.9:
        u = float(rng.choice([0.02, 0.05, 0.95, 0.98]))
    else:
        u = float(rng.choice([0.0, 1.0]))  # exact ends: theoretical value 0
    return {"L": L, "mu": mu, "gamma": 1 / L + u * ((2 * L - mu) / L ** 2 - 1 / L)}


def gen_accelerated_inexact_forward_backward(rng):
    r = rng.random()
    if r < 0.2:
        zeta = _logu(rng, 1e-3, 0.05)
    elif r < 0.4:
        zeta = float(1 - _logu(rng, 1e-2, 0.1))
    else:
        zeta = float(rng.uniform(0.05, 0.9))
    return {"L": _L(rng), "zeta": zeta, "n": _n(rng, 1, 4)}


def gen_partially_inexact_douglas_rachford_splitting(rng):
    L = _L(rng)
    sigma = 0.0 if rng.random() < 0.15 else float(rng.uniform(0.0, 0.9))
    return {"mu": _kappa(rng) * L, "L": L, "n": _n(rng, 1, 3), "gamma": _logu(rng, 0.1, 10.0) / L, "sigma": sigma}


def gen_relatively_inexact_proximal_point_algorithm(rng):
    return {"n": _n(rng, 1, 4), "gamma": _logu(rng, 0.1, 10.0), "sigma": _eps(rng, hi_closed=True)}


def gen_accelerated_gradient_flow_convex(rng):
    return {"t": _logu(rng, 0.05, 20.0)}


def gen_gradient_flow_convex(rng):
    return {"t": _logu(rng, 0.05, 20.0)}


def gen_accelerated_gradient_flow_strongly_convex(rng):
    return {"mu": _logu(rng, 1e-2, 10.0), "psd": bool(rng.random() < 0.5)}


def gen_gradient_flow_strongly_convex(rng):
    return {"mu": _logu(rng, 1e-2, 10.0)}


def _draw_gradient_descent_contraction(rng):
    L = _L(rng)
    u = 2.0 * _unit(rng) if rng.random() < 0.85 else float(rng.uniform(2.0, 3.0))
    return {"L": L, "mu": _kappa(rng) * L, "gamma": u / L, "n": _n(rng, 1, 4)}


def gen_gradient_descent_contraction(rng):
    return _accept(rng, _draw_gradient_descent_contraction, _contraction_value)


# ----------------------------------------------------------------------------------------------------------------
# the table
# ----------------------------------------------------------------------------------------------------------------

def _E(name, module, func, kind, base, gen, range_doc, cost, notes="", tol="rel", test=None, **extra):
    e = {"name": name, "test": test or ("test_" + name), "module": module, "func": func, "kind": kind, "tol": tol,
         "base": base, "gen": gen, "range_doc": range_doc, "cost": cost, "notes": notes}
    e.update(extra)
    return e


_SQ = math.sqrt
_FL = "gen redraws when the (dimensionless) theoretical value is below 1e-3: numerical guard only, see _accept"

EXAMPLES = [
    _E("optimized_gradient", _U, "wc_optimized_gradient", "tight",
       {"L": 3, "n": 4}, gen_optimized_gradient,
       "L > 0, n >= 1 (docstring: L-smooth convex; tight by [2, Thm 2]/[3, Thm 3])", "cheap"),
    _E("optimized_gradient_for_gradient", _U, "wc_optimized_gradient_for_gradient", "tight",
       {"L": 3, "n": 4}, gen_optimized_gradient_for_gradient,
       "L > 0, n >= 1 (docstring: tight, [1, Thm 6.1])", "cheap"),
    _E("epsilon_subgradient_method", _U, "wc_epsilon_subgradient_method", "upper",
       {"M": 2, "n": 6, "gamma": 1 / _SQ(6 + 1), "eps": 2, "R": 1}, gen_epsilon_subgradient_method,
       "M > 0, gamma > 0, eps >= 0, R > 0, n >= 1 (docstring: upper bound of [1, Lemma 2], no restriction stated)",
       "medium", "the test asserts wc <= theory without tolerance"),
    _E("information_theoretic", _U, "wc_information_theoretic", "tight",
       {"mu": .01, "L": 3, "n": 3}, gen_information_theoretic,
       "0 <= mu < L ('mu is possibly 0'), n >= 1 (docstring: tight, [1, Thm 3])", "cheap",
       "mu = 0 gives theory = 1 (q = 0); mu = L divides by zero in the A_t recursion; " + _FL),
    _E("gradient_descent", _U, "wc_gradient_descent", "tight",
       {"L": 3, "gamma": 1 / 3, "n": 4}, gen_gradient_descent,
       "gamma in (0, 1/L], L > 0, n >= 1 (docstring: 'When gamma <= 1/L, the tight theoretical guarantee')", "cheap",
       "formula L/(4 n L gamma + 2) is not valid for gamma > 1/L"),
    _E("gradient_descent_lc", _U, "wc_gradient_descent_lc", "tight",
       {"mug": .3, "Lg": 3, "typeM": "gen", "muM": 0.1, "LM": 1., "gamma": 1 / (3 * 1. ** 2), "n": 3},
       gen_gradient_descent_lc,
       "gamma in (0, 2/L] with L = Lg*LM^2, 0 < mug <= Lg, 0 <= muM <= LM, muM = 0 unless typeM == 'sym' "
       "(docstring, conjecture [1, Conj. 4.2])", "medium",
       "No wrapper/solver argument and problem.solve() is called without solver: always the default (SCS here) unless "
       "call(..., force_solver=True). The test tolerance is 2e-3 relative. The test pins muM=0.1 also for 'gen' and "
       "'skew' although the docstring says muM must be 0 there (the class ignores it, the formula uses it only "
       "through the projection of M*). mug = 0 (documented as admissible) raises ZeroDivisionError (h0 = x / "
       "kappa_g), see SUSPECTS. The formula relies on scipy fsolve started at 0.5. RESTRICTED FOR NUMERICAL REASONS: "
       "gen keeps Lg in [0.7, 2], LM in [0.8, 1.25] and redraws when the theoretical value is below 1e-3 L. CLARABEL "
       "often returns 'optimal_inaccurate' on this SDP: with Lg LM^2 ~ 0.1 pepit_tau is off by up to 0.7%, with "
       "Lg LM^2 ~ 1.9 by 2.2e-3 and in rare cases by 6e-3, while the rescaled problem (Lg = LM = 1, gamma L fixed) "
       "agrees to 3.5e-4; inside the gen range pepit_tau exceeds theoretical_tau by 1e-5..1.2e-3 (always in excess; "
       "see SUSPECTS) and CLARABEL raises SolverError for ~1 draw in 15; hence rtol_hint.", rtol_hint=3e-3,
       bases=[{"mug": .3, "Lg": 3, "typeM": t, "muM": 0.1, "LM": 1., "gamma": 1 / 3, "n": 3}
              for t in ("gen", "sym", "skew")],
       forwards_solver=False),
    _E("gradient_descent_quadratics", _U, "wc_gradient_descent_quadratics", "tight",
       {"mu": .3, "L": 3, "gamma": 1 / 3, "n": 4}, gen_gradient_descent_quadratics,
       "gamma in (0, 2/L], 0 <= mu <= L (docstring: tight conjecture [1, Eq. (4.17)])", "cheap",
       "Accepts wrapper/solver but calls problem.solve(verbose=...) without them: always the default solver (SCS "
       "here) unless call(..., force_solver=True). " + _FL, forwards_solver=False),
    _E("gradient_descent_silver_stepsize_convex", _U, "wc_gradient_descent_silver_stepsize_convex", "upper",
       {"L": 2.8, "n": 2}, gen_gradient_descent_silver_stepsize_convex,
       "L > 0, n = 2^k - 1 (other n are reset, with a warning, to the largest 2^k - 1 below) (docstring, [1, Thm 1.1])",
       "cheap", "The pinned n=2 is reset to n=1. The test has no wrapper argument (default cvxpy)."),
    _E("gradient_descent_silver_stepsize_strongly_convex", _U, "wc_gradient_descent_silver_stepsize_strongly_convex",
       "tight", {"L": 3.2, "mu": .1, "n": 17}, gen_gradient_descent_silver_stepsize_strongly_convex,
       "0 < mu < L, n >= 1 (n not a power of 2 is decomposed in powers of 2, with a warning) (docstring + code)",
       "medium",
       "The docstring states exponential bounds of [1, Thm 4.1]; the returned theoretical_tau is instead the product "
       "of ((1 - z)/(1 + z))^2 over the glued blocks, which the test asserts to be tight (n = 17 = 16 + 1). "
       + _FL),
    _E("cyclic_coordinate_descent_one_block", _U, "wc_cyclic_coordinate_descent", "none",
       {"L": [1.], "n": 9}, gen_cyclic_coordinate_descent_one_block,
       "L list of positive floats (one per block), n >= 1 (docstring)", "cheap",
       "theoretical_tau is None; the test compares with wc_gradient_descent(L, 1/L, n) (relative 1e-3)",
       compare_to={"name": "gradient_descent", "map": "L=L[0], gamma=1/L[0], n=n"}),
    _E("cyclic_coordinate_descent", _U, "wc_cyclic_coordinate_descent", "none",
       {"L": [1., 2., 10.], "n": 9}, gen_cyclic_coordinate_descent,
       "L list of positive floats (one per block), n >= 1 (docstring)", "cheap",
       "theoretical_tau is None; the test pins the value 1.48928",
       expected=[({"L": [1., 2., 10.], "n": 9}, 1.48928)]),
    _E("gradient_descent_qg_convex", _U, "wc_gradient_descent_qg_convex", "tight",
       {"L": 1, "gamma": .1, "n": 4}, gen_gradient_descent_qg_convex,
       "gamma in (0, 1/L) (docstring: 'When gamma < 1/L, the lower theoretical guarantee', [1, Thm 2.2])", "cheap",
       "The docstring calls the value a 'lower' guarantee; the test asserts equality."),
    _E("gradient_descent_qg_convex_decreasing", _U, "wc_gradient_descent_qg_convex_decreasing", "tight",
       {"L": 1, "n": 4}, gen_gradient_descent_qg_convex_decreasing,
       "L > 0, n >= 1 (docstring: tight, conjectured [1, Conj. A.3])", "cheap"),
    _E("gradient_exact_line_search", _U, "wc_gradient_exact_line_search", "tight",
       {"L": 3, "mu": .1, "n": 1}, gen_gradient_exact_line_search,
       "0 < mu < L, n >= 1 (docstring: tight, [1, Thm 1.2])", "cheap", _FL),
    _E("subgradient_method", _U, "wc_subgradient_method", "tight",
       {"M": 2, "n": 10, "gamma": 1 / (_SQ(10 + 1) * 2)}, gen_subgradient_method,
       "M > 0, n >= 1, gamma = 1/(M sqrt(n+1)) (IMPLICIT: the docstring states no condition on gamma, but the value "
       "M/sqrt(n+1) of [1, Sec. 3.2.3] / [2, Eq. (2)] is the bound for that step size with R = 1)", "medium",
       "RESTRICTED: gen only draws the optimal step size. For any other gamma the returned theoretical_tau does not "
       "depend on gamma and is not the worst case (see SUSPECTS)."),
    _E("subgradient_method_rsi_eb", _U, "wc_subgradient_method_rsi_eb", "tight",
       {"mu": .1, "L": 1, "gamma": .1, "n": 4}, gen_subgradient_method_rsi_eb,
       "0 < mu <= L, gamma > 0 (docstring gives no range for gamma; gen draws gamma in (0, 2 mu / L^2] where the "
       "rate 1 - 2 gamma mu + L^2 gamma^2 is <= 1 and, with probability 0.15, up to twice that), n >= 1", "cheap",
       _FL),
    _E("conjugate_gradient", _U, "wc_conjugate_gradient", "tight",
       {"L": 3, "n": 2}, gen_conjugate_gradient, "L > 0, n >= 1 (docstring: tight, [1], [2, Thm 3])", "medium"),
    _E("conjugate_gradient_qg_convex", _U, "wc_conjugate_gradient_qg_convex", "tight",
       {"L": 3.5, "n": 12}, gen_conjugate_gradient_qg_convex,
       "L > 0, n >= 1 (docstring: tight, [2, Thm 2.3/2.4])", "medium"),
    _E("inexact_gradient_exact_line_search", _U, "wc_inexact_gradient_exact_line_search", "tight",
       {"L": 3, "mu": .1, "epsilon": .1, "n": 2}, gen_inexact_gradient_exact_line_search,
       "0 < mu < L, epsilon in [0, 1) (docstring: 'with 0 <= epsilon < 1'; tight [1, Thm 5.1]), n >= 1", "cheap",
       _FL),
    _E("inexact_gradient_descent", _U, "wc_inexact_gradient_descent", "tight",
       {"L": 3, "mu": .1, "epsilon": .1, "n": 2}, gen_inexact_gradient_descent,
       "0 < mu < L, epsilon in [0, 1) (range of epsilon not stated in this docstring; taken from the twin examples "
       "and [1, Thm 5.3]), n >= 1", "cheap", _FL),
    _E("proximal_point", _U, "wc_proximal_point", "tight",
       {"gamma": .1, "n": 3}, gen_proximal_point, "gamma > 0, n >= 1 (docstring: tight, [1, Thm 4.1])", "cheap"),
    _E("optimized_gradient_method", _LD, "wc_optimized_gradient", "tight",
       {"L": 3, "n": 4}, gen_optimized_gradient_method,
       "L > 0, n >= 1 (docstring: tight, [2, Thm 2])", "cheap",
       "low-dimensional variant: dimension_reduction_heuristic='trace' (second solve; returned value is that of the "
       "first solve)"),
    _E("inexact_gradient", _LD, "wc_inexact_gradient", "tight",
       {"L": 3, "mu": .1, "epsilon": .1, "n": 2}, gen_inexact_gradient,
       "0 < mu < L, epsilon in [0, 1] (docstring: 'with 0 <= epsilon <= 1'; tight [1, Thm 5.3]), n >= 1", "medium",
       "low-dimensional variant: 'logdet10' heuristic (10 extra solves). CLARABEL raises SolverError inside the "
       "heuristic solves for roughly one draw out of three (any n). " + _FL),
    _E("frank_wolfe_low_dim", _LD, "wc_frank_wolfe", "upper",
       {"L": 1., "D": 1., "n": 10}, gen_frank_wolfe_low_dim,
       "L > 0, D > 0, n >= 1 (docstring: upper, [2, Thm 1])", "medium",
       "low-dimensional variant: 'logdet6' heuristic; CLARABEL raises SolverError inside the heuristic solves for "
       "roughly one draw out of four (any n); the pinned n = 10 takes ~10 s"),
    _E("proximal_point_low_dim", _LD, "wc_proximal_point", "tight",
       {"alpha": 2.2, "n": 11}, gen_proximal_point_low_dim,
       "alpha > 0, n >= 1 (docstring: tight, [1, Sec. 4])", "cheap", "low-dimensional variant: 'trace' heuristic"),
    _E("halpern_iteration_low_dim", _LD, "wc_halpern_iteration", "tight",
       {"n": 15}, gen_halpern_iteration_low_dim, "n >= 1 (docstring: tight, [1, Thm 2.1])", "medium",
       "low-dimensional variant: 'logdet3' heuristic, tol_dimension_reduction=1e-5; test tolerance is 2e-3 relative"),
    _E("gradient_descent_non_convex_low_dim", _LD, "wc_gradient_descent", "tight",
       {"L": 1, "gamma": 1, "n": 5}, gen_gradient_descent_non_convex_low_dim,
       "gamma in (0, 1/L] (docstring: 'When gamma <= 1/L, an empirically tight ... 4/3 L/n')", "medium",
       "low-dimensional variant: 'logdet2' heuristic (occasional CLARABEL SolverError). The formula 4L/(3n) does "
       "not depend on gamma and only matches at gamma = 1/L (see SUSPECTS); gen keeps the documented range, "
       "gen_restricted draws gamma = 1/L only.", gen_restricted=gen_gradient_descent_non_convex_restricted),
    _E("alternate_projections_low_dim", _LD, "wc_alternate_projections", "none",
       {"n": 9}, gen_alternate_projections_low_dim, "n >= 1 (docstring)", "medium",
       "theoretical_tau is None; the test checks wc(n=10) <= wc(n=9). 'logdet1' heuristic: CLARABEL raises "
       "SolverError at both pinned sizes (n = 9, 10) and sometimes at smaller n.",
       bases=[{"n": 9}, {"n": 10}], monotone_in="n"),
    _E("averaged_projections_low_dim", _LD, "wc_averaged_projections", "none",
       {"n": 10}, gen_averaged_projections_low_dim, "n >= 1 (docstring)", "medium",
       "theoretical_tau is None; the test checks wc(n=11) <= wc(n=10). 'logdet1' heuristic: CLARABEL raises "
       "SolverError at the pinned n = 11.",
       bases=[{"n": 10}, {"n": 11}], monotone_in="n"),
    _E("dykstra_low_dim", _LD, "wc_dykstra", "none",
       {"n": 8}, gen_dykstra_low_dim, "n >= 1 (docstring)", "medium",
       "theoretical_tau is None; the test checks wc(n=10) <= wc(n=8). 'logdet1' heuristic.",
       bases=[{"n": 8}, {"n": 10}], monotone_in="n"),
    _E("inexact_accelerated_gradient_1", _U, "wc_inexact_accelerated_gradient", "tight",
       {"L": 3, "epsilon": 0, "n": 5}, gen_inexact_accelerated_gradient_1,
       "epsilon = 0 (docstring: 'When epsilon=0, a tight empirical guarantee'), L > 0, n >= 1", "cheap",
       "the test uses a relaxed relative tolerance 1e-2 ('ill conditioning of this specific SDP (no Slater point)'); "
       "with CLARABEL the relative error reaches 1.1e-3 (L = 0.1, n = 5)", rtol_hint=1e-2),
    _E("inexact_accelerated_gradient_2", _U, "wc_inexact_accelerated_gradient", "lower",
       {"L": 2, "epsilon": .01, "n": 5}, gen_inexact_accelerated_gradient_2,
       "epsilon in (0, 0.05] (docstring: 0 <= epsilon <= 1; small-epsilon regime), L > 0, n >= 1", "cheap",
       "for epsilon > 0 the returned value (exact-gradient rate) is only a LOWER bound on pepit_tau: the test asserts "
       "theory <= wc (1 + 1e-3)"),
    _E("inexact_accelerated_gradient_3", _U, "wc_inexact_accelerated_gradient", "lower",
       {"L": 2, "epsilon": .1, "n": 5}, gen_inexact_accelerated_gradient_3,
       "epsilon in [0.05, 1] (docstring: 0 <= epsilon <= 1), L > 0, n >= 1", "cheap",
       "same as _2, larger epsilon; at epsilon = 1 the direction may vanish; the pinned tuple takes ~7 s with "
       "CLARABEL"),
    _E("heavy_ball_momentum", _U, "wc_heavy_ball_momentum", "upper",
       {"mu": .1, "L": 1, "alpha": 1 / 2, "beta": _SQ((1 - .5 * .1) * (1 - 1 * .5)), "n": 3}, gen_heavy_ball_momentum,
       "alpha in (0, 1/L], beta = sqrt((1 - alpha mu)(1 - L alpha)), 0 < mu < L (docstring, [2, Thm 4])", "cheap",
       "beta is a function of alpha (gen computes it); alpha = 1/L gives beta = 0 (gradient descent)"),
    _E("heavy_ball_momentum_qg_convex", _U, "wc_heavy_ball_momentum_qg_convex", "tight",
       {"L": 1, "n": 5}, gen_heavy_ball_momentum_qg_convex,
       "L > 0, n >= 1 (docstring: tight, [2, Thm 2.3/2.4])", "cheap",
       "the test only asserts wc <= theory (1 + 1e-3) although the docstring says tight"),
    _E("accelerated_proximal_point", _U, "wc_accelerated_proximal_point", "upper",
       {"A0": 1, "gammas": [1, 1, 1], "n": 3}, gen_accelerated_proximal_point,
       "A0 > 0, gammas: n positive step sizes (docstring: upper, [1, Thm 2.3])", "cheap"),
    _E("triple_momentum", _U, "wc_triple_momentum", "tight",
       {"mu": .1, "L": 1, "n": 4}, gen_triple_momentum,
       "0 < mu < L, n >= 1 (docstring: 'upper (empirically tight)', [1, Thm 1, eq. 4])", "cheap",
       "docstring formula is rho^(2(n+1)) L kappa / 2, code returns rho^(2n) L kappa / 2; the test asserts tightness "
       "of the code value (see SUSPECTS, doc_vs_code). " + _FL),
    _E("robust_momentum", _U, "wc_robust_momentum", "tight",
       {"mu": .1, "L": 1, "lam": .5}, gen_robust_momentum,
       "0 < mu < L, lam in [0, 1] (docstring: lam=1 gradient descent, lam=0 triple momentum; 'empirically tight')",
       "cheap",
       "the code's q_t = (L - mu)(f - f* - mu/2 |y - x*|^2) - 1/2 |g - mu (y - x*)|^2 differs from the docstring "
       "(where the whole bracket is multiplied by L - mu)"),
    _E("accelerated_gradient_convex", _U, "wc_accelerated_gradient_convex", "tight",
       {"mu": 0, "L": 1, "n": 10}, gen_accelerated_gradient_convex,
       "mu = 0 (docstring: 'When mu=0, a tight empirical guarantee'), L > 0, n >= 1", "cheap",
       "with mu > 0 the same value is returned and is only an upper bound (a warning is printed)"),
    _E("accelerated_gradient_strongly_convex", _U, "wc_accelerated_gradient_strongly_convex", "upper",
       {"mu": .1, "L": 1, "n": 5}, gen_accelerated_gradient_strongly_convex,
       "0 < mu < L, n >= 1 (docstring: upper, [1, Cor. 4.15]; mu = 0 prints a warning)", "cheap",
       "the test asserts wc <= theory without tolerance"),
    _E("accelerated_proximal_gradient_method", _C, "wc_accelerated_proximal_gradient", "tight",
       {"mu": 0, "L": 1, "n": 5}, gen_accelerated_proximal_gradient_method,
       "mu = 0 (docstring: tight (empirical) for mu = 0), L > 0, n >= 1", "cheap",
       "with mu > 0 the same value is returned and is only an upper bound"),
    _E("accelerated_douglas_rachford_splitting", _C, "wc_accelerated_douglas_rachford_splitting", "none",
       {"mu": 0.1, "L": 1, "alpha": 0.9, "n": 1}, gen_accelerated_douglas_rachford_splitting,
       "0 < mu < L, alpha in (0, 1/L), n >= 1 (docstring: theta = (1 - alpha L)/(1 + alpha L), alpha < 1/L)", "cheap",
       "theoretical_tau is an upper bound valid for QUADRATICS only ('not directly comparable'); it is None for "
       "alpha >= 1/L. The test compares pepit_tau with PESTO reference values for n = 1..8.",
       bases=[{"mu": 0.1, "L": 1, "alpha": 0.9, "n": n} for n in range(1, 9)],
       expected=[({"mu": 0.1, "L": 1, "alpha": 0.9, "n": n}, v) for n, v in
                 zip(range(1, 9), [0.2027, 0.1929, 0.1839, 0.1737, 0.1627, 0.1514, 0.1400, 0.1289])]),
    _E("bregman_proximal_point_method", _C, "wc_bregman_proximal_point", "tight",
       {"gamma": 3, "n": 5}, gen_bregman_proximal_point_method,
       "gamma > 0, n >= 1 (docstring: 'tight empirical guarantee can be guessed from the numerics')", "cheap"),
    _E("conditional_gradient_frank_wolfe", _C, "wc_frank_wolfe", "upper",
       {"L": 1., "D": 1., "n": 10}, gen_conditional_gradient_frank_wolfe,
       "L > 0, D > 0, n >= 1 (docstring: upper, [2, Thm 1])", "cheap", "the test asserts wc <= theory"),
    _E("douglas_rachford_splitting_contraction", _C, "wc_douglas_rachford_splitting_contraction", "tight",
       {"mu": 0.1, "L": 1, "alpha": 3, "theta": 1, "n": 1}, gen_douglas_rachford_splitting_contraction,
       "theta = 1 (docstring: 'for when theta=1', [2, Thm 2]), 0 < mu < L, alpha > 0, n >= 1", "cheap",
       "theoretical_tau is None for theta != 1 (exact comparison theta == 1)", ref_when=lambda kw: kw["theta"] == 1),
    _E("douglas_rachford_splitting", _C, "wc_douglas_rachford_splitting", "tight",
       {"L": 1, "alpha": 1, "theta": 1, "n": 10}, gen_douglas_rachford_splitting,
       "L = alpha = theta = 1 and 1 <= n <= 10 only (docstring: comparison with PESTO values)", "medium",
       "theoretical_tau is a 4-digit table (relative rounding error up to ~2e-3 for the small entries: n = 7 is off "
       "by 1.26e-3, n = 8 by 0.95e-3, see SUSPECTS) and is None outside L = alpha = theta = 1, 0 < n <= 10",
       rtol_hint=2.5e-3),
    _E("improved_interior_algorithm", _C, "wc_improved_interior_algorithm", "upper",
       {"L": 1, "mu": 1, "c": 1, "lam": 1, "n": 5}, gen_improved_interior_algorithm,
       "L > 0, c > 0, lam = 1/L, mu >= 1, n >= 1 (IMPLICIT: the docstring gives no range at all; the formula contains "
       "neither lam nor mu, the test pins lam = 1/L and mu = 1; [1, Thm 5.2] is stated for lam = sigma/L)", "medium",
       "RESTRICTED to lam = 1/L <= mu/L. pepit_tau equals c_n/c of the scalar recursion (depends on c, lam, n only) as "
       "long as lam <= mu/L; it is unbounded (None) for lam well above mu/L. With the setting of the cited theorem, "
       "lam = mu/L, the returned value is NOT an upper bound when mu < 1 (see SUSPECTS; generator "
       "gen_improved_interior_algorithm_lam_sigma_over_L). Docstring formula 4L/(c n^2), code 4L/(c (n+1)^2).",
       gen_alt=gen_improved_interior_algorithm_lam_sigma_over_L),
    _E("no_lips_in_bregman_divergence", _C, "wc_no_lips_in_bregman_divergence", "tight",
       {"L": 0.1, "gamma": 1 / 0.1, "n": 3}, gen_no_lips_in_bregman_divergence,
       "gamma in (0, 1/L], n >= 2 (docstring: upper [2, Prop. 4] 'for any gamma <= 1/L. It is empirically tight')",
       "medium", "n = 1 divides by zero (2/(n(n-1))). Documented as an upper bound that 'is empirically tight'; "
       "the test asserts equality at gamma = 1/L and equality is observed for every gamma <= 1/L."),
    _E("no_lips_in_function_value", _C, "wc_no_lips_in_function_value", "tight",
       {"L": 1, "gamma": 1 / 2, "n": 3}, gen_no_lips_in_function_value,
       "gamma in (0, 1/L], n >= 1 (docstring: tight [2, Thm 1] 'for any gamma <= 1/L')", "cheap"),
    _E("proximal_gradient", _C, "wc_proximal_gradient", "tight",
       {"L": 1, "mu": .1, "gamma": 1, "n": 2}, gen_proximal_gradient,
       "0 < mu < L, gamma > 0 (docstring gives no range for gamma; gen draws gamma in (0, 2/L], the contraction "
       "range, and, with probability 0.15, in (2/L, 3/L)), n >= 1", "cheap", _FL),
    _E("proximal_gradient_quadratics", _C, "wc_proximal_gradient_quadratics", "tight",
       {"L": 1, "mu": .1, "gamma": 1, "n": 2}, gen_proximal_gradient_quadratics,
       "0 < mu < L, gamma > 0 (docstring gives no range for gamma; gen draws gamma in (0, 2/L], the contraction "
       "range, and, with probability 0.15, in (2/L, 3/L)), n >= 1", "cheap", _FL),
    _E("three_operator_splitting", _C, "wc_three_operator_splitting", "none",
       {"mu1": 0.1, "L1": 10, "L3": 1, "alpha": 1, "theta": 1, "n": 1}, gen_three_operator_splitting,
       "0 < mu1 < L1, L3 > 0, alpha > 0, theta in (0, 2), n >= 1 (docstring; no theoretical value)", "cheap",
       "theoretical_tau is None; the test compares with PESTO values for n = 1..3",
       bases=[{"mu1": 0.1, "L1": 10, "L3": 1, "alpha": 1, "theta": 1, "n": n} for n in range(1, 4)],
       expected=[({"mu1": 0.1, "L1": 10, "L3": 1, "alpha": 1, "theta": 1, "n": n}, v)
                 for n, v in zip(range(1, 4), [0.8304, 0.6895, 0.5726])]),
    _E("gradient_descent_non_convex", _NC, "wc_gradient_descent", "tight",
       {"L": 1, "gamma": 1, "n": 5}, gen_gradient_descent_non_convex,
       "gamma in (0, 1/L] (docstring: 'When gamma <= 1/L, an empirically tight ... 4/3 L/n'), n >= 1", "cheap",
       "The formula 4L/(3n) does not depend on gamma and only matches at gamma = 1/L (see SUSPECTS); gen keeps the "
       "documented range, gen_restricted draws gamma = 1/L only.",
       gen_restricted=gen_gradient_descent_non_convex_restricted),
    _E("no_lips_1", _NC, "wc_no_lips_1", "tight",
       {"L": 1, "gamma": 1 / 2, "n": 5}, gen_no_lips_1,
       "gamma in (0, 1/L) (formula gamma/(n(1 - L gamma)), [1, Prop. 4.1]; Args: 'equal to 1/(2L) for guarantee'), "
       "n >= 1", "medium", "gen draws gamma = 1/(2L) with probability 0.4"),
    _E("no_lips_2", _NC, "wc_no_lips_2", "tight",
       {"L": 1, "gamma": 1, "n": 3}, gen_no_lips_2,
       "gamma in (0, 1/L] (Args: 'equal to 1/(2L) for guarantee'; the test pins gamma = 1/L), n >= 1", "cheap",
       "gen draws gamma = 1/(2L) with probability 0.4"),
    _E("saga", _S, "wc_saga", "tight",
       {"L": 1, "mu": 0.1, "n": 5}, gen_saga,
       "0 < mu < L, n >= 1 functions (docstring: 'upper bound (empirically tight)', [1, Thm 1])", "medium",
       "n is the number of functions (Gram size grows as 2n + ...); the test asserts equality"),
    _E("sgd", _S, "wc_sgd", "tight",
       {"L": 1, "mu": 0.1, "gamma": 1, "v": 1, "R": 2, "n": 5}, gen_sgd,
       "gamma = 1/L only (docstring: 'when gamma = 1/L'), 0 < mu < L, v >= 0, R > 0, n >= 2 functions", "cheap",
       "empirically tight (PESTO). RESTRICTED to n >= 2: with a single function the variance at x* is necessarily 0 "
       "and pepit_tau is smaller than the formula although the docstring says the guarantee does not depend on n "
       "(see SUSPECTS)."),
    _E("sgd_overparametrized", _S, "wc_sgd_overparametrized", "tight",
       {"L": 1, "mu": 0.1, "gamma": 1, "n": 5}, gen_sgd_overparametrized,
       "gamma = 1/L only (docstring: 'when gamma = 1/L'), 0 < mu < L, n >= 1 functions", "cheap"),
    _E("point_saga", _S, "wc_point_saga", "upper",
       {"L": 1, "mu": 0.1, "n": 10}, gen_point_saga,
       "0 < mu < L, n >= 1 functions (docstring: upper, [1, Thm 5])", "medium",
       "n is the number of functions; the pinned n = 10 is heavy. The test asserts wc <= theory."),
    _E("randomized_coordinate", _S, "wc_randomized_coordinate_descent_smooth_convex", "tight",
       {"L": 1, "gamma": 1, "d": 3, "t": 10}, gen_randomized_coordinate,
       "gamma in (0, 1/L] (docstring: 'When gamma <= 1/L, the tight ...'), d >= 1 blocks, t >= 1", "cheap",
       "theoretical_tau is the constant 1."),
    _E("randomized_coordinate_strongly_convex", _S, "wc_randomized_coordinate_descent_smooth_strongly_convex", "tight",
       {"L": 1, "mu": 0.1, "gamma": 2 / (1 + 0.1), "d": 3}, gen_randomized_coordinate_strongly_convex,
       "gamma in (0, 1/L] (docstring: 'When gamma <= 1/L, the tight ...'), 0 < mu < L, d >= 1 blocks", "cheap",
       "the pinned gamma = 2/(L + mu) lies OUTSIDE the documented range gamma <= 1/L (the formula has both branches)"),
    _E("accelerated_proximal_point_operators", _MI, "wc_accelerated_proximal_point", "tight",
       {"alpha": 2.1, "n": 10}, gen_accelerated_proximal_point_operators,
       "alpha > 0, n >= 1 (docstring: tight, [1, Thm 4.1] 'for n >= 1')", "cheap"),
    _E("proximal_point_method_operators", _MI, "wc_proximal_point", "tight",
       {"alpha": 2.1, "n": 3}, gen_proximal_point_method_operators,
       "alpha > 0, n >= 1 (docstring: tight, [1, Sec. 4])", "cheap"),
    _E("wc_optimal_strongly_monotone_proximal_point_operators", _MI, "wc_optimal_strongly_monotone_proximal_point",
       "tight", {"n": 3, "mu": 0.23}, gen_wc_optimal_strongly_monotone_proximal_point_operators,
       "mu > 0, n >= 1 (docstring Args: 'mu >= 0'; tight [1, Thm 3.2, Cor. 4.2])", "cheap",
       "RESTRICTED to mu > 0: the documented end mu = 0 raises ZeroDivisionError (phi() and the formula), "
       "see SUSPECTS. " + _FL),
    _E("douglas_rachford_splitting_operators", _MI, "wc_douglas_rachford_splitting", "tight",
       {"L": 1, "mu": 0.1, "alpha": 1.3, "theta": 0.9}, gen_douglas_rachford_splitting_operators,
       "L > 0, mu > 0, alpha > 0, theta in (0, 2) (docstring: compares with [2, Thm 4.3]; no range stated)", "cheap",
       "three-branch closed form; the test asserts equality"),
    _E("three_operator_splitting_operators", _MI, "wc_three_operator_splitting", "none",
       {"L": 1, "mu": 0.1, "beta": 1, "alpha": 1.3, "theta": 0.9}, gen_three_operator_splitting_operators,
       "0 < mu < L, beta > 0, alpha > 0, theta in (0, 2) (docstring; no theoretical value)", "cheap",
       "theoretical_tau is None; the test pins 0.7797",
       expected=[({"L": 1, "mu": 0.1, "beta": 1, "alpha": 1.3, "theta": 0.9}, 0.7797)]),
    _E("optimistic_gradient", _MI, "wc_optimistic_gradient", "none",
       {"n": 5, "gamma": 1 / 4, "L": 1}, gen_optimistic_gradient,
       "n >= 1, L > 0, gamma > 0 (docstring; gen uses gamma L in [0.05, 0.5])", "medium",
       "theoretical_tau is None; the test checks wc(n=6) <= wc(n=5)",
       bases=[{"n": 5, "gamma": 1 / 4, "L": 1}, {"n": 6, "gamma": 1 / 4, "L": 1}], monotone_in="n"),
    _E("past_extragradient", _MI, "wc_past_extragradient", "none",
       {"n": 5, "gamma": 1 / 4, "L": 1}, gen_past_extragradient,
       "n >= 1, L > 0, gamma > 0 (docstring; gen uses gamma L in [0.05, 0.5])", "medium",
       "theoretical_tau is None; the test checks wc(n=6) <= wc(n=5)",
       bases=[{"n": 5, "gamma": 1 / 4, "L": 1}, {"n": 6, "gamma": 1 / 4, "L": 1}], monotone_in="n"),
    _E("halpern_iteration", _FP, "wc_halpern_iteration", "tight",
       {"n": 10}, gen_halpern_iteration, "n >= 1 (docstring: tight, [2, Thm 2.1])", "cheap"),
    _E("krasnoselskii_mann_constant_step_sizes", _FP, "wc_krasnoselskii_mann_constant_step_sizes", "tight",
       {"n": 10, "gamma": 3 / 4}, gen_krasnoselskii_mann_constant_step_sizes,
       "gamma in [1/2, 1] (Args: 'step-size between 1/2 and 1'; ValueError otherwise), n >= 1", "cheap",
       "docstring calls it an upper bound [1, Thm 4.9]; the test asserts equality. Second branch: docstring "
       "(gamma - 1)^(2n), code (2 gamma - 1)^(2n)."),
    _E("krasnoselskii_mann_increasing_step_sizes", _FP, "wc_krasnoselskii_mann_increasing_step_sizes", "none",
       {"n": 10}, gen_krasnoselskii_mann_increasing_step_sizes, "n >= 1 (docstring; no theoretical value)", "cheap",
       "theoretical_tau is None; the test pins 0.059527 at n = 10", expected=[({"n": 10}, 0.059527)]),
    _E("wc_inconsistent_halpern_iteration", _FP, "wc_inconsistent_halpern_iteration", "upper",
       {"n": 25}, gen_wc_inconsistent_halpern_iteration, "n >= 1 (docstring: guarantee of [1, Thm 8])", "cheap",
       "the pinned n = 25 is heavy; the test asserts wc <= theory"),
    _E("wc_optimal_contractive_halpern_iteration", _FP, "wc_optimal_contractive_halpern_iteration", "tight",
       {"n": 3, "gamma": 1.13}, gen_wc_optimal_contractive_halpern_iteration,
       "gamma > 1, n >= 1 (docstring Args: 'gamma >= 1'; tight [1, Cor. 3.3, Thm 4.1])", "cheap",
       "RESTRICTED to gamma > 1: the documented end gamma = 1 raises ZeroDivisionError (phi and the formula), "
       "see SUSPECTS. " + _FL),
    _E("gradient_descent_lyapunov_1", _PF, "wc_gradient_descent_lyapunov_1", "tight",
       {"L": 1, "gamma": 1, "n": 10}, gen_gradient_descent_lyapunov_1,
       "gamma = 1/L exactly (docstring: 'when gamma = 1/L'; code tests gamma == 1 / L), n >= 0", "cheap",
       "theoretical_tau = 0 (None when gamma != 1/L in floating point); absolute tolerance 5e-5 in the test",
       tol="abs"),
    _E("gradient_descent_lyapunov_2", _PF, "wc_gradient_descent_lyapunov_2", "tight",
       {"L": 1, "gamma": 1, "n": 10}, gen_gradient_descent_lyapunov_2,
       "gamma = 1/L exactly (docstring: 'when gamma = 1/L'; code tests gamma == 1 / L), n >= 0", "cheap",
       "theoretical_tau = 0 (None when gamma != 1/L in floating point); absolute tolerance 5e-5 in the test. The "
       "potential scales like L^2, so absolute errors scale accordingly.", tol="abs"),
    _E("accelerated_gradient_method", _PF, "wc_accelerated_gradient_method", "tight",
       {"L": 1, "gamma": 1, "lam": 10}, gen_accelerated_gradient_method,
       "gamma = 1/L exactly (docstring: 'when gamma = 1/L'; code tests gamma == 1 / L), lam >= 0", "cheap",
       "theoretical_tau = 0 (None when gamma != 1/L); absolute tolerance 5e-5 in the test", tol="abs"),
    _E("polyak_steps_in_distance_to_optimum", _AD, "wc_polyak_steps_in_distance_to_optimum", "tight",
       {"L": 1, "mu": 0.1, "gamma": 2}, gen_polyak_steps_in_distance_to_optimum,
       "gamma in [1/L, 1/mu] (docstring, [1, Prop. 1]; theory = 0 'otherwise'), 0 < mu < L", "cheap",
       "the rate vanishes at both ends (theory = 0 makes a relative comparison meaningless; the test uses the "
       "absolute tolerance 5e-5); gen hits the exact ends with probability 0.1. At the ends and outside the interval "
       "pepit_tau is ~1e-8.", tol="abs"),
    _E("polyak_steps_in_function_value", _AD, "wc_polyak_steps_in_function_value", "tight",
       {"L": 1, "mu": 0.1, "gamma": 2}, gen_polyak_steps_in_function_value,
       "gamma in [1/L, (2L - mu)/L^2] (docstring, [1, Prop. 2]; theory = 0 'otherwise'), 0 < mu < L", "cheap",
       "the pinned gamma = 2/L is OUTSIDE the interval (theory 0, pepit ~1e-10). gen hits the exact ends (theory 0) "
       "with probability 0.1; absolute tolerance 5e-5 in the test.", tol="abs"),
    _E("accelerated_inexact_forward_backward", _IP, "wc_accelerated_inexact_forward_backward", "upper",
       {"L": 10, "zeta": .87, "n": 10}, gen_accelerated_inexact_forward_backward,
       "zeta in (0, 1) (docstring), L > 0, n >= 1 (upper bound [1, Cor. 3.5])", "medium",
       "the pinned n = 10 takes ~14 s with CLARABEL; the test asserts wc <= theory"),
    _E("partially_inexact_douglas_rachford_splitting", _IP, "wc_partially_inexact_douglas_rachford_splitting", "tight",
       {"mu": 1, "L": 5., "n": 5, "gamma": 1.4, "sigma": 0.2}, gen_partially_inexact_douglas_rachford_splitting,
       "0 < mu < L, gamma > 0, sigma in [0, 0.9] (docstring gives no range for sigma; [2, Thm 5.1] needs "
       "sigma in [0, 1)), n >= 1", "medium", "signature order is (mu, L, n, gamma, sigma)"),
    _E("relatively_inexact_proximal_point_algorithm", _IP, "wc_relatively_inexact_proximal_point_algorithm", "upper",
       {"n": 5, "gamma": 2, "sigma": 0.3}, gen_relatively_inexact_proximal_point_algorithm,
       "gamma > 0, sigma in [0, 1] (docstring: 'sigma >= 0'; the formula needs sigma <= 1), n >= 1", "medium",
       "'(empirical) upper bound'; the test asserts wc <= theory; equality at sigma = 0; the pinned tuple takes "
       "~3 s with CLARABEL"),
    _E("accelerated_gradient_flow_convex", _CT, "wc_accelerated_gradient_flow_convex", "tight",
       {"t": 3.4}, gen_accelerated_gradient_flow_convex, "t > 0 (docstring: tight, d/dt V <= 0)", "cheap",
       "theoretical_tau = 0; no initial condition (homogeneous problem); absolute tolerance 5e-5 in the test",
       tol="abs"),
    _E("gradient_flow_convex", _CT, "wc_gradient_flow_convex", "tight",
       {"t": 3.4}, gen_gradient_flow_convex, "t >= 0 (docstring: tight, d/dt V <= 0)", "cheap",
       "theoretical_tau = 0; absolute tolerance 5e-5 in the test", tol="abs"),
    _E("accelerated_gradient_flow_strongly_convex", _CT, "wc_accelerated_gradient_flow_strongly_convex", "tight",
       {"mu": 2.1, "psd": True}, gen_accelerated_gradient_flow_strongly_convex,
       "mu > 0, psd in {True, False} (docstring: tight for both Lyapunov matrices)", "cheap",
       "theoretical_tau is NEGATIVE (-sqrt(mu) or -4/3 sqrt(mu)): use |theory| in relative checks; absolute "
       "tolerance 5e-5 in the test", tol="abs",
       bases=[{"mu": 2.1, "psd": True}, {"mu": 2.1, "psd": False}]),
    _E("gradient_flow_strongly_convex", _CT, "wc_gradient_flow_strongly_convex", "tight",
       {"mu": .8}, gen_gradient_flow_strongly_convex, "mu > 0 (docstring: tight, [1, Prop. 11])", "cheap",
       "theoretical_tau = -2 mu is NEGATIVE: use |theory| in relative checks; absolute tolerance 5e-5 in the test",
       tol="abs"),
    _E("gradient_descent_contraction", _TU, "wc_gradient_descent_contraction", "tight",
       {"L": 1, "mu": 0.1, "gamma": 1, "n": 1}, gen_gradient_descent_contraction,
       "0 < mu < L, gamma > 0 (docstring gives no range for gamma; gen draws gamma in (0, 2/L], the contraction "
       "range, and, with probability 0.15, in (2/L, 3/L)), n >= 1", "cheap", _FL),
]

BY_NAME = {e["name"]: e for e in EXAMPLES}


# ----------------------------------------------------------------------------------------------------------------
# calling an example
# ----------------------------------------------------------------------------------------------------------------

@contextlib.contextmanager
def _default_solver(solver, wrapper):
    """Make PEP.solve use `solver` when the example calls problem.solve() WITHOUT a solver (two examples do)."""
    from PEPit import pep as _pep
    original = _pep.PEP.solve

    def solve(self, *args, **kwargs):
        if kwargs.get("solver", None) is None and (not args) and kwargs.get("wrapper", "cvxpy") == "cvxpy" \
                and wrapper == "cvxpy":
            kwargs["solver"] = solver
        return original(self, *args, **kwargs)

    _pep.PEP.solve = solve
    try:
        yield
    finally:
        _pep.PEP.solve = original


def get_function(entry):
    return getattr(importlib.import_module(entry["module"]), entry["func"])


def call(entry, kwargs, solver="CLARABEL", wrapper="cvxpy", verbose=-1, force_solver=True):
    """Run one example and return (pepit_tau, theoretical_tau).

    wrapper / solver / verbose are only passed when the signature accepts them (wc_gradient_descent_lc only accepts
    verbose).  Two examples (gradient_descent_lc, gradient_descent_quadratics) call problem.solve() without
    forwarding any solver, hence silently run the default one (SCS when MOSEK is absent); with force_solver=True
    (default) PEP.solve is wrapped for the duration of the call so that a missing solver is replaced by `solver`.
    Nothing under /repo is modified.
    """
    f = get_function(entry)
    params = inspect.signature(f).parameters
    kw = dict(kwargs)
    for key, val in (("wrapper", wrapper), ("solver", solver), ("verbose", verbose)):
        if key in params:
            kw[key] = val
    if force_solver and solver is not None:
        with _default_solver(solver, wrapper):
            return f(**kw)
    return f(**kw)


def holds(entry, pepit, theory, rtol=1e-3, atol=5e-5):
    """The documented relation at tolerance rtol (entries with tol == 'abs' use atol + rtol * |theory|).
    Returns None when there is nothing to compare."""
    if theory is None or pepit is None or entry["kind"] == "none":
        return None
    slack = rtol * abs(theory) + (atol if entry.get("tol") == "abs" else 0.0)
    if entry["kind"] == "tight":
        return abs(pepit - theory) <= slack
    if entry["kind"] == "upper":
        return pepit <= theory + slack
    if entry["kind"] == "lower":
        return theory <= pepit + slack
    return None


# ----------------------------------------------------------------------------------------------------------------
# Cases where an example disagrees with its own documentation inside the documented range.
# Numbers obtained with solver="CLARABEL" (cvxpy 1.9.2), verbose=-1, through call().
#   category "formula"     : the returned theoretical_tau is not what the docstring claims it is on that range
#            "crash"       : a documented admissible value raises
#            "doc_vs_code" : the docstring formula differs from the formula in the code (the code one matches pepit_tau)
#            "rounding"    : hard-coded reference table rounded too coarsely for a 1e-3 relative check
#            "numerical"   : small systematic excess, solver reports optimal_inaccurate (cannot tell the conjecture
#                            from the solver)
# ----------------------------------------------------------------------------------------------------------------
SUSPECTS = [
    {"name": "gradient_descent_non_convex", "category": "formula",
     "kwargs": {"L": 1, "gamma": 0.5, "n": 3}, "pepit": 0.7619047637, "theory": 0.4444444444,
     "why": "Docstring: 'When gamma <= 1/L, an empirically tight theoretical worst-case guarantee is 4/3 L/n'. The "
            "value does not depend on gamma and is only attained at gamma = 1/L; for every gamma < 1/L pepit_tau is "
            "LARGER (gamma L = 0.25: 1.42222, 0.5: 0.761905, 0.9: 0.477897, 0.99: 0.447442, 1.0: 0.444444 for "
            "L = 1, n = 3), so the returned value is not even an upper bound on the documented range."},
    {"name": "gradient_descent_non_convex_low_dim", "category": "formula",
     "kwargs": {"L": 1, "gamma": 0.5, "n": 3}, "pepit": 0.7619047637, "theory": 0.4444444444,
     "why": "Same docstring and same formula as nonconvex_optimization.wc_gradient_descent (low-dimensional variant)."},
    {"name": "subgradient_method", "category": "formula",
     "kwargs": {"M": 2, "n": 4, "gamma": 0.11180339887498948}, "pepit": 0.9214050479, "theory": 0.8944271910,
     "why": "The docstring calls M/sqrt(n+1) 'the tight bound' without any condition on the argument gamma; it is the "
            "worst case only for gamma = 1/(M sqrt(n+1)) (0.223607 here: pepit 0.894427). With gamma halved pepit is "
            "0.921405, doubled 1.090794, x4 1.813680, /4 1.132237: the returned value is then smaller than pepit_tau."},
    {"name": "improved_interior_algorithm", "category": "formula",
     "kwargs": {"L": 3, "mu": 0.2, "c": 2, "lam": 0.2 / 3, "n": 4}, "pepit": 0.3145139918, "theory": 0.24,
     "why": "The docstring announces the upper bound of [1, Thm 5.2] (stated for lam = sigma/L, sigma = mu the strong "
            "convexity of h) but the returned 4L/(c (n+1)^2) contains neither mu nor lam. With lam = mu/L and mu < 1 "
            "pepit_tau (= c_n/c of the scalar recursion) exceeds it: also {L:1, mu:0.25, c:1, lam:0.25, n:3} gives "
            "0.300241 > 0.25 and {L:3, mu:0.3774, c:2.327, lam:0.1258, n:4} gives 0.208959 > 0.206309. It is an upper "
            "bound when lam = 1/L (and mu >= 1 so that the method is covered by the theorem); no range is documented."},
    {"name": "sgd", "category": "formula",
     "kwargs": {"L": 1, "mu": 0.1, "gamma": 1, "v": 1, "R": 2, "n": 1}, "pepit": 3.2400000090, "theory": 5.0416523285,
     "why": "Docstring: 'the guarantee does not depend on the number n of functions'. With n = 1 the variance at x* "
            "is necessarily 0 and pepit_tau = (1 - mu/L)^2 R^2 = 3.24 < 5.04165 (n = 2, 3, 5 give 5.04165). Also seen "
            "with {L:0.1, mu:0.006444, gamma:10, v:2.184, R:2.993, n:1}: 7.84132 vs 542.04."},
    {"name": "wc_optimal_strongly_monotone_proximal_point_operators", "category": "crash",
     "kwargs": {"n": 3, "mu": 0}, "pepit": None, "theory": None,
     "why": "Args documents 'mu >= 0' but mu = 0 raises ZeroDivisionError (phi() divides by (1+2mu)^2 - 1, and the "
            "formula by (1+2mu)^n - 1). mu = 1e-6 works: 0.1111107 vs 0.1111107 (limit 1/n^2)."},
    {"name": "wc_optimal_contractive_halpern_iteration", "category": "crash",
     "kwargs": {"n": 3, "gamma": 1}, "pepit": None, "theory": None,
     "why": "Args documents 'gamma >= 1' but gamma = 1 raises ZeroDivisionError (phi divides by gamma^2 - 1, the "
            "formula by gamma^(n+1) - 1). gamma = 1.000001 works: 0.249999 vs 0.249999 (Halpern limit (2/(n+1))^2)."},
    {"name": "gradient_descent_lc", "category": "crash",
     "kwargs": {"mug": 0.0, "Lg": 1.0, "typeM": "gen", "muM": 0.0, "LM": 1.0, "gamma": 1.0, "n": 2},
     "pepit": None, "theory": None,
     "why": "Docstring: valid for '0 <= mu_g <= L_g', but mug = 0 raises ZeroDivisionError (h0 = x / kappa_g) after "
            "the SDP has been solved."},
    {"name": "gradient_descent_lc", "category": "numerical",
     "kwargs": {"mug": 0.0137, "Lg": 0.7274, "typeM": "sym", "muM": 0.2719, "LM": 0.8332, "gamma": 0.5262, "n": 3},
     "pepit": 0.0963896043, "theory": 0.0962735301, "rel": 1.2e-3,
     "why": "Conjectured-tight value [1, Conj. 4.2]: pepit_tau is ALWAYS slightly above theoretical_tau (relative excess "
            "1e-5 .. 1.2e-3 over 40 draws with Lg in [0.7,2], LM in [0.8,1.25]; 8e-4 still for Lg = LM = 1), CLARABEL "
            "status is optimal_inaccurate on this SDP (LMI of the linear-operator class); up to 6e-3 for less "
            "favourable scalings, e.g. {mug:0.5653, Lg:1.861, typeM:'sym', muM:0, LM:0.8521, gamma:0.5659, n:3}: "
            "0.075158 vs 0.0747011. The test itself uses 2e-3. Base tuples pass at 1e-3 with CLARABEL and fail with "
            "the default SCS (3.0e-3 for 'gen')."},
    {"name": "douglas_rachford_splitting", "category": "rounding",
     "kwargs": {"L": 1, "alpha": 1, "theta": 1, "n": 7}, "pepit": 0.0357449687, "theory": 0.0357,
     "why": "theoretical_tau comes from a 4-digit PESTO table: relative difference 1.26e-3 at n = 7 (0.95e-3 at n = 8, "
            "<= 4.8e-4 for the other n in 1..10)."},
    {"name": "triple_momentum", "category": "doc_vs_code",
     "kwargs": {"mu": 0.1, "L": 1, "n": 4}, "pepit": 0.2389250598, "theory": 0.2389250554,
     "why": "Docstring formula rho^(2(n+1)) L kappa / 2 = 0.111707 here; the code returns rho^(2n) L kappa / 2 = "
            "0.238925 which is what pepit_tau matches (factor rho^2 between the two)."},
    {"name": "krasnoselskii_mann_constant_step_sizes", "category": "doc_vs_code",
     "kwargs": {"n": 3, "gamma": 0.97}, "pepit": 0.6898697806, "theory": 0.6898697811,
     "why": "Second regime: docstring (gamma - 1)^(2n) = 7.3e-10 here; the code returns (2 gamma - 1)^(2n) = 0.68987 "
            "which is what pepit_tau matches."},
]
