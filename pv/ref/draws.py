"""Selection of admissible parameter settings of the shipped examples (shared by C09 and C10)."""
import random


def generic_draws(e, seed, n, tag="c09"):
    """n admissible parameter settings; when few are drawn (quick tier) they are picked among 4n candidates so that
    they are as generic as possible (no parameter equal to 0 or 1 where avoidable, one setting with a constant above
    1 and one with a constant below 1): the docstring defaults (L = 1, gamma = 1/L ...) hide scaling mistakes."""
    cands = []
    for k in range(1, (4 * n if n <= 4 else n) + 1):
        rng = random.Random("%s/%d/%s/%d" % (tag, seed, e["name"], k))
        try:
            cands.append(e["gen"](rng))
        except Exception:
            continue
    if n > 4 or len(cands) <= n:
        return cands[:n]

    def nums(kw):
        return [float(v) for v in kw.values() if isinstance(v, (int, float)) and not isinstance(v, bool)]

    def score(kw, want_big):
        v = nums(kw)
        reals = [x for x in v if abs(x - round(x)) > 1e-9 or x > 1]
        generic = sum(1 for x in v if x not in (0.0, 1.0))
        big = any(x > 1.2 and abs(x - round(x)) > 1e-9 for x in v) or any(x >= 2 and k_ in ("L", "M", "beta", "mu", "LM", "Lg")
                                                                         for k_, x in kw.items() if isinstance(x, (int, float)))
        small = any(0 < x < 0.85 for x in v)
        return generic + (2.0 if (big if want_big else small) else 0.0) + 0.01 * len(reals)
    # greedy: each new setting is the candidate that adds most (parameter, side of 1) combinations not seen yet
    def sides(kw):
        out = set()
        for k_, x in kw.items():
            if isinstance(x, (int, float)) and not isinstance(x, bool) and k_ != "n":
                out.add((k_, "above" if x > 1.15 else ("below" if x < 0.87 else "at")))
            elif isinstance(x, (list, tuple)) and isinstance(kw.get("n"), int) and len(x) != kw["n"]:
                out.add((k_, "length differs from n"))
        return out
    # a closed form documented on a sub-range only (theta = 1 ...): half of the settings are taken where it exists, and among
    # those one with several iterations (one iteration cannot tell a loop that restarts from the starting point)
    ref_when = e.get("ref_when") if tag != "c09" else None

    def bonus(c, j):
        if ref_when is None or j % 2:
            return 0.0
        return (20.0 if ref_when(c) else 0.0) + (5.0 if isinstance(c.get("n"), int) and c["n"] >= 2 else 0.0)
    out, seen = [], set()
    for j in range(n):
        rest = [c for c in cands if not any(c is o for o in out)]
        best = max(rest, key=lambda c: 3.0 * len({s_ for s_ in sides(c) if s_[1] != "at"} - seen) + score(c, j % 2 == 0) + bonus(c, j))
        out.append(best)
        seen |= sides(best)
    return out
