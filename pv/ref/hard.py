"""Parametrised families of real members: theta in [0,1]^K -> a member of the declared class BY CONSTRUCTION
(spectrum / rotation-scaling parametrisations that cannot leave the class), so that a search over theta (C09's
evolution strategy) explores hard instances - class boundaries included (theta components 0 and 1) - without ever
producing a non-member.  Every member still goes through its own self_test in pv/numeric.py (exact spectral tests for
the linear and quadratic families used here).

K = 8: theta[0] selects the family, theta[1:6] are shape parameters, theta[6:8] place the centre.
"""
import math

import numpy as np

from pv.ref import members as M

K = 8
INF = float("inf")


def _rot(phi):
    return np.array([[math.cos(phi), -math.sin(phi)], [math.sin(phi), math.cos(phi)]])


def _centre(th, d, zero=False):
    c = np.zeros(d)
    if zero:
        return c
    c[0] = 3.0 * (2 * th[6] - 1)
    if d > 1:
        c[1] = 3.0 * (2 * th[7] - 1)
    return c


def _diag_quad(cls, p, th, d, lo, hi, zero_centre=False):
    ev = np.array([lo + (hi - lo) * th[1 + (i % 5)] for i in range(d)])
    return M.Quadratic(cls, p, np.diag(ev), _centre(th, d, zero_centre))


def _linear(cls, p, th, d, amax):
    a = np.zeros(d)
    a[0] = 1.0
    if d > 1:
        a[:2] = _rot(2 * math.pi * th[1]) @ np.array([1.0, 0.0])
    return M.LinearFunction(cls, p, amax * th[2] * (1 - 1e-12) * a)


def _block(d, B, rest):
    """d x d matrix with the 2x2 block B on the first two coordinates and `rest` on the remaining diagonal."""
    A = np.zeros((d, d))
    if d < 2:
        return A
    A[:2, :2] = B
    for i in range(2, d):
        A[i, i] = rest[(i - 2) % len(rest)]
    return A


def member(cls, p, th, d):
    """a member of `cls` with declared parameters p, or None when no family is available (caller falls back to random)."""
    th = [min(1.0, max(0.0, float(t))) for t in th]
    sel = th[0]
    I = np.eye(d)
    # ---- functions
    if cls in ("SmoothStronglyConvexFunction", "SmoothConvexFunction"):
        mu = p.get("mu", 0.0) if cls == "SmoothStronglyConvexFunction" else 0.0
        L = p["L"] if p["L"] < INF else mu + 10.0
        if sel < 0.6 or L <= mu:
            return _diag_quad(cls, p, th, d, mu, L)
        if sel >= 0.8 and mu == 0:
            return _linear(cls, p, th, d, 4.0)
        a = np.zeros(d)
        a[0] = 1.0
        if d > 1:
            a[:2] = _rot(math.pi * th[1]) @ np.array([1.0, 0.0])
        c = _centre(th, d)
        hub = M.Huber("SmoothConvexFunction", {"L": L - mu}, a[None, :], np.array([a @ c]), 0.02 + 2.0 * th[2], L - mu)
        if mu == 0:
            hub.cls, hub.params = cls, p
            return hub
        return M.SumMember(cls, p, M.Quadratic(cls, {"mu": mu, "L": mu}, mu * I, c), hub)
    if cls in ("SmoothStronglyConvexQuadraticFunction", "RsiEbFunction"):
        return _diag_quad(cls, p, th, d, p["mu"], p["L"], zero_centre=False)
    if cls == "ConvexQGFunction":
        return _diag_quad(cls, p, th, d, 0.0, p["L"])
    if cls == "SmoothFunction":
        return _diag_quad(cls, p, th, d, -p["L"], p["L"])
    if cls == "StronglyConvexFunction":
        return _diag_quad(cls, p, th, d, p["mu"], p["mu"] + 10.0)
    if cls == "ConvexFunction":
        if sel < 0.4:
            return _diag_quad(cls, p, th, d, 0.0, 10.0)
        if sel >= 0.8:
            return _linear(cls, p, th, d, 4.0)
        return M.NormFunction(cls, p, 0.2 + 3.0 * th[1], d)
    if cls == "ConvexLipschitzFunction":
        if sel >= 0.8:
            return _linear(cls, p, th, d, p["M"])
        return M.NormFunction(cls, p, p["M"] * (0.5 + 0.5 * th[1]), d)
    if cls == "ConvexSupportFunction":
        R = p.get("M", INF)
        return M.NormFunction(cls, p, (R if R < INF else 3.0) * (0.5 + 0.5 * th[1]), d)
    if cls == "ConvexIndicatorFunction":
        D = p.get("D", INF)
        r = (D / 2 if D < INF else 3.0) * (0.2 + 0.8 * th[1])
        c = _centre(th, d)
        if sel < 0.5 or d == 1:
            return M.BallIndicator(p, c, r)
        half = r / math.sqrt(d)
        w = np.array([half * (0.2 + 0.8 * th[2 + (i % 3)]) for i in range(d)])
        return M.BoxIndicator(p, c - w, c + w)
    if cls == "SmoothConvexLipschitzFunction":
        L, Mm = p["L"], p["M"]
        a = np.zeros(d)
        a[0] = 1.0
        if d > 1:
            a[:2] = _rot(math.pi * th[1]) @ np.array([1.0, 0.0])
        c = _centre(th, d)
        s = 0.5 + 0.5 * th[2]
        return M.Huber(cls, p, a[None, :], np.array([a @ c]), s * Mm / L, L)
    # ---- operators
    lin_zero = cls in ("LinearOperator", "SymmetricLinearOperator", "SkewSymmetricLinearOperator")
    c = _centre(th, d, zero=lin_zero)
    rest = [th[3], th[4], th[5]]

    def lm(A):
        return M.LinearMap(cls, p, A, c)

    def scalar_or_block(a_lo, a_hi, block):
        if d == 1:
            return lm(np.array([[a_lo + (a_hi - a_lo) * th[1]]]))
        return lm(block)

    if cls == "MonotoneOperator":
        phi = (math.pi / 2) * (2 * th[1] - 1)
        return scalar_or_block(0.0, 4.0, _block(d, 4.0 * th[2] * _rot(phi), [4.0 * t for t in rest]))
    if cls == "StronglyMonotoneOperator":
        mu = p["mu"]
        a, b = mu + 4.0 * th[1], 4.0 * (2 * th[2] - 1)
        return scalar_or_block(mu, mu + 4.0, _block(d, np.array([[a, -b], [b, a]]), [mu + 4.0 * t for t in rest]))
    if cls == "LipschitzStronglyMonotoneOperator":
        mu, L = p["mu"], p["L"]
        if L < mu:
            return None
        a = mu + (L - mu) * th[1]
        b = math.sqrt(max(L * L - a * a, 0.0)) * (2 * th[2] - 1) * (1 - 1e-12)
        return scalar_or_block(mu, L, _block(d, np.array([[a, -b], [b, a]]), [mu + (L - mu) * t for t in rest]))
    if cls == "CocoerciveOperator":
        beta = p["beta"]
        if beta <= 0:
            phi = (math.pi / 2) * (2 * th[1] - 1)
            return scalar_or_block(0.0, 4.0, _block(d, 4.0 * th[2] * _rot(phi), [4.0 * t for t in rest]))
        phi = (math.pi / 2) * (2 * th[1] - 1)
        r = th[2] * math.cos(phi) / beta * (1 - 1e-12)
        return scalar_or_block(0.0, 1.0 / beta, _block(d, r * _rot(phi), [t / beta for t in rest]))
    if cls == "CocoerciveStronglyMonotoneOperator":
        mu, beta = p["mu"], p["beta"]
        if mu * beta > 1 or beta <= 0:
            return None
        phimax = math.acos(min(1.0, math.sqrt(mu * beta))) * (1 - 1e-9)
        phi = phimax * (2 * th[1] - 1)
        r_lo, r_hi = mu / math.cos(phi), math.cos(phi) / beta
        if r_hi < r_lo:
            r_hi = r_lo
        r = r_lo + (r_hi - r_lo) * th[2]
        return scalar_or_block(mu, 1.0 / beta, _block(d, r * _rot(phi), [mu + (1.0 / beta - mu) * t for t in rest]))
    if cls in ("LipschitzOperator", "NonexpansiveOperator"):
        if p.get("with_v"):
            return None
        L = p["L"] if cls == "LipschitzOperator" else 1.0
        phi = math.pi * (2 * th[1] - 1)
        B = (L * th[2]) * _rot(phi)
        if sel > 0.7:
            B = B @ np.diag([1.0, -1.0])          # a reflection
        return scalar_or_block(-L, L, _block(d, B, [L * (2 * t - 1) for t in rest]))
    if cls == "NegativelyComonotoneOperator":
        rho = p["rho"]
        phi = math.pi * (2 * th[1] - 1) if rho > 0 else (math.pi / 2) * (2 * th[1] - 1)
        cs = math.cos(phi)
        r = 4.0 * th[2] if cs >= 0 else (-cs / rho) * (1 + 1e-12) + 4.0 * th[2]
        if d == 1:
            # scalar a: a >= -rho a^2  <=>  a >= 0 or a <= -1/rho
            a = 4.0 * th[2] if (th[1] < 0.5 or rho <= 0) else -(1.0 / rho) - 4.0 * th[2]
            return lm(np.array([[a]]))
        return lm(_block(d, r * _rot(phi), [4.0 * t for t in rest]))
    if cls == "LinearOperator":
        L = p["L"]
        if d == 1:
            return lm(np.array([[L * (2 * th[1] - 1)]]))
        B = _rot(math.pi * (2 * th[1] - 1)) @ np.diag([L * th[2], L * th[2] * th[3]]) @ _rot(math.pi * th[4])
        return lm(_block(d, B, [L * (2 * th[5] - 1)]))
    if cls == "SymmetricLinearOperator":
        mu, L = p["mu"], p["L"]
        if d == 1:
            return lm(np.array([[mu + (L - mu) * th[1]]]))
        R = _rot(math.pi * th[3])
        B = R @ np.diag([mu + (L - mu) * th[1], mu + (L - mu) * th[2]]) @ R.T
        B = (B + B.T) / 2
        return lm(_block(d, B, [mu + (L - mu) * th[4], mu + (L - mu) * th[5]]))
    if cls == "SkewSymmetricLinearOperator":
        L = p["L"]
        if d == 1:
            return lm(np.zeros((1, 1)))
        b = L * (2 * th[1] - 1)
        return lm(_block(d, np.array([[0.0, -b], [b, 0.0]]), [0.0]))
    return None


def corners(rng, n):
    """starting thetas: class-boundary corners of both families first, then random ones"""
    shapes = [[1.0] * 5, [0.0] * 5, [1.0, 0.0, 1.0, 0.0, 1.0], [0.0, 1.0, 0.0, 1.0, 0.0], [0.5] * 5, [0.5, 1.0, 0.5, 0.5, 0.5],
              [0.75, 1.0, 0.5, 0.5, 0.5], [0.25, 1.0, 0.5, 0.5, 0.5], [0.0, 0.05, 0.5, 0.5, 0.5], [0.0, 0.15, 0.5, 0.5, 0.5],
              [1.0, 0.5, 0.5, 0.5, 0.5], [0.0, 0.5, 0.5, 0.5, 0.5]]
    out = []
    for k, sh in enumerate(shapes):
        out.append([0.0] + sh + [0.5, 0.5])
        out.append([0.7 if k % 2 else 0.9] + sh + [0.5, 0.5])
    rng.shuffle(out)
    while len(out) < n:
        out.append([rng.random() for _ in range(K)])
    return out[:n]
