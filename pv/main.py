"""Entry point behind ./check : fan a check out over subprocess shards, merge, decide, write evidence.

  ./check <ID> <quick|thorough>            run the check
  ./check <ID> --replay <witness.json>     re-execute one recorded witness
  (internal) main.py --shard <ID> <spec.json> <out.json>

Verdicts are three-valued: exit 0 held-on-what-was-observed, exit 1 VIOLATION, exit 2 INCONCLUSIVE.
"""
import importlib
import json
import os
import shutil
import subprocess
import sys
import time
import hashlib

HERE = os.path.dirname(os.path.abspath(__file__))
ROOT = os.path.dirname(HERE)
REPO = os.environ.get("VERIF_REPO", "/repo")
PY = os.environ.get("VERIF_PYTHON", "/venv/bin/python")
DEPS = os.path.join(ROOT, ".deps")
SCRATCH = os.path.join(ROOT, ".scratch")
NPROC = min(16, os.cpu_count() or 1)


def ensure_deps():
    """icontract beside the repository's interpreter, from the offline wheelhouse (git-ignored .deps)."""
    marker = os.path.join(DEPS, "icontract")
    if os.path.isdir(marker):
        return
    os.makedirs(DEPS, exist_ok=True)
    cmd = [PY, "-m", "pip", "install", "-q", "--no-index", "--find-links", "/opt/veriftools/wheels",
           "--target", DEPS, "icontract"]
    try:
        subprocess.run(cmd, check=True, stdout=subprocess.DEVNULL, stderr=subprocess.DEVNULL, timeout=300)
    except Exception as e:  # contracts are optional helpers: checks that need them report inconclusive
        sys.stderr.write("warning: could not install icontract: %r\n" % (e,))


def shard_env(extra_path=None):
    env = dict(os.environ)
    paths = [REPO, ROOT, DEPS]
    if extra_path:
        paths = list(extra_path) + paths
    env["PYTHONPATH"] = os.pathsep.join(paths)
    env["PYTHONHASHSEED"] = "0"
    env["PYTHONDONTWRITEBYTECODE"] = "1"
    env["OMP_NUM_THREADS"] = "1"
    env["OPENBLAS_NUM_THREADS"] = "1"
    env["MKL_NUM_THREADS"] = "1"
    env["RAYON_NUM_THREADS"] = "1"
    env["PEPIT_VERIF"] = "1"
    env["VERIF_REPO"] = REPO
    env["MPLBACKEND"] = "Agg"
    return env


def load_check(pid):
    return importlib.import_module("pv.checks.%s" % pid.lower())


def load_known():
    path = os.path.join(ROOT, "known_findings.json")
    if not os.path.exists(path):
        return []
    with open(path) as f:
        return json.load(f)["findings"]


def run_shards(pid, specs, timeout_s):
    """Run shard specs in parallel subprocesses; return list of (spec, result|None, note)."""
    rundir = os.path.join(SCRATCH, "%s_%d_%d" % (pid, os.getpid(), int(time.time())))
    os.makedirs(rundir, exist_ok=True)
    pending = list(enumerate(specs))
    running = []
    results = [None] * len(specs)
    notes = [""] * len(specs)
    try:
        while pending or running:
            while pending and len(running) < NPROC:
                i, spec = pending.pop(0)
                sp = os.path.join(rundir, "spec_%d.json" % i)
                op = os.path.join(rundir, "out_%d.json" % i)
                lp = os.path.join(rundir, "log_%d.txt" % i)
                with open(sp, "w") as f:
                    json.dump(spec, f)
                extra = spec.get("extra_path")
                lf = open(lp, "w")
                pr = subprocess.Popen([PY, "-B", os.path.join(HERE, "main.py"), "--shard", pid, sp, op],
                                      env=shard_env(extra), stdout=lf, stderr=subprocess.STDOUT, cwd=ROOT)
                running.append((i, pr, time.time(), op, lp, lf))
            time.sleep(0.05)
            still = []
            for (i, pr, t0, op, lp, lf) in running:
                rc = pr.poll()
                if rc is None:
                    if time.time() - t0 > timeout_s:
                        pr.kill()
                        pr.wait()
                        lf.close()
                        notes[i] = "watchdog"
                    else:
                        still.append((i, pr, t0, op, lp, lf))
                    continue
                lf.close()
                if rc == 0 and os.path.exists(op):
                    with open(op) as f:
                        results[i] = json.load(f)
                else:
                    tail = ""
                    try:
                        with open(lp) as f:
                            tail = f.read()[-1500:]
                    except Exception:
                        pass
                    notes[i] = "shard crashed rc=%s: %s" % (rc, tail)
            running = still
    finally:
        for (i, pr, *_r) in running:
            try:
                pr.kill()
            except Exception:
                pass
        shutil.rmtree(rundir, ignore_errors=True)
    return results, notes


def classify(pid, witness, known):
    """Return the known-finding entry matching this witness' mechanism key, or None."""
    key = witness.get("key")
    for k in known:
        if k.get("property") == pid and k.get("status") == "finding" and k.get("key") == key:
            return k
    return None


def main_check(pid, tier):
    t0 = time.time()
    seed = int(os.environ.get("VERIF_SEED", "0"))
    ensure_deps()
    sys.path[:0] = [REPO, ROOT, DEPS]
    chk = load_check(pid)
    specs = chk.plan(tier, seed)
    timeout_s = getattr(chk, "SHARD_TIMEOUT", {"quick": 900, "thorough": 7200})[tier]
    results, notes = run_shards(pid, specs, timeout_s)

    counters = {}
    sigs = set()
    samples = []
    violations = []
    observations = []
    extra = {}
    dead = []
    line_hits = {}
    for spec, res, note in zip(specs, results, notes):
        if res is None:
            dead.append({"shard": spec.get("name"), "note": note})
            continue
        for k, v in res.get("counters", {}).items():
            counters[k] = counters.get(k, 0) + v
        sigs.update(res.get("signatures", []))
        for s in res.get("samples", []):
            if len(samples) < 6:
                samples.append(s)
        for v_ in res.get("violations", []):
            if isinstance(v_, dict):
                v_.setdefault("shard_spec", spec)       # replay of last resort: re-run the shard that saw it
            violations.append(v_)
        observations.extend(res.get("observations", []))
        for k, v in res.get("line_hits", {}).items():
            line_hits.setdefault(k, set()).update(v)
        for k, v in res.get("extra", {}).items():
            if isinstance(v, list):
                extra.setdefault(k, [])
                for x in v:
                    if x not in extra[k] and len(extra[k]) < 400:
                        extra[k].append(x)
            elif isinstance(v, dict):
                d = extra.setdefault(k, {})
                for kk, vv in v.items():
                    if isinstance(vv, (int, float)):
                        d[kk] = d.get(kk, 0) + vv
                    else:
                        d[kk] = vv
            elif isinstance(v, (int, float)):
                extra[k] = extra.get(k, 0) + v
            else:
                extra[k] = v

    if hasattr(chk, "post_merge"):
        chk.post_merge(counters, extra)
    known = load_known()
    new_viol, known_hit = [], {}
    for w in violations:
        k = classify(pid, w, known)
        if k is None:
            new_viol.append(w)
        else:
            known_hit.setdefault(k["key"], []).append(w)

    # replay files
    rdir = os.path.join(os.environ.get("VERIF_REPLAY_DIR", os.path.join(ROOT, "replay")), pid)
    lines = []
    if new_viol:
        os.makedirs(rdir, exist_ok=True)
    seen_keys = {}
    for w in new_viol:
        seen_keys.setdefault(w.get("key", "?"), []).append(w)
    for key, ws in seen_keys.items():
        w = ws[0]
        h = hashlib.sha1(json.dumps(w, sort_keys=True, default=str).encode()).hexdigest()[:10]
        path = os.path.join(rdir, "%s_%s.json" % (str(key).replace("/", "_")[:60], h))
        with open(path, "w") as f:
            json.dump({"property": pid, "tier": tier, "seed": seed, "witness": w, "n_same_key": len(ws)}, f,
                      indent=1, default=str)
        lines.append("VIOLATION property=%s replay=%s" % (pid, path))
        lines.append("  key=%s what=%s (%d witness(es))" % (key, str(w.get("what"))[:300], len(ws)))
    for key, ws in known_hit.items():
        k = [x for x in known if x["key"] == key and x["property"] == pid][0]
        lines.append("KNOWN-FINDING: property=%s %s [%s] (%d witness(es) this run)" % (pid, k["what"], key, len(ws)))

    # verdict
    decided = counters.get(getattr(chk, "DECIDING_COUNTER", "decided"), 0)
    min_decided = getattr(chk, "MIN_DECIDED", {"quick": 1, "thorough": 1})[tier]
    inconclusive = None
    if dead and not new_viol:
        inconclusive = "shards did not finish: %s" % json.dumps(dead)[:600]
    elif decided < min_decided and not new_viol:
        inconclusive = "deciding monitor saw %d events (< %d)" % (decided, min_decided)
    for name, need in getattr(chk, "REQUIRED_COUNTERS", {}).get(tier, {}).items():
        if counters.get(name, 0) < need and not new_viol and inconclusive is None:
            inconclusive = "monitor %s saw %d events (< %d)" % (name, counters.get(name, 0), need)

    wall = time.time() - t0
    evaluations = max(int(counters.get(getattr(chk, "EVAL_COUNTER", getattr(chk, "DECIDING_COUNTER", "decided")), 0)), 0)
    cov = {
        "evaluations": evaluations,
        "distinct_nontrivial": len(sigs),
        "rule": chk.RULE,
        "samples": samples if samples else [{"note": "no sample recorded"}],
        "counters": counters,
        "known_findings_hit": {k: len(v) for k, v in known_hit.items()},
        "shards": len(specs),
        "shards_dead": dead,
        "observations": observations[:40],
        "verdict": "violated" if new_viol else ("inconclusive: " + inconclusive if inconclusive else "held on what was observed"),
    }
    if getattr(chk, "LEVEL", "exploration") == "translation_validation":
        cov["programs"] = int(counters.get("programs", evaluations))
        cov["disagreements_checked"] = int(counters.get("disagreements_checked", 0))
    cov.update(extra)
    if line_hits:
        cov["anchor_line_coverage"] = anchor_line_coverage(pid, line_hits)
    ev = {
        "property_id": pid, "tier": tier, "seed": seed, "level": getattr(chk, "LEVEL", "exploration"),
        "coverage": cov, "assumptions": list(getattr(chk, "ASSUMPTIONS", [])),
        "wall_s": round(wall, 2), "violations": len(new_viol),
    }
    evdir = os.environ.get("VERIF_EVIDENCE_DIR", os.path.join(ROOT, "evidence"))
    os.makedirs(evdir, exist_ok=True)
    # the file holds ONE run; a short, clearly labelled summary of the latest run of the OTHER tier is carried along so that
    # a quick run does not erase the record of the thorough one (numbers of that earlier run, not of this one)
    try:
        old = json.load(open(os.path.join(evdir, "%s.json" % pid)))
        if old.get("tier") != tier:
            oc = old.get("coverage", {})
            cov["latest_run_of_the_other_tier"] = {
                "note": "summary of an EARLIER run, copied from the previous evidence file; nothing here was measured by this run",
                "tier": old.get("tier"), "seed": old.get("seed"), "wall_s": old.get("wall_s"), "verdict": oc.get("verdict"),
                "evaluations": oc.get("evaluations"), "distinct_nontrivial": oc.get("distinct_nontrivial"),
                "violations": old.get("violations"), "counters": oc.get("counters")}
        elif "latest_run_of_the_other_tier" in old.get("coverage", {}):
            cov["latest_run_of_the_other_tier"] = old["coverage"]["latest_run_of_the_other_tier"]
    except Exception:
        pass
    with open(os.path.join(evdir, "%s.json" % pid), "w") as f:
        json.dump(ev, f, indent=1, default=str)

    for ln in lines:
        print(ln)
    print("%s %s seed=%d: %s | decided=%d distinct=%d shards=%d wall=%.1fs" % (
        pid, tier, seed, cov["verdict"], decided, len(sigs), len(specs), wall))
    brief = {k: v for k, v in sorted(counters.items())}
    print("  counters: " + json.dumps(brief))
    if new_viol:
        return 1
    if inconclusive:
        print("INCONCLUSIVE property=%s reason=%s" % (pid, inconclusive))
        return 2
    return 0


def _start_line_coverage():
    """One-shot line events (sys.monitoring, DISABLE after the first hit) on the files of the repository's package:
    which lines of the anchored code did this shard's workload actually drive.  Evidence only, never a verdict."""
    hit = {}
    try:
        mon = sys.monitoring
        tool = mon.COVERAGE_ID
        mon.use_tool_id(tool, "pv-linecov")
    except Exception:
        return hit
    root = os.path.realpath(os.path.join(REPO, "PEPit")) + os.sep

    def on_line(code, line):
        fn = code.co_filename
        if fn.startswith(root):
            hit.setdefault(fn[len(root):], set()).add(line)
        return mon.DISABLE

    mon.register_callback(tool, mon.events.LINE, on_line)
    mon.set_events(tool, mon.events.LINE)
    return hit


def _executable_lines(path):
    try:
        with open(path) as f:
            top = compile(f.read(), path, "exec")
    except Exception:
        return set()
    out, stack = set(), [top]
    while stack:
        co = stack.pop()
        doc_line = None
        for (_s, _e, ln) in co.co_lines():
            if ln:
                out.add(ln)
        for c in co.co_consts:
            if hasattr(c, "co_lines"):
                stack.append(c)
    return out


def _ranges(nums):
    nums = sorted(nums)
    out, i = [], 0
    while i < len(nums):
        j = i
        while j + 1 < len(nums) and nums[j + 1] == nums[j] + 1:
            j += 1
        out.append("%d" % nums[i] if i == j else "%d-%d" % (nums[i], nums[j]))
        i = j + 1
    return ",".join(out)


def anchor_line_coverage(pid, hits):
    """hits: {relative file: [lines]} merged over shards -> per anchored file covered / executable / missed ranges."""
    import fnmatch
    anchors = []
    try:
        with open(os.path.join(ROOT, "properties.jsonl")) as f:
            for ln in f:
                pr = json.loads(ln)
                if pr.get("id") == pid:
                    anchors = (pr.get("anchors") or {}).get("files", [])
    except Exception:
        pass
    pats = [a[len("PEPit/"):] if a.startswith("PEPit/") else a for a in anchors]
    out = {}
    base = os.path.join(REPO, "PEPit")
    for dp, _dn, fns in os.walk(base):
        for fn in fns:
            if not fn.endswith(".py") or fn == "__init__.py":
                continue
            rel = os.path.relpath(os.path.join(dp, fn), base)
            if not any(fnmatch.fnmatch(rel, p.replace("**", "*")) for p in pats):
                continue
            ex = _executable_lines(os.path.join(dp, fn))
            got = set(hits.get(rel, [])) & ex
            if rel.startswith("examples") and not got:
                continue
            out[rel] = {"covered": len(got), "executable": len(ex), "missed": _ranges(ex - got)[:400]}
    tot_c = sum(v["covered"] for v in out.values())
    tot_e = sum(v["executable"] for v in out.values())
    return {"files": out, "covered": tot_c, "executable": tot_e}


def main_shard(pid, specfile, outfile):
    with open(specfile) as f:
        spec = json.load(f)
    linecov = _start_line_coverage() if os.environ.get("PV_LINECOV", "1") == "1" else {}
    import PEPit
    assert os.path.realpath(PEPit.__file__).startswith(os.path.realpath(REPO) + os.sep), \
        "PEPit imported from %s, not from %s" % (PEPit.__file__, REPO)
    chk = load_check(pid)
    res = chk.run_shard(spec)
    res["line_hits"] = {k: sorted(v) for k, v in linecov.items()}
    tmp = outfile + ".tmp"
    with open(tmp, "w") as f:
        json.dump(res, f, default=str)
    os.replace(tmp, outfile)
    return 0


def main_replay(pid, path):
    ensure_deps()
    with open(path) as f:
        doc = json.load(f)
    w = doc.get("witness", doc)
    shard_spec = w.get("shard_spec")
    spec = {"name": "replay", "replay": {k: v for k, v in w.items() if k != "shard_spec"},
            "extra_path": w.get("extra_path") or (shard_spec or {}).get("extra_path")}
    results, notes = run_shards(pid, [spec], 3600)
    res = results[0]
    same = [v for v in (res or {}).get("violations", []) if v.get("key") == w.get("key")]
    if (res is None or not same) and shard_spec:
        # the minimal replay did not reproduce it (or this kind of witness has none): re-run the whole shard that saw it,
        # which is deterministic, and keep what it reports under the same key
        results, notes = run_shards(pid, [shard_spec], 7200)
        res2 = results[0]
        if res2 is not None:
            res = dict(res2)
            res["violations"] = [v for v in res2.get("violations", []) if v.get("key") == w.get("key")]
    if res is None:
        print("INCONCLUSIVE property=%s reason=replay shard failed: %s" % (pid, notes[0][-800:]))
        return 2
    known = load_known()
    rc = 0
    for v in res.get("violations", []):
        k = classify(pid, v, known)
        if k is None:
            print("VIOLATION property=%s replay=%s" % (pid, path))
            print("  key=%s what=%s" % (v.get("key"), str(v.get("what"))[:500]))
            rc = 1
        else:
            print("KNOWN-FINDING: property=%s %s [%s]" % (pid, k["what"], k["key"]))
    if not res.get("violations"):
        print("replay: no violation reproduced (counters %s)" % json.dumps(res.get("counters", {})))
    return rc


if __name__ == "__main__":
    a = sys.argv[1:]
    if a and a[0] == "--shard":
        sys.exit(main_shard(a[1], a[2], a[3]))
    if len(a) >= 3 and a[1] == "--replay":
        sys.path[:0] = [ROOT]
        sys.exit(main_replay(a[0].upper(), a[2]))
    if a and a[0] == "--setup":
        ensure_deps()
        print("setup ok (icontract in %s: %s)" % (DEPS, os.path.isdir(os.path.join(DEPS, "icontract"))))
        sys.exit(0)
    if len(a) < 1:
        print(__doc__)
        sys.exit(2)
    pid = a[0].upper()
    tier = a[1] if len(a) > 1 else os.environ.get("VERIF_TIER", "quick")
    if tier not in ("quick", "thorough"):
        tier = "quick"
    sys.exit(main_check(pid, tier))
