"""Table of the 24 shipped function / operator classes with admissible-parameter samplers.

kind: 'function' (function values meaningful) or 'operator'.
diff: True if the class forces reuse_gradient=True (single-valued).
"""
import math

INF = float("inf")


def _pick(rng, xs):
    return xs[rng.randrange(len(xs))]


def _L(rng):
    return _pick(rng, [1.0, 1.0, 2.0, 0.5, 3.7, 10.0, 0.25])


def _mu_below(rng, L):
    return L * _pick(rng, [0.1, 0.5, 0.01, 0.9, 0.3])


def _L_or_inf(rng):
    """documented limit value L = inf (no smoothness) in one draw out of eight"""
    return INF if rng.random() < 0.125 else _L(rng)


def _ssc_params(rng):
    r = rng.random()
    if r < 0.12:
        return {"mu": _pick(rng, [0.1, 1.0, 0.5]), "L": INF}        # limit: strongly convex, not smooth
    L = _L(rng)
    if r < 0.2:
        return {"mu": 0.0, "L": L}                                    # limit: smooth convex
    return {"mu": _mu_below(rng, L), "L": L}


CLASSES = {
    # name: (module kind, diff, param sampler)
    "ConvexFunction": ("function", False, lambda r: {}),
    "ConvexIndicatorFunction": ("function", False, lambda r: {"D": _pick(r, [INF, INF, 1.0, 2.5])}),
    "ConvexLipschitzFunction": ("function", False, lambda r: {"M": _pick(r, [1.0, 0.5, 3.0])}),
    "ConvexQGFunction": ("function", False, lambda r: {"L": _L(r)}),
    "ConvexSupportFunction": ("function", False, lambda r: {"M": _pick(r, [INF, 1.0, 2.0])}),
    "RsiEbFunction": ("function", False, lambda r: (lambda L: {"mu": _mu_below(r, L), "L": L})(_L(r))),
    "SmoothConvexFunction": ("function", True, lambda r: {"L": _L_or_inf(r)}),
    "SmoothConvexLipschitzFunction": ("function", True, lambda r: {"L": _L(r), "M": _pick(r, [1.0, 0.5, 3.0])}),
    "SmoothFunction": ("function", True, lambda r: {"L": _L(r)}),
    "SmoothStronglyConvexFunction": ("function", True, lambda r: _ssc_params(r)),
    "StronglyConvexFunction": ("function", False, lambda r: {"mu": _pick(r, [0.1, 1.0, 0.5])}),
    "SmoothStronglyConvexQuadraticFunction": ("function", True,
                                              lambda r: (lambda L: {"mu": _mu_below(r, L), "L": L})(_L(r))),
    "BlockSmoothConvexFunction": ("function", True, None),  # needs a partition: handled specially
    "MonotoneOperator": ("operator", False, lambda r: {}),
    "StronglyMonotoneOperator": ("operator", False, lambda r: {"mu": _pick(r, [0.1, 1.0, 0.5])}),
    "CocoerciveOperator": ("operator", True, lambda r: {"beta": _pick(r, [1.0, 0.5, 2.0])}),
    "CocoerciveStronglyMonotoneOperator": ("operator", True,
                                           lambda r: (lambda b: {"beta": b, "mu": _pick(r, [0.1, 0.5]) / b})(
                                               _pick(r, [1.0, 0.5, 2.0]))),
    "LipschitzOperator": ("operator", True, lambda r: {"L": _pick(r, [1.0, 0.5, 2.0, 0.9])}),
    "LipschitzStronglyMonotoneOperator": ("operator", True,
                                          lambda r: (lambda L: {"mu": _mu_below(r, L), "L": L})(_L(r))),
    "NegativelyComonotoneOperator": ("operator", True, lambda r: {"rho": _pick(r, [0.1, 0.5, 1.0])}),
    "NonexpansiveOperator": ("operator", True, lambda r: {}),
    "LinearOperator": ("operator", True, lambda r: {"L": _pick(r, [1.0, 2.0, 0.5])}),
    "SymmetricLinearOperator": ("operator", True,
                                lambda r: (lambda L: {"mu": _pick(r, [0.0, 0.1 * L, -0.5 * L, 0.5 * L]), "L": L})(_L(r))),
    "SkewSymmetricLinearOperator": ("operator", True, lambda r: {"L": _pick(r, [1.0, 2.0, 0.5])}),
}

FUNCTION_CLASSES = [k for k, v in CLASSES.items() if v[0] == "function"]
OPERATOR_CLASSES = [k for k, v in CLASSES.items() if v[0] == "operator"]


def get_class(name):
    import PEPit.functions as F
    import PEPit.operators as O
    if hasattr(F, name):
        return getattr(F, name)
    return getattr(O, name)


def json_params(params):
    """inf is not JSON: encode as string."""
    out = {}
    for k, v in params.items():
        if isinstance(v, float) and math.isinf(v):
            out[k] = "inf"
        else:
            out[k] = v
    return out


def real_params(params):
    out = {}
    for k, v in params.items():
        out[k] = INF if v == "inf" else v
    return out
