"""Stand-in for the `mosek` package (MOSEK is not installed in this sandbox).

Implements exactly the Optimizer-API subset PEPit uses, RECORDS every Task call (the event log C05/C11 read),
VALIDATES arguments the way MOSEK does (lower-triangular input of appendsparsesymmat, index ranges,
dimension agreement) raising mosek.Error, and on optimize() rebuilds the conic problem from the recorded data,
solves it with cvxpy + Clarabel and returns primal / dual solutions in MOSEK's documented conventions:

  primal   max/min  c'x + sum_j <C_j, X_j>   s.t.  l_i <= a_i'x + sum_j <A_ij, X_j> <= u_i,  lx <= x <= ux, X_j >= 0
  new variables are FIXED AT 0 until bounded, new constraints are FREE until bounded
  dual     A'y + slx - sux = c ,  S_j = C_j - sum_i y_i A_ij
           maximisation: active upper bounds give y >= 0, S_j is NEGATIVE semidefinite
           minimisation: active upper bounds give y <= 0, S_j is POSITIVE semidefinite
  matrix solutions are returned as packed lower triangles, column by column.

Before returning, optimize() CHECKS ITS OWN OUTPUT against these dual equations, the sign cones and the zero gap;
a failure raises StandInSelfCheckError (a harness error => inconclusive), so the sign mapping is not merely asserted.
Trusted base: this transcription of the MOSEK 10 manual.  The package is put on sys.path only in the shards that
need it.  Licence state: env PV_MOSEK_LICENSE in {valid (default), invalid}.
"""
import os

import numpy as np

__version__ = "0.0-standin"
ALL_TASKS = []            # every Task created in this process (monitors read the call logs from here)


class Error(Exception):
    pass


class StandInSelfCheckError(Exception):
    """the stand-in's own output violates the documented dual equations: harness error, never a PEPit verdict"""


class _Enum(object):
    def __init__(self, name):
        self._n = name

    def __repr__(self):
        return self._n

    __str__ = __repr__


def _mk(prefix, names):
    class NS(object):
        pass
    ns = NS()
    for n in names:
        setattr(ns, n, _Enum("%s.%s" % (prefix, n)))
    return ns


feature = _mk("feature", ["pton", "pts"])
boundkey = _mk("boundkey", ["fr", "up", "lo", "fx", "ra"])
soltype = _mk("soltype", ["itr", "bas", "itg"])
objsense = _mk("objsense", ["maximize", "minimize"])
streamtype = _mk("streamtype", ["log", "msg", "err", "wrn"])
prosta = _mk("prosta", ["unknown", "prim_and_dual_feas", "prim_feas", "dual_feas", "prim_infeas", "dual_infeas",
                        "prim_and_dual_infeas", "ill_posed", "prim_infeas_or_unbounded"])
solsta = _mk("solsta", ["unknown", "optimal", "prim_feas", "dual_feas", "prim_and_dual_feas", "prim_infeas_cer",
                        "dual_infeas_cer", "prim_illposed_cer", "dual_illposed_cer", "integer_optimal"])


def _license_valid():
    return os.environ.get("PV_MOSEK_LICENSE", "valid") == "valid"


class Env(object):
    def __init__(self, *a, **kw):
        pass

    def Task(self, *a, **kw):
        return Task(self)

    def checkoutlicense(self, feat):
        if not _license_valid():
            raise Error("License cannot be checked out (stand-in: PV_MOSEK_LICENSE=invalid)")

    def expirylicenses(self):
        return 365 if _license_valid() else -1

    def __enter__(self):
        return self

    def __exit__(self, *a):
        return False


def _ints(a, what):
    arr = np.asarray(a)
    if arr.size == 0:
        return np.zeros(0, dtype=np.int64)
    if arr.dtype.kind not in "iu":
        if arr.dtype.kind == "f" and np.all(arr == np.round(arr)):
            arr = arr.astype(np.int64)
        else:
            raise Error("%s: integer indices expected, got dtype %s" % (what, arr.dtype))
    return arr.astype(np.int64).ravel()


class Task(object):
    def __init__(self, env=None):
        self.env = env
        self.calls = []
        self.bardim = []
        self.numvar = 0
        self.numcon = 0
        self.vbk, self.vbl, self.vbu = [], [], []
        self.cbk, self.cbl, self.cbu = [], [], []
        self.symmats = []             # (dim, dense symmetric ndarray)
        self.aij = {}                 # (i, j) -> value
        self.baraij = {}              # (i, j) -> list of (symmat idx, weight)
        self.c = {}                   # j -> value
        self.barc = {}                # j -> list of (symmat idx, weight)
        self.sense = objsense.minimize
        self.sol = None
        self.optimize_count = 0
        self.stream = None
        ALL_TASKS.append(self)

    def _rec(self, name, *args):
        def conv(x):
            if isinstance(x, np.ndarray):
                return x.tolist()
            if isinstance(x, (list, tuple)):
                return [conv(y) for y in x]
            if isinstance(x, (np.integer,)):
                return int(x)
            if isinstance(x, (np.floating,)):
                return float(x)
            if isinstance(x, _Enum):
                return repr(x)
            return x
        self.calls.append((name, [conv(a) for a in args]))

    # ---- model building -------------------------------------------------------------------------------
    def set_Stream(self, st, fn):
        self._rec("set_Stream", st)
        self.stream = fn

    def appendbarvars(self, dims):
        self._rec("appendbarvars", dims)
        for d in _ints(dims, "appendbarvars"):
            if d < 0:
                raise Error("appendbarvars: negative dimension")
            self.bardim.append(int(d))

    def appendvars(self, n):
        self._rec("appendvars", n)
        n = int(n)
        if n < 0:
            raise Error("appendvars: negative count")
        self.numvar += n
        for _ in range(n):
            self.vbk.append(boundkey.fx)
            self.vbl.append(0.0)
            self.vbu.append(0.0)

    def putvarbound(self, j, bk, bl, bu):
        self._rec("putvarbound", j, bk, bl, bu)
        j = int(j)
        if not 0 <= j < self.numvar:
            raise Error("putvarbound: variable index %d out of range [0,%d)" % (j, self.numvar))
        self.vbk[j], self.vbl[j], self.vbu[j] = bk, float(bl), float(bu)

    def getnumcon(self):
        return self.numcon

    def getnumvar(self):
        return self.numvar

    def getnumbarvar(self):
        return len(self.bardim)

    def getmaxnumvar(self):
        return self.numvar

    def appendcons(self, n):
        self._rec("appendcons", n)
        n = int(n)
        self.numcon += n
        for _ in range(n):
            self.cbk.append(boundkey.fr)
            self.cbl.append(0.0)
            self.cbu.append(0.0)

    def appendsparsesymmat(self, dim, subi, subj, valij):
        self._rec("appendsparsesymmat", dim, subi, subj, valij)
        dim = int(dim)
        si, sj = _ints(subi, "appendsparsesymmat.subi"), _ints(subj, "appendsparsesymmat.subj")
        v = np.asarray(valij, dtype=float).ravel()
        if not (len(si) == len(sj) == len(v)):
            raise Error("appendsparsesymmat: subi, subj, valij must have the same length")
        M = np.zeros((dim, dim))
        seen = set()
        for i, j, x in zip(si, sj, v):
            if not (0 <= i < dim and 0 <= j < dim):
                raise Error("appendsparsesymmat: index (%d,%d) out of range for dimension %d" % (i, j, dim))
            if i < j:
                raise Error("appendsparsesymmat: only the lower triangular part may be specified, got (%d,%d)" % (i, j))
            if (i, j) in seen:
                raise Error("appendsparsesymmat: duplicate element (%d,%d)" % (i, j))
            seen.add((i, j))
            M[i, j] += x
            if i != j:
                M[j, i] += x
        self.symmats.append((dim, M))
        return len(self.symmats) - 1

    def _check_sub(self, j, sub, weights, what):
        j = int(j)
        if not 0 <= j < len(self.bardim):
            raise Error("%s: semidefinite variable index %d out of range [0,%d)" % (what, j, len(self.bardim)))
        sub = _ints(sub, what + ".sub")
        w = np.asarray(weights, dtype=float).ravel()
        if len(sub) != len(w):
            raise Error("%s: sub and weights must have the same length" % what)
        for s in sub:
            if not 0 <= s < len(self.symmats):
                raise Error("%s: symmetric matrix index %d out of range" % (what, s))
            if self.symmats[s][0] != self.bardim[j]:
                raise Error("%s: matrix %d has dimension %d but semidefinite variable %d has dimension %d"
                            % (what, s, self.symmats[s][0], j, self.bardim[j]))
        return j, [(int(s), float(x)) for s, x in zip(sub, w)]

    def putbaraij(self, i, j, sub, weights):
        self._rec("putbaraij", i, j, sub, weights)
        i = int(i)
        if not 0 <= i < self.numcon:
            raise Error("putbaraij: constraint index %d out of range [0,%d)" % (i, self.numcon))
        j, lst = self._check_sub(j, sub, weights, "putbaraij")
        self.baraij[(i, j)] = lst

    def putbarcj(self, j, sub, weights):
        self._rec("putbarcj", j, sub, weights)
        j, lst = self._check_sub(j, sub, weights, "putbarcj")
        self.barc[j] = lst

    def putaijlist(self, subi, subj, valij):
        self._rec("putaijlist", subi, subj, valij)
        si, sj = _ints(subi, "putaijlist.subi"), _ints(subj, "putaijlist.subj")
        v = np.asarray(valij, dtype=float).ravel()
        if not (len(si) == len(sj) == len(v)):
            raise Error("putaijlist: arguments must have the same length")
        for i, j, x in zip(si, sj, v):
            if not 0 <= i < self.numcon:
                raise Error("putaijlist: constraint index %d out of range [0,%d)" % (i, self.numcon))
            if not 0 <= j < self.numvar:
                raise Error("putaijlist: variable index %d out of range [0,%d)" % (j, self.numvar))
            self.aij[(int(i), int(j))] = float(x)

    def putaij(self, i, j, x):
        self.putaijlist([i], [j], [x])

    def putconbound(self, i, bk, bl, bu):
        self._rec("putconbound", i, bk, bl, bu)
        i = int(i)
        if not 0 <= i < self.numcon:
            raise Error("putconbound: constraint index %d out of range [0,%d)" % (i, self.numcon))
        self.cbk[i], self.cbl[i], self.cbu[i] = bk, float(bl), float(bu)

    def putclist(self, subj, val):
        self._rec("putclist", subj, val)
        sj = _ints(subj, "putclist.subj")
        v = np.asarray(val, dtype=float).ravel()
        if len(sj) != len(v):
            raise Error("putclist: arguments must have the same length")
        for j, x in zip(sj, v):
            if not 0 <= j < self.numvar:
                raise Error("putclist: variable index %d out of range [0,%d)" % (j, self.numvar))
            self.c[int(j)] = float(x)

    def putcj(self, j, x):
        self.putclist([j], [x])

    def putobjsense(self, sense):
        self._rec("putobjsense", sense)
        self.sense = sense

    def solutionsummary(self, st):
        self._rec("solutionsummary", st)

    # ---- dense reconstruction (also used by the monitors) ----------------------------------------------
    def dense(self):
        """rows: list of dict {a: vector(numvar), bar: {j: matrix}, bk, bl, bu}; objective (c, {j: C_j})."""
        rows = []
        for i in range(self.numcon):
            a = np.zeros(self.numvar)
            rows.append({"a": a, "bar": {}, "bk": self.cbk[i], "bl": self.cbl[i], "bu": self.cbu[i]})
        for (i, j), x in self.aij.items():
            rows[i]["a"][j] = x
        for (i, j), lst in self.baraij.items():
            M = np.zeros((self.bardim[j], self.bardim[j]))
            for s, w in lst:
                M = M + w * self.symmats[s][1]
            rows[i]["bar"][j] = M
        c = np.zeros(self.numvar)
        for j, x in self.c.items():
            c[j] = x
        C = {}
        for j, lst in self.barc.items():
            M = np.zeros((self.bardim[j], self.bardim[j]))
            for s, w in lst:
                M = M + w * self.symmats[s][1]
            C[j] = M
        return rows, c, C

    # ---- solving --------------------------------------------------------------------------------------
    def optimize(self, **kwargs):
        self._rec("optimize", sorted(kwargs))
        import cvxpy as cp
        self.optimize_count += 1
        rows, c, C = self.dense()
        x = cp.Variable(self.numvar) if self.numvar else None
        X = [cp.Variable((d, d), symmetric=True) if d > 0 else None for d in self.bardim]
        cons = []
        psd_cons = []
        for j, d in enumerate(self.bardim):
            if d > 0:
                k = (X[j] >> 0)
                cons.append(k)
                psd_cons.append(k)
            else:
                psd_cons.append(None)

        def rowexpr(r):
            e = 0
            if self.numvar and np.any(r["a"] != 0):
                e = e + r["a"] @ x
            for j, M in r["bar"].items():
                if self.bardim[j] > 0 and np.any(M != 0):
                    e = e + cp.sum(cp.multiply(M, X[j]))
            return e

        row_cons = []      # per row: list of (kind, cvxpy constraint) kind in up/lo/fx
        for r in rows:
            e = rowexpr(r)
            bk = r["bk"]
            lst = []
            if isinstance(e, (int, float)):
                e = cp.Constant(0.0) + e
            if bk is boundkey.up or bk is boundkey.ra:
                k = (e <= r["bu"]); cons.append(k); lst.append(("up", k))
            if bk is boundkey.lo or bk is boundkey.ra:
                k = (e >= r["bl"]); cons.append(k); lst.append(("lo", k))
            if bk is boundkey.fx:
                k = (e == r["bl"]); cons.append(k); lst.append(("fx", k))
            row_cons.append(lst)
        var_cons = []
        for j in range(self.numvar):
            bk = self.vbk[j]
            lst = []
            if bk is boundkey.fx:
                k = (x[j] == self.vbl[j]); cons.append(k); lst.append(("fx", k))
            if bk is boundkey.up or bk is boundkey.ra:
                k = (x[j] <= self.vbu[j]); cons.append(k); lst.append(("up", k))
            if bk is boundkey.lo or bk is boundkey.ra:
                k = (x[j] >= self.vbl[j]); cons.append(k); lst.append(("lo", k))
            var_cons.append(lst)
        obj = 0
        if self.numvar and np.any(c != 0):
            obj = obj + c @ x
        for j, M in C.items():
            if self.bardim[j] > 0:
                obj = obj + cp.sum(cp.multiply(M, X[j]))
        if isinstance(obj, (int, float)):
            obj = cp.Constant(0.0)
        maximize = self.sense is objsense.maximize
        # always a minimisation in cvxpy, so that the dual convention is the textbook one
        prob = cp.Problem(cp.Minimize(-obj if maximize else obj), cons)
        try:
            prob.solve(solver="CLARABEL")
        except cp.SolverError:
            try:
                prob.solve(solver="SCS", eps=1e-9, max_iters=200000)
            except cp.SolverError:
                self.sol = {"prosta": prosta.unknown, "solsta": solsta.unknown, "xx": np.zeros(self.numvar),
                            "barx": [np.zeros((d, d)) for d in self.bardim], "y": np.zeros(self.numcon),
                            "bars": [np.zeros((d, d)) for d in self.bardim], "cvx_status": "solver_error"}
                return
        st = prob.status
        sol = {"cvx_status": st}
        if st in ("optimal", "optimal_inaccurate"):
            xx = np.array(x.value, dtype=float).ravel() if self.numvar else np.zeros(0)
            barx = [np.array(X[j].value, dtype=float) if d > 0 else np.zeros((0, 0)) for j, d in enumerate(self.bardim)]
            sign = 1.0 if maximize else -1.0     # y = +lambda for max, -lambda for min (see module docstring)
            y = np.zeros(self.numcon)
            for i, lst in enumerate(row_cons):
                for kind, k in lst:
                    d = float(np.asarray(k.dual_value).ravel()[0]) if k.dual_value is not None else 0.0
                    if kind == "up":
                        y[i] += sign * d
                    elif kind == "lo":
                        y[i] -= sign * d
                    else:
                        y[i] += sign * d
            bars = []
            for j, d in enumerate(self.bardim):
                if d == 0:
                    bars.append(np.zeros((0, 0)))
                    continue
                Z = np.array(psd_cons[j].dual_value, dtype=float)
                Z = (Z + Z.T) / 2
                bars.append(-Z if maximize else Z)
            sol.update({"prosta": prosta.prim_and_dual_feas, "solsta": solsta.optimal, "xx": xx, "barx": barx,
                        "y": y, "bars": bars})
            if st == "optimal" and self._primal_violation(sol, rows) <= 1e-6:
                self._self_check(sol, rows, c, C, maximize)
            else:
                # an inaccurate answer of the underlying solver is NOT reported as an optimal MOSEK solution
                sol["solsta"] = solsta.unknown
                sol["prosta"] = prosta.unknown
        else:
            infeas = "infeasible" in st
            sol.update({"prosta": prosta.prim_infeas if infeas else prosta.dual_infeas,
                        "solsta": solsta.prim_infeas_cer if infeas else solsta.dual_infeas_cer,
                        "y": np.zeros(self.numcon), "bars": [np.zeros((d, d)) for d in self.bardim]})
            xx, barx = self._ray(rows, c, C, maximize) if not infeas else (np.zeros(self.numvar),
                                                                         [np.zeros((d, d)) for d in self.bardim])
            sol.update({"xx": xx, "barx": barx})
        self.sol = sol

    def _primal_violation(self, sol, rows):
        """largest violation of rows / bounds / semidefiniteness by the returned primal solution, relative to its size"""
        xx, barx = sol["xx"], sol["barx"]
        scale = 1.0 + max([float(np.max(np.abs(xx))) if len(xx) else 0.0] + [float(np.max(np.abs(X))) if X.size else 0.0 for X in barx])
        worst = 0.0
        for r in rows:
            v = float(r["a"] @ xx) if self.numvar else 0.0
            for j, Mx in r["bar"].items():
                v += float(np.sum(Mx * barx[j]))
            bk = r["bk"]
            if bk in (boundkey.up, boundkey.ra):
                worst = max(worst, v - r["bu"])
            if bk in (boundkey.lo, boundkey.ra):
                worst = max(worst, r["bl"] - v)
            if bk is boundkey.fx:
                worst = max(worst, abs(v - r["bl"]))
        for j in range(self.numvar):
            if self.vbk[j] is boundkey.fx:
                worst = max(worst, abs(xx[j] - self.vbl[j]))
        for X in barx:
            if X.size:
                worst = max(worst, -float(np.linalg.eigvalsh((X + X.T) / 2).min()))
        return worst / scale

    def _ray(self, rows, c, C, maximize):
        """For a dual-infeasible (unbounded) task MOSEK reports a primal ray as 'solution': finite arrays."""
        import cvxpy as cp
        try:
            x = cp.Variable(self.numvar) if self.numvar else None
            X = [cp.Variable((d, d), symmetric=True) if d > 0 else None for d in self.bardim]
            cons = [Xj >> 0 for Xj in X if Xj is not None] + [cp.trace(Xj) <= 1 for Xj in X if Xj is not None]
            if self.numvar:
                cons += [x <= 1, x >= -1]
                for j in range(self.numvar):
                    if self.vbk[j] is boundkey.fx:
                        cons.append(x[j] == 0)
            for r in rows:
                e = 0
                if self.numvar and np.any(r["a"] != 0):
                    e = e + r["a"] @ x
                for j, M in r["bar"].items():
                    if self.bardim[j] > 0:
                        e = e + cp.sum(cp.multiply(M, X[j]))
                if isinstance(e, (int, float)):
                    continue
                bk = r["bk"]
                if bk is boundkey.up:
                    cons.append(e <= 0)
                elif bk is boundkey.lo:
                    cons.append(e >= 0)
                elif bk in (boundkey.fx, boundkey.ra):
                    cons.append(e == 0)
            obj = 0
            if self.numvar and np.any(c != 0):
                obj = obj + c @ x
            for j, M in C.items():
                if self.bardim[j] > 0:
                    obj = obj + cp.sum(cp.multiply(M, X[j]))
            if isinstance(obj, (int, float)):
                raise ValueError
            prob = cp.Problem(cp.Maximize(obj) if maximize else cp.Minimize(obj), cons)
            prob.solve(solver="CLARABEL")
            xx = np.array(x.value, dtype=float).ravel() if self.numvar else np.zeros(0)
            barx = [np.array(X[j].value, dtype=float) if d > 0 else np.zeros((0, 0)) for j, d in enumerate(self.bardim)]
            return xx, barx
        except Exception:
            return np.zeros(self.numvar), [np.zeros((d, d)) for d in self.bardim]

    def _self_check(self, sol, rows, c, C, maximize):
        """Dual feasibility equations of the manual, sign cones, zero gap (relative 2e-5)."""
        y, xx = sol["y"], sol["xx"]
        scale = 1.0 + max([abs(v) for v in y] + [abs(v) for v in c] + [0.0])
        tol = 2e-5 * scale
        # A'y + slx - sux = c : for free variables slx = sux = 0
        if self.numvar:
            r = c.copy()
            for i, row in enumerate(rows):
                r = r - y[i] * row["a"]
            for j in range(self.numvar):
                if self.vbk[j] is boundkey.fr and abs(r[j]) > tol:
                    raise StandInSelfCheckError("A'y = c violated on free variable %d by %.3e" % (j, r[j]))
        for j, d in enumerate(self.bardim):
            if d == 0:
                continue
            S = C.get(j, np.zeros((d, d))).copy()
            for i, row in enumerate(rows):
                if j in row["bar"]:
                    S = S - y[i] * row["bar"][j]
            if np.max(np.abs(S - sol["bars"][j])) > tol * (1 + np.max(np.abs(S))):
                raise StandInSelfCheckError("S_%d != C_%d - sum y_i A_i%d (%.3e)" % (j, j, j, np.max(np.abs(S - sol["bars"][j]))))
            ev = np.linalg.eigvalsh((S + S.T) / 2)
            if maximize and np.max(ev) > tol * (1 + np.max(np.abs(S))):
                raise StandInSelfCheckError("S_%d not negative semidefinite for a maximisation (max eig %.3e)" % (j, np.max(ev)))
            if (not maximize) and np.min(ev) < -tol * (1 + np.max(np.abs(S))):
                raise StandInSelfCheckError("S_%d not positive semidefinite for a minimisation (min eig %.3e)" % (j, np.min(ev)))
        for i, row in enumerate(rows):
            bk = row["bk"]
            if bk is boundkey.up and ((maximize and y[i] < -tol) or ((not maximize) and y[i] > tol)):
                raise StandInSelfCheckError("sign of y[%d]=%.3e wrong for an upper-bounded row" % (i, y[i]))
            if bk is boundkey.fr and abs(y[i]) > tol:
                raise StandInSelfCheckError("free row %d has y=%.3e" % (i, y[i]))
        # zero gap: primal objective == dual objective (u's for up rows, b's for fx rows)
        pobj = float(c @ xx) if self.numvar else 0.0
        for j, M in C.items():
            pobj += float(np.sum(M * sol["barx"][j]))
        dobj = 0.0
        for i, row in enumerate(rows):
            bk = row["bk"]
            if bk in (boundkey.up, boundkey.fx):
                dobj += y[i] * row["bu"]
            elif bk is boundkey.lo:
                dobj += y[i] * row["bl"]
        if abs(pobj - dobj) > 1e-4 * (1 + abs(pobj)):
            raise StandInSelfCheckError("duality gap %.3e (primal %.9g dual %.9g)" % (pobj - dobj, pobj, dobj))

    # ---- solution access -------------------------------------------------------------------------------
    def _need(self):
        if self.sol is None:
            raise Error("no solution available: optimize() has not been called")
        return self.sol

    def getxx(self, st):
        return list(self._need()["xx"])

    @staticmethod
    def _pack(M):
        d = M.shape[0]
        out = []
        for j in range(d):
            for i in range(j, d):
                out.append(float(M[i, j]))
        return out

    def getbarxj(self, st, j):
        s = self._need()
        if not 0 <= j < len(self.bardim):
            raise Error("getbarxj: semidefinite variable index %d out of range" % j)
        return self._pack(s["barx"][j])

    def getbarsj(self, st, j):
        s = self._need()
        if not 0 <= j < len(self.bardim):
            raise Error("getbarsj: semidefinite variable index %d out of range" % j)
        return self._pack(s["bars"][j])

    def gety(self, st):
        return list(self._need()["y"])

    def getprosta(self, st):
        return self._need()["prosta"]

    def getsolsta(self, st):
        return self._need()["solsta"]

    def getprimalobj(self, st):
        s = self._need()
        rows, c, C = self.dense()
        v = float(c @ s["xx"]) if self.numvar else 0.0
        for j, M in C.items():
            v += float(np.sum(M * s["barx"][j]))
        return v

    def __enter__(self):
        return self

    def __exit__(self, *a):
        return False
