"""Numeric execution of the shipped examples on REAL functions (C09).

The examples are written against a small API (PEP, declare_function, points/expressions algebra, primitive
steps).  Here that API is re-implemented NUMERICALLY: points are numpy vectors, expressions are floats, a declared
function is a real member of the declared class (pv/ref/members.py), primitive steps are the real operations
(exact prox / resolvent, exact line search, linear minimisation oracle, admissible inexact gradients).  Swapping
these names into an example module makes `wc_xxx(params)` RUN THE MODELLED METHOD on a real function and return its
performance instead of the PEP value.  Nothing of PEPit's modelling code is used on this side.
"""
import math
import random

import numpy as np

from pv.ref import members as M


class Unsupported(Exception):
    """the numeric side cannot execute this construct (counted as skipped, never a verdict)"""


class InvalidRun(Exception):
    """a declared constraint does not hold in this numeric run (e.g. initial condition violated)"""


CTX = None
RUN_CACHE = {}


class Ctx(object):
    def __init__(self, member_seed, dir_seed, dim, scale=1.0, adversary=None):
        self.member_seed = member_seed
        self.dir_seed = dir_seed
        self.dim = dim
        self.scale = scale
        self.n_decl = 0
        self.n_init = 0
        self.n_choice = 0
        self.constraints = []
        self.metrics = []
        self.anchor = None
        self.functions = []
        self.adversary = adversary or {}
        self.solve_calls = 0
        self.n_free = 0
        self.free = []
        self.special_points = []      # ("stationary" | "fixed", function, vector) in call order
        self.init_points = []         # starting points in call order

    def choice_rng(self):
        self.n_choice += 1
        return random.Random("%s/choice/%d" % (self.dir_seed, self.n_choice))

    def unit(self, d, rng):
        """a unit vector chosen inside a step: the adversary's if it fixed the k-th one, a random one otherwise"""
        self.n_unit = getattr(self, "n_unit", 0) + 1
        u = self.adversary.get("units", {}).get(self.n_unit - 1)
        if u is None or len(u) != d:
            u = np.array([rng.gauss(0, 1) for _ in range(d)])
        u = np.asarray(u, dtype=float)
        return u / max(np.linalg.norm(u), 1e-12)

    def level(self, rng, options):
        """a number in [0, 1] chosen inside a step (how inexact an admissible answer is)"""
        self.n_level = getattr(self, "n_level", 0) + 1
        t = self.adversary.get("levels", {}).get(self.n_level - 1)
        if t is None:
            return rng.choice(options)
        return min(1.0, max(0.0, float(t)))


# ---- algebra -------------------------------------------------------------------------------------------------
class NPt(object):
    __array_priority__ = 1000

    def __init__(self, v, name=None):
        self.v = np.asarray(v, dtype=float)
        self.name = name

    def _c(self, o):
        if isinstance(o, NPt):
            return o.v
        raise TypeError("point expected")

    def __add__(self, o):
        return NPt(self.v + self._c(o))

    def __sub__(self, o):
        return NPt(self.v - self._c(o))

    def __neg__(self):
        return NPt(-self.v)

    def __mul__(self, o):
        if isinstance(o, NPt):
            return NEx(float(self.v @ o.v))
        if isinstance(o, (int, float, np.floating, np.integer)):
            return NPt(self.v * float(o))
        raise TypeError("bad operand")

    __rmul__ = __mul__

    def __truediv__(self, o):
        return NPt(self.v / float(o))

    def __pow__(self, p):
        assert p == 2
        e = NEx(float(self.v @ self.v))
        e.sq_of = self.v              # remembered so that  p**2 == 0  can be solved as the smooth system  p = 0
        return e

    def eval(self):
        return self.v

    def set_name(self, n):
        self.name = n

    def get_name(self):
        return self.name


class NEx(object):
    def __init__(self, x, name=None):
        self.x = float(x)
        self.name = name

    @staticmethod
    def _c(o):
        if isinstance(o, NEx):
            return o.x
        if isinstance(o, (int, float, np.floating, np.integer)):
            return float(o)
        raise TypeError("expression or scalar expected")

    def __add__(self, o):
        return NEx(self.x + self._c(o))

    __radd__ = __add__

    def __sub__(self, o):
        return NEx(self.x - self._c(o))

    def __rsub__(self, o):
        return NEx(self._c(o) - self.x)

    def __neg__(self):
        return NEx(-self.x)

    def __mul__(self, o):
        if isinstance(o, (int, float, np.floating, np.integer)):
            return NEx(self.x * float(o))
        raise TypeError("expressions can only be multiplied by scalars")

    __rmul__ = __mul__

    def __truediv__(self, o):
        return NEx(self.x / float(o))

    def __le__(self, o):
        return NCons(self.x - self._c(o), "inequality")

    def __ge__(self, o):
        return NCons(self._c(o) - self.x, "inequality")

    def __lt__(self, o):
        return self.__le__(o)

    def __gt__(self, o):
        return self.__ge__(o)

    def __eq__(self, o):
        c = NCons(self.x - self._c(o), "equality")
        if getattr(self, "sq_of", None) is not None and self._c(o) == 0:
            c.residual = self.sq_of
        return c

    def __hash__(self):
        return id(self)

    def eval(self):
        return self.x

    def set_name(self, n):
        self.name = n

    def get_name(self):
        return self.name


class NCons(object):
    def __init__(self, value, kind):
        self.value = value
        self.kind = kind
        self.name = None

    def set_name(self, n):
        self.name = n

    def violation(self):
        # equalities are searched as roots: expr(scale) is increasing in the scale of the initial displacement
        return self.value


# ---- functions -----------------------------------------------------------------------------------------------
def _key(v):
    return tuple(np.round(np.asarray(v, dtype=float), 10))


class NFunc(object):
    """leaf: wraps a real member; composite: weighted sum of leaves."""

    def __init__(self, member=None, terms=None, cls=None, params=None):
        self.member = member
        self.terms = terms            # list of (weight, leaf NFunc) for composites
        self.cls = cls
        self.params = params or {}
        self.forced = {}              # point key -> forced (sub)gradient value
        self.values_seen = {}
        self.name = None
        self.reuse_gradient = (member is not None and not member.multivalued)
        self.T = None
        if member is not None and cls == "LinearOperator":
            self.T = NTranspose(self)

    # -- algebra on functions
    def _terms(self):
        return self.terms if self.terms is not None else [(1.0, self)]

    def __add__(self, o):
        return NFunc(terms=_merge(self._terms() + o._terms()))

    def __sub__(self, o):
        return NFunc(terms=_merge(self._terms() + [(-w, f) for w, f in o._terms()]))

    def __neg__(self):
        return NFunc(terms=[(-w, f) for w, f in self._terms()])

    def __mul__(self, c):
        return NFunc(terms=[(w * float(c), f) for w, f in self._terms()])

    __rmul__ = __mul__

    def __truediv__(self, c):
        return self * (1.0 / float(c))

    def is_leaf(self):
        return self.terms is None

    # -- evaluation
    def _check_domain(self, xv):
        m = self.member
        if m is not None and m.restricted_domain:
            inner = getattr(m, "fm", m)
            dist = inner.dist(xv) if hasattr(inner, "dist") else 0.0
            if dist > 1e-9:
                # evaluating an indicator outside its set: this run is not a real execution
                CTX.constraints.append((NCons(dist, "inequality"), "domain"))

    def _value(self, xv):
        if self.is_leaf():
            self._check_domain(xv)
            return self.member.value(xv)
        return sum(w * f._value(xv) for w, f in self.terms)

    def _grad(self, xv):
        if self.is_leaf():
            self._check_domain(xv)
            k = _key(xv)
            if k in self.forced:
                return self.forced[k]
            g = self.member.grad(xv, CTX.choice_rng() if self.member.multivalued else None)
            if not self.member.multivalued:
                return g
            return g
        return sum(w * f._grad(xv) for w, f in self.terms)

    def gradient(self, x, name=None):
        return NPt(self._grad(x.v))

    subgradient = gradient

    def value(self, x, name=None):
        return NEx(self._value(x.v))

    __call__ = value

    def oracle(self, x):
        return NPt(self._grad(x.v)), NEx(self._value(x.v))

    def add_constraint(self, c, name=None):
        CTX.constraints.append((c, "function"))

    def add_psd_matrix(self, m, name=None):
        raise Unsupported("function-level LMI in a numeric run")

    def set_name(self, n):
        self.name = n

    def get_name(self):
        return self.name

    # -- special points
    def stationary_point(self, return_gradient_and_function_value=False, name=None):
        xs = self._minimiser()
        CTX.anchor = xs
        CTX.special_points.append(("stationary", self, np.array(xs, dtype=float)))
        x = NPt(xs, name)
        if return_gradient_and_function_value:
            return x, NPt(np.zeros_like(xs)), NEx(self._value(xs))
        return x

    def fixed_point(self, name=None):
        if not self.is_leaf():
            raise Unsupported("fixed point of a composite")
        fp = self.member.fixed_point()
        if fp is None:
            raise Unsupported("member without fixed point")
        CTX.anchor = fp
        CTX.special_points.append(("fixed", self, np.array(fp, dtype=float)))
        x = NPt(fp, name)
        return x, x, NEx(0.0)

    def _minimiser(self):
        leaves = self._terms()
        if len(leaves) == 1 and leaves[0][0] > 0:
            st = leaves[0][1].member.stationary()
            if st is not None:
                leaves[0][1].forced[_key(st)] = np.zeros_like(st)
                return st
        # operators: zero of a sum of linear maps / subdifferentials
        if all(f.member.kind == "operator" for w, f in leaves):
            if all(isinstance(f.member, M.LinearMap) for w, f in leaves):
                A = sum(w * f.member.M for w, f in leaves)
                b = sum(w * f.member.M @ f.member.c for w, f in leaves)
                if np.linalg.cond(A) > 1e8:
                    raise Unsupported("singular sum of linear operators")
                return np.linalg.solve(A, b)
            raise Unsupported("zero of a sum of non-linear operators")
        ops = [(w, f) for w, f in leaves if f.member.kind == "operator"]
        inds = [(w, f) for w, f in leaves if isinstance(f.member, (M.BallIndicator, M.BoxIndicator))]
        if ops and len(ops) + len(inds) == len(leaves) and len(inds) == 1 and all(isinstance(f.member, M.LinearMap) for w, f in ops):
            xs = solve_vi(ops, inds[0][1].member)
            w_i, f_i = inds[0]
            f_i.forced[_key(xs)] = -sum(w * f.member.grad(xs) for w, f in ops) / w_i
            return xs
        # the minimiser depends on the members only, not on the scale of the start: the k-th such problem of an execution
        # has the same answer in every execution of one run_numeric (same seeds, same members)
        CTX.n_min = getattr(CTX, "n_min", 0) + 1
        ck = ("min", CTX.n_min, tuple((round(w, 12), f.member.describe()) for w, f in leaves))
        if ck in RUN_CACHE:
            xs = RUN_CACHE[ck]
        else:
            xs, duals = minimise_sum(leaves)
            RUN_CACHE[ck] = xs
        # force the (sub)gradients of the non-smooth terms at xs so that the total (sub)gradient is zero
        smooth = [(w, f) for w, f in leaves if not f.member.multivalued]
        rough = [(w, f) for w, f in leaves if f.member.multivalued]
        gs = sum((w * f.member.grad(xs) for w, f in smooth), np.zeros_like(xs))
        if len(rough) == 1:
            w, f = rough[0]
            f.forced[_key(xs)] = -gs / w
        elif len(rough) > 1:
            if not smooth and all(isinstance(f.member, (M.BallIndicator, M.BoxIndicator)) for w, f in rough):
                # a point of the intersection of the sets: 0 belongs to every normal cone
                for w, f in rough:
                    f.forced[_key(xs)] = np.zeros_like(xs)
            else:
                raise Unsupported("several non-smooth terms at a stationary point")
        return xs


def _merge(terms):
    out = []
    for w, f in terms:
        for i, (w2, f2) in enumerate(out):
            if f2 is f:
                out[i] = (w2 + w, f)
                break
        else:
            out.append((w, f))
    return [(w, f) for w, f in out if w != 0]


class NTranspose(object):
    def __init__(self, parent):
        self.parent = parent

    def gradient(self, u, name=None):
        return NPt(self.parent.member.tgrad(u.v))


def solve_vi(ops, ind):
    """x in C with <F(x), y - x> >= 0 for all y in C, F = sum of monotone linear maps: extragradient iteration."""
    A = sum(w * f.member.M for w, f in ops)
    b = sum(w * f.member.M @ f.member.c for w, f in ops)
    S = (A + A.T) / 2
    if np.linalg.eigvalsh(S).min() < -1e-10:
        raise Unsupported("variational inequality with a non-monotone map")
    F = lambda z: A @ z - b
    Lc = max(np.linalg.norm(A, 2), 1e-12)
    t = 0.5 / Lc
    x = ind.project(np.zeros(A.shape[0]))
    for it in range(200000):
        y = ind.project(x - t * F(x))
        xn = ind.project(x - t * F(y))
        if np.linalg.norm(xn - x) < 1e-15 * (1 + np.linalg.norm(x)) and it > 10:
            x = xn
            break
        x = xn
    res = np.linalg.norm(x - ind.project(x - t * F(x)))
    if res > 1e-11 * (1 + np.linalg.norm(x)):
        raise Unsupported("variational inequality not solved to accuracy (residual %.2e)" % res)
    return x


def member_cvx(m, x):
    """cvxpy expression of a convex member at the cvxpy variable x: (expr, constraints)."""
    import cvxpy as cp
    if isinstance(m, M.Quadratic):
        ev = np.linalg.eigvalsh((m.Q + m.Q.T) / 2)
        if ev.min() < -1e-10:
            raise Unsupported("non-convex quadratic")
        Qs = (m.Q + m.Q.T) / 2 + 1e-14 * np.eye(m.dim)
        return 0.5 * cp.quad_form(x - m.c, cp.psd_wrap(Qs)) + m.b0, []
    if isinstance(m, M.LinearFunction):
        return m.a @ x + m.b0, []
    if isinstance(m, M.Huber):
        return m.w * 0.5 * cp.sum(cp.huber(m.A @ x - m.b, m.delta)), []
    if isinstance(m, M.LogSumExp):
        return m.w * cp.log_sum_exp(m.A @ x + m.b), []
    if isinstance(m, M.MaxAffine):
        return cp.max(m.A @ x + m.b) + 0.5 * m.mu * cp.sum_squares(x - m.c), []
    if isinstance(m, M.NormFunction):
        return m.M * cp.norm(x, 2), []
    if isinstance(m, M.PolytopeSupport):
        return cp.max(m.V @ x), []
    if isinstance(m, M.BallIndicator):
        return 0.0, [cp.norm(x - m.c, 2) <= m.r]
    if isinstance(m, M.BoxIndicator):
        return 0.0, [x >= m.lo, x <= m.hi]
    if isinstance(m, M.MaxSquares):
        return cp.max(cp.multiply(0.5 * m.Ls, cp.square(m.A @ x))), []
    if isinstance(m, M.SumMember):
        e1, c1 = member_cvx(m.m1, x)
        e2, c2 = member_cvx(m.m2, x)
        return e1 + e2, c1 + c2
    raise Unsupported("no cvxpy model for %s" % type(m).__name__)


def minimise_sum(leaves, prox_center=None, gamma=None, linear=None):
    """argmin sum w_i f_i(x) (+ 1/(2 gamma) ||x - center||^2) (- <linear, x>) with cvxpy/Clarabel at tight tolerances."""
    import cvxpy as cp
    d = leaves[0][1].member.dim
    x = cp.Variable(d)
    obj = 0 if linear is None else -(linear @ x)
    cons = []
    for w, f in leaves:
        if w < 0:
            raise Unsupported("negative weight in a sum to minimise")
        e, c = member_cvx(f.member, x)
        obj = obj + w * e
        cons += c
    if prox_center is not None:
        obj = obj + (0.5 / gamma) * cp.sum_squares(x - prox_center)
    prob = cp.Problem(cp.Minimize(obj), cons)
    try:
        prob.solve(solver="CLARABEL", tol_gap_abs=1e-12, tol_gap_rel=1e-12, tol_feas=1e-12)
    except Exception:
        try:
            prob.solve(solver="CLARABEL")
        except Exception as e:
            raise Unsupported("cvxpy failed: %r" % (e,))
    if prob.status not in ("optimal", "optimal_inaccurate") or x.value is None:
        raise Unsupported("minimisation status %s" % prob.status)
    return np.array(x.value, dtype=float), None


# ---- the numeric PEP -------------------------------------------------------------------------------------------
class NPEP(object):
    def __init__(self):
        self.list_of_functions = []

    def declare_function(self, function_class, **kwargs):
        cls = function_class.__name__
        params = {k: v for k, v in kwargs.items() if k not in ("name", "reuse_gradient", "partition")}
        rng = random.Random("%s/member/%d" % (CTX.member_seed, CTX.n_decl))
        CTX.n_decl += 1
        if cls == "BlockSmoothConvexFunction":
            part = kwargs["partition"]
            m = M.make_member(cls, {"L": list(kwargs["L"])}, rng, partition_blocks=part.blocks(CTX.dim))
        else:
            hook = CTX.adversary.get("member")
            m = hook(cls, params, rng, CTX.dim) if hook else None
            th = CTX.adversary.get("thetas", {}).get(CTX.n_decl - 1)
            if m is None and th is not None:
                from pv.ref import hard
                if CTX.adversary.get("common_centre"):
                    th = list(th[:6]) + [0.5, 0.5]          # centre at the origin for every declared function
                m = hard.member(cls, params, th, CTX.dim)
            if m is None:
                m = M.make_member(cls, params, rng, dim=CTX.dim)
                tries = 0
                while CTX.adversary.get("smooth_only") and m.multivalued and tries < 25:
                    m = M.make_member(cls, params, rng, dim=CTX.dim)     # keep drawing until a single-valued member comes
                    tries += 1
            if CTX.adversary.get("common_centre") and hasattr(m, "c") and isinstance(getattr(m, "c"), np.ndarray):
                m.c = np.zeros_like(m.c)       # all declared functions share their minimiser / zero
        ok, why = m.self_test(rng)
        if not ok:
            raise Unsupported("member self-test failed: %s" % why)
        f = NFunc(member=m, cls=cls, params=params)
        if m.restricted_domain and CTX.anchor is None:
            inner = getattr(m, "fm", m)
            st = inner.stationary()
            if st is not None:
                CTX.anchor = st          # initial points are placed relative to a point of the set
        self.list_of_functions.append(f)
        CTX.functions.append(f)
        return f

    def declare_block_partition(self, d):
        return NPartition(d)

    def set_initial_point(self, name=None):
        rng = random.Random("%s/init/%d" % (CTX.dir_seed, CTX.n_init))
        CTX.n_init += 1
        u = np.array([rng.gauss(0, 1) for _ in range(CTX.dim)])
        u = u / max(np.linalg.norm(u), 1e-12)
        hook = CTX.adversary.get("direction")
        if hook:
            u = hook(CTX.n_init - 1, u, CTX)
        fixed = CTX.adversary.get("dirs", {}).get(CTX.n_init - 1)
        if fixed is not None and len(fixed) == CTX.dim:
            u = np.asarray(fixed, dtype=float)
            u = u / max(np.linalg.norm(u), 1e-12)
        anchor = CTX.anchor if CTX.anchor is not None else np.zeros(CTX.dim)
        CTX.init_points.append(np.array(anchor + CTX.scale * u, dtype=float))
        return NPt(anchor + CTX.scale * u, name)

    def set_initial_condition(self, condition, name=None):
        CTX.constraints.append((condition, "initial"))

    def add_constraint(self, constraint, name=None):
        CTX.constraints.append((constraint, "problem"))

    def add_psd_matrix(self, matrix_of_expressions, name=None):
        raise Unsupported("LMI in a numeric run")

    def set_performance_metric(self, expression, name=None):
        CTX.metrics.append(expression.x)

    class _W(object):
        solver_name = "numeric"

    wrapper = _W()

    def solve(self, *a, **kw):
        CTX.solve_calls += 1
        if not CTX.metrics:
            raise Unsupported("no metric")
        return min(CTX.metrics)


class NPartition(object):
    """a real coordinate partition of R^dim into d blocks"""

    def __init__(self, d):
        self.d = d
        self._blocks = None

    def get_nb_blocks(self):
        return self.d

    def blocks(self, dim):
        if self._blocks is None:
            if dim < self.d:
                raise Unsupported("dimension smaller than the number of blocks")
            assign = [k % self.d for k in range(dim)]
            self._blocks = [[i for i, a in enumerate(assign) if a == k] for k in range(self.d)]
        return self._blocks

    def get_block(self, point, block_number):
        mask = np.zeros(CTX.dim)
        mask[self.blocks(CTX.dim)[block_number]] = 1.0
        return NPt(point.v * mask)


# ---- numeric primitive steps ---------------------------------------------------------------------------------
def _prox(f, xv, gamma):
    if f.is_leaf():
        p = f.member.prox(xv, gamma)
        if p is not None:
            return p
        if f.member.kind == "operator":
            raise Unsupported("no resolvent for this operator member")
        p, _ = minimise_sum([(1.0, f)], prox_center=xv, gamma=gamma)
        return p
    if all(ff.member.kind == "operator" for w, ff in f.terms):
        if all(isinstance(ff.member, M.LinearMap) for w, ff in f.terms):
            A = sum(w * ff.member.M for w, ff in f.terms)
            b = sum(w * ff.member.M @ ff.member.c for w, ff in f.terms)
            return np.linalg.solve(np.eye(len(xv)) + gamma * A, xv + gamma * b)
        raise Unsupported("resolvent of a sum of non-linear operators")
    p, _ = minimise_sum(f.terms, prox_center=xv, gamma=gamma)
    return p


def proximal_step(x0, f, gamma):
    p = _prox(f, x0.v, gamma)
    gx = (x0.v - p) / gamma
    # the subgradient used by the step is the one f must answer at p from now on (non-smooth leaf)
    if f.is_leaf() and f.member.multivalued:
        f.forced[_key(p)] = gx
    return NPt(p), NPt(gx), NEx(f._value(p))


def inexact_gradient_step(x0, f, gamma, epsilon, notion='absolute'):
    g = f._grad(x0.v)
    rng = CTX.choice_rng()
    u = CTX.unit(len(g), rng)
    mode = CTX.adversary.get("inexact", "random")
    if mode == "along_gradient" and np.linalg.norm(g) > 0:
        u = g / np.linalg.norm(g)          # shortens the step the most
    elif mode == "against_gradient" and np.linalg.norm(g) > 0:
        u = -g / np.linalg.norm(g)
    CTX.inexact_units = getattr(CTX, "inexact_units", []) + [np.array(u, dtype=float)]
    if notion == 'absolute':
        d = g - epsilon * u
    elif notion == 'relative':
        d = g - epsilon * np.linalg.norm(g) * u
    else:
        raise ValueError(notion)
    return NPt(x0.v - gamma * d), NPt(d), NEx(f._value(x0.v))


def exact_linesearch_step(x0, f, directions):
    if any(ff.member.multivalued for w, ff in f._terms()):
        # an exact line search on a non-smooth function needs the subgradient that certifies optimality on the span;
        # a quasi-Newton search does not deliver it: not a real execution, try another member
        raise Unsupported("exact line search on a non-smooth member")
    D = np.array([d.v for d in directions]).T if directions else np.zeros((len(x0.v), 0))
    if D.shape[1] == 0:
        xv = x0.v
    else:
        from scipy.optimize import minimize
        fun = lambda t: f._value(x0.v + D @ t)
        jac = lambda t: D.T @ f._grad(x0.v + D @ t)
        best = None
        for t0 in (np.zeros(D.shape[1]),):
            r = minimize(fun, t0, jac=jac, method="BFGS", options={"gtol": 1e-12, "maxiter": 2000})
            best = r if best is None or r.fun < best.fun else best
        xv = x0.v + D @ best.x
        # polish with Newton-like steps on the span (quadratics are solved exactly by BFGS up to rounding)
        for _ in range(5):
            g = D.T @ f._grad(xv)
            if np.linalg.norm(g) < 1e-13:
                break
            # finite-difference Hessian on the span
            k = D.shape[1]
            H = np.zeros((k, k))
            h = 1e-6
            for i in range(k):
                e = np.zeros(k); e[i] = h
                H[:, i] = (D.T @ f._grad(xv + D @ e) - g) / h
            try:
                xv = xv - D @ np.linalg.solve((H + H.T) / 2, g)
            except np.linalg.LinAlgError:
                break
    return NPt(xv), NPt(f._grad(xv)), NEx(f._value(xv))


def linear_optimization_step(dir, ind):
    m = ind.member if ind.is_leaf() else None
    if isinstance(m, M.BallIndicator):
        n = np.linalg.norm(dir.v)
        xv = m.c - m.r * dir.v / n if n > 1e-14 else m.c.copy()
    elif isinstance(m, M.BoxIndicator):
        xv = np.where(dir.v > 0, m.lo, m.hi)
    else:
        raise Unsupported("LMO on this member")
    ind.forced[_key(xv)] = -dir.v
    return NPt(xv), NPt(-dir.v), NEx(0.0)


def epsilon_subgradient_step(x0, f, gamma):
    """g0 is an exact subgradient at a nearby point y, hence an eps-subgradient at x0 with
    eps = f(x0) - f(y) - <g0, x0 - y> (the smallest eps for which it is one)."""
    rng = CTX.choice_rng()
    delta = CTX.scale * 2.0 * CTX.level(rng, [0.0, 0.025, 0.1, 0.25, 0.5])
    u = CTX.unit(len(x0.v), rng)
    y = x0.v + delta * u
    g0 = f._grad(y)
    eps = f._value(x0.v) - f._value(y) - float(g0 @ (x0.v - y))
    return NPt(x0.v - gamma * g0), NPt(g0), NEx(f._value(x0.v)), NEx(max(eps, 0.0))


def inexact_proximal_step(x0, f, gamma, opt='PD_gapII'):
    """An admissible inexact proximal answer: points near the exact prox p, subgradients taken where they are claimed,
    and eps_var set to the TRUE primal-dual gap  1/2 ||x - x0 + gamma v||^2 + gamma (f(x) - f(w) - <v, x - w>)."""
    rng = CTX.choice_rng()
    p = _prox(f, x0.v, gamma)
    s = float(np.linalg.norm(x0.v - p)) + 1e-3
    theta = CTX.adversary.get("inexact_level")
    if theta is None:
        theta = 0.5 * CTX.level(rng, [0.0, 0.04, 0.1, 0.2, 0.4, 0.8])
    d = len(p)

    def unit():
        return CTX.unit(d, rng)

    if opt == 'PD_gapI':
        x = p + theta * s * unit()
        w = x.copy() if rng.random() < 0.5 else p + theta * s * unit()
        v = f._grad(w)
        gx = f._grad(x)
        fx, fw = f._value(x), f._value(w)
        gap = 0.5 * float((x - x0.v + gamma * v) @ (x - x0.v + gamma * v)) + gamma * (fx - fw - float(v @ (x - w)))
        return NPt(x), NPt(gx), NEx(fx), NPt(w), NPt(v), NEx(fw), NEx(max(gap, 0.0))
    if opt == 'PD_gapII':
        x = p + theta * s * unit()
        gx = f._grad(x)
        e = x - x0.v + gamma * gx
        fx = f._value(x)
        return NPt(x), NPt(gx), NEx(fx), NPt(x), NPt(gx), NEx(fx), NEx(0.5 * float(e @ e))
    if opt == 'PD_gapIII':
        # v = (x0 - x)/gamma must be a subgradient at some w: only the exact answer is constructed
        x = p
        v = (x0.v - p) / gamma
        if f.is_leaf() and f.member.multivalued:
            f.forced[_key(p)] = v
        fx = f._value(p)
        return NPt(x), NPt(v), NEx(fx), NPt(p), NPt(v), NEx(fx), NEx(0.0)
    raise ValueError(opt)


def _mirror_solve(leaves, target):
    """x with  target in sum_i w_i df_i(x)  (x = argmin sum w_i f_i - <target, .>); at most one non-smooth leaf, whose
    subgradient at x is then forced to the value the optimality condition dictates (checked to be a subgradient)."""
    rough = [(w, ff) for w, ff in leaves if ff.member.multivalued]
    smooth = [(w, ff) for w, ff in leaves if not ff.member.multivalued]
    if len(rough) > 1 or not smooth:
        raise Unsupported("Bregman step with a non-smooth member")
    x, _ = minimise_sum(leaves, linear=target)
    gs = sum((w * ff.member.grad(x) for w, ff in smooth), np.zeros_like(x))
    if rough:
        w, ff = rough[0]
        g = (target - gs) / w
        inner = getattr(ff.member, "fm", ff.member)
        if not hasattr(inner, "project"):
            raise Unsupported("Bregman step with a non-smooth member")
        if inner.dist(x) > 1e-9:
            raise Unsupported("mirror equation not solved accurately")
        rng = CTX.choice_rng()
        for _ in range(12):
            y = inner.project(x + np.array([rng.gauss(0, 1) for _ in range(len(x))]) * (1 + np.linalg.norm(x)))
            if g @ (y - x) > 1e-7 * (1 + np.linalg.norm(g)) * (1 + np.linalg.norm(y - x)):
                raise Unsupported("mirror equation not solved accurately")
        ff.forced[_key(x)] = g
    elif np.linalg.norm(gs - target) > 1e-6 * (1 + np.linalg.norm(target)):
        raise Unsupported("mirror equation not solved accurately")
    return x


def bregman_gradient_step(gx0, sx0, mirror_map, gamma):
    """x with  sx0 - gamma gx0  in dh(x)  (x = argmin h(x) - <s, x>)."""
    sx = sx0.v - gamma * gx0.v
    x = _mirror_solve([(w, ff) for w, ff in mirror_map._terms()], sx)
    return NPt(x), NPt(sx), NEx(mirror_map._value(x))


def bregman_proximal_step(sx0, mirror_map, min_function, gamma):
    """x = argmin f(x) + (1/gamma) (h(x) - <sx0, x>); gx in df(x), sx = sx0 - gamma gx in dh(x)."""
    if any(ff.member.multivalued for w, ff in min_function._terms()):
        raise Unsupported("Bregman step with a non-smooth member")
    leaves = _merge([(w, ff) for w, ff in min_function._terms()] + [(w / gamma, ff) for w, ff in mirror_map._terms()])
    x = _mirror_solve(leaves, sx0.v / gamma)
    gx = min_function._grad(x)
    sx = sx0.v - gamma * gx
    return NPt(x), NPt(sx), NEx(mirror_map._value(x)), NPt(gx), NEx(min_function._value(x))


def _unsupported_step(*a, **kw):
    raise Unsupported("step not available numerically")


NUMERIC_STEPS = {
    "proximal_step": proximal_step,
    "inexact_gradient_step": inexact_gradient_step,
    "exact_linesearch_step": exact_linesearch_step,
    "linear_optimization_step": linear_optimization_step,
    "bregman_gradient_step": bregman_gradient_step,
    "bregman_proximal_step": bregman_proximal_step,
    "inexact_proximal_step": inexact_proximal_step,
    "epsilon_subgradient_step": epsilon_subgradient_step,
}


class _NullPoint(NPt):
    """the library's null_point: the zero vector of the current run's dimension"""

    def __init__(self):
        self.name = None

    @property
    def v(self):
        return np.zeros(CTX.dim)


class _FreeLeaf(object):
    def __call__(self, *a, **kw):
        raise Unsupported("free leaf Point()/Expression() in an example")


class _FreePoint(object):
    """Point(): a point the example leaves free and ties by equality constraints; its coordinates are unknowns that
    run_numeric solves for (see _solve_free)."""

    def __call__(self, *a, **kw):
        k = CTX.n_free
        CTX.n_free += 1
        v = CTX.free[k] if k < len(CTX.free) else np.zeros(CTX.dim)
        return NPt(np.array(v, dtype=float))


def patch_module(mod):
    """Swap the numeric API into an example module. Returns a restore() callable."""
    saved = {}
    for name, val in list(vars(mod).items()):
        if name == "PEP":
            saved[name] = val
            setattr(mod, name, NPEP)
        elif name in NUMERIC_STEPS:
            saved[name] = val
            setattr(mod, name, NUMERIC_STEPS[name])
        elif name == "Point":
            saved[name] = val
            setattr(mod, name, _FreePoint())
        elif name == "Expression":
            saved[name] = val
            setattr(mod, name, _FreeLeaf())
        elif name in ("null_point",):
            saved[name] = val
            setattr(mod, name, _NullPoint())

    def restore():
        for k, v in saved.items():
            setattr(mod, k, v)
    return restore


def run_numeric(func_module, func_name, kwargs, member_seed, dir_seed, dim, adversary=None, max_iter=40):
    """Run the example numerically; the initial scale is tuned so that the tightest 'initial' constraint is active.
    Returns dict(perf, scale, constraints) or raises Unsupported / InvalidRun."""
    global CTX
    import importlib
    import contextlib
    import io
    mod = importlib.import_module(func_module)
    fn = getattr(mod, func_name)
    real_mod = importlib.import_module(fn.__module__)
    restore = patch_module(real_mod)

    import inspect
    accepted = inspect.signature(fn).parameters
    call_kw = dict(kwargs)
    for k_, v_ in (("wrapper", "cvxpy"), ("solver", None), ("verbose", -1)):
        if k_ in accepted:
            call_kw[k_] = v_
    free_cache = {"z": None}
    RUN_CACHE.clear()

    def execute(scale, free):
        global CTX
        CTX = Ctx(member_seed, dir_seed, dim, scale, adversary)
        CTX.free = free
        if free:
            CTX.anchor = np.array(free[0], dtype=float)
        with contextlib.redirect_stdout(io.StringIO()):
            out = fn(**call_kw)
        return out[0], CTX

    def residuals(ctx):
        r = []
        for c, tag in ctx.constraints:
            if c.kind == "equality":
                res = getattr(c, "residual", None)
                r.extend(list(res) if res is not None else [c.value])
        return np.array(r, dtype=float)

    def once(scale):
        perf, ctx = execute(scale, free_cache["z"] or [])
        if ctx.n_free:
            # the example left ctx.n_free points free: solve its equality constraints for their coordinates
            from scipy.optimize import least_squares
            nf = ctx.n_free
            z0 = np.concatenate(free_cache["z"]) if free_cache["z"] else np.zeros(nf * dim)

            def fun(z):
                _p, c2 = execute(scale, [z[i * dim:(i + 1) * dim] for i in range(nf)])
                return residuals(c2)
            r0 = fun(z0)
            if len(r0) == 0:
                raise Unsupported("free point without equality constraints")
            if free_cache["z"] and np.linalg.norm(r0) <= 1e-11 * (1.0 + np.linalg.norm(z0)):
                zsol = z0                     # the equations do not depend on the scale of the start: already solved
            else:
                sol = least_squares(fun, z0, xtol=1e-15, ftol=1e-15, gtol=1e-15, max_nfev=200)
                if np.linalg.norm(sol.fun) > 1e-11 * (1.0 + np.linalg.norm(sol.x)):
                    raise Unsupported("free point equations not solved (residual %.2e)" % np.linalg.norm(sol.fun))
                zsol = sol.x
            free_cache["z"] = [zsol[i * dim:(i + 1) * dim] for i in range(nf)]
            perf, ctx = execute(scale, free_cache["z"])
        worst = -float("inf")
        for c, tag in ctx.constraints:
            if getattr(c, "residual", None) is not None:
                continue              # solved as a system above; its accuracy was checked there
            worst = max(worst, c.violation())
        return perf, worst, ctx

    try:
        # find the largest scale for which every declared constraint holds (bisection on a monotone feasibility)
        lo, hi = 0.0, 1.0
        perf, worst, ctx = once(hi)
        n = 0
        worst_at_lo = None
        while worst <= 0 and hi < 1e6 and n < 30:
            lo = hi
            worst_at_lo = worst
            hi *= 2
            perf, worst, ctx = once(hi)
            n += 1
        if worst <= 0:
            if not ctx.constraints:
                perf, worst, ctx = once(1.0)
                return {"perf": perf, "scale": 1.0, "worst_constraint": 0.0, "n_constraints": 0,
                        "members": [f.member.describe() for f in ctx.functions]}
            raise Unsupported("constraints never become active")
        w_lo, w_hi = (worst_at_lo if lo > 0 else None), worst
        for it in range(max_iter):
            mid = 0.5 * (lo + hi)
            if w_lo is not None and w_lo < 0 < w_hi and it % 3 != 2:
                # regula falsi on the signed worst constraint value (continuous in the scale); bisection every third step
                cand = lo + (hi - lo) * (-w_lo) / (w_hi - w_lo)
                if lo + 1e-3 * (hi - lo) < cand < hi - 1e-3 * (hi - lo):
                    mid = cand
            perf, worst, ctx = once(mid)
            if worst <= 0:
                lo, w_lo = mid, worst
            else:
                hi, w_hi = mid, worst
            if hi - lo < 1e-11 * max(1.0, hi) or (worst <= 0 and worst > -1e-13):
                break
        if lo <= 0:
            raise InvalidRun("no feasible initial scale")
        perf, worst, ctx = once(lo)
        if worst > 1e-9:
            raise InvalidRun("constraint violated by %.3e at the feasible scale" % worst)
        for c, tag in ctx.constraints:
            if c.kind == "equality" and abs(c.value) > 1e-7 * (1 + abs(perf)):
                raise InvalidRun("an equality constraint is off by %.3e" % c.value)
        return {"perf": perf, "scale": lo, "worst_constraint": worst, "n_constraints": len(ctx.constraints),
                "members": [f.member.describe() for f in ctx.functions], "n_decl": ctx.n_decl, "n_init": ctx.n_init,
                "n_unit": getattr(ctx, "n_unit", 0), "n_level": getattr(ctx, "n_level", 0),
                "env": {"functions": list(ctx.functions), "x0": list(ctx.init_points), "special": list(ctx.special_points),
                        "dim": ctx.dim, "n_choice": ctx.n_choice, "inexact_units": list(getattr(ctx, "inexact_units", []))}}
    finally:
        restore()
        CTX = None
