"""Independent denotation layer (trusted core of every oracle).

Deliberately does NOT use PEPit.tools.*, the eval() methods or the translators: it only walks the
`decomposition_dict` attribute of Point / Expression objects, matching key kinds with `type(k) is ...` on
the real classes.  Everything the oracles compare is expressed in the canonical coordinates computed here.

Canonical forms
  point       -> {leaf_point_object: coef}
  expression  -> (G, F, c) with G {(leafA, leafB) ordered by leaf index: coef} (mirrored keys merged),
                 F {leaf_expression_object: coef}, c float
Numeric forms (indexed by the position of the leaf in the class registries, cross-checked with .counter)
  expression  -> (A (n x n symmetric ndarray), a (m ndarray), alpha float)  meaning <A,G> + a.F + alpha
"""
import numpy as np


class CanonError(Exception):
    """The object handed to the layer is not of a shape the layer understands (=> inconclusive, not a pass)."""


def _classes():
    from PEPit.point import Point
    from PEPit.expression import Expression
    return Point, Expression


def point_coeffs(p):
    """{leaf point: coef} for a Point (leaf or combination)."""
    Point, _ = _classes()
    if not isinstance(p, Point):
        raise CanonError("not a Point: %r" % type(p))
    out = {}
    if p.get_is_leaf():
        # a leaf denotes itself, whatever its dict says
        out[p] = 1.0
        return out
    for k, v in p.decomposition_dict.items():
        if type(k) is not Point or not k.get_is_leaf():
            raise CanonError("point key is not a leaf Point: %r" % (k,))
        out[k] = out.get(k, 0.0) + float(v)
    return out


def expr_coeffs(e):
    """(G, F, c) for an Expression (leaf or combination); G keyed by (leafA, leafB) as written (not merged)."""
    Point, Expression = _classes()
    if not isinstance(e, Expression):
        raise CanonError("not an Expression: %r" % type(e))
    G, F, c = {}, {}, 0.0
    if e.get_is_leaf():
        F[e] = 1.0
        return G, F, c
    for k, v in e.decomposition_dict.items():
        if type(k) is Expression:
            if not k.get_is_leaf():
                raise CanonError("expression key is not a leaf Expression")
            F[k] = F.get(k, 0.0) + float(v)
        elif type(k) is tuple:
            if len(k) != 2 or type(k[0]) is not Point or type(k[1]) is not Point \
                    or not k[0].get_is_leaf() or not k[1].get_is_leaf():
                raise CanonError("tuple key is not a pair of leaf Points")
            G[k] = G.get(k, 0.0) + float(v)
        elif type(k) in (int, float) and k == 1:
            c += float(v)
        else:
            raise CanonError("unknown key kind %r" % (type(k),))
    return G, F, c


class Index(object):
    """Maps leaf objects to integer indices by identity, using the class registries of the current model."""

    def __init__(self):
        Point, Expression = _classes()
        self.points = list(Point.list_of_leaf_points)
        self.exprs = list(Expression.list_of_leaf_expressions)
        self.pidx = {id(p): i for i, p in enumerate(self.points)}
        self.eidx = {id(e): i for i, e in enumerate(self.exprs)}
        self.n = len(self.points)
        self.m = len(self.exprs)
        # cross-check with PEPit's own labels: the solver's G / F are indexed by .counter
        self.counters_ok = all(p.counter == i for i, p in enumerate(self.points)) and \
            all(e.counter == i for i, e in enumerate(self.exprs)) and \
            Point.counter == self.n and Expression.counter == self.m

    def p(self, leaf):
        try:
            return self.pidx[id(leaf)]
        except KeyError:
            raise CanonError("leaf point not in registry (foreign model?)")

    def e(self, leaf):
        try:
            return self.eidx[id(leaf)]
        except KeyError:
            raise CanonError("leaf expression not in registry (foreign model?)")


def expr_num(e, idx):
    """(A, a, alpha): <A, G> + a.F + alpha, A symmetric."""
    G, F, c = expr_coeffs(e)
    A = np.zeros((idx.n, idx.n))
    a = np.zeros(idx.m)
    for (p, q), v in G.items():
        i, j = idx.p(p), idx.p(q)
        A[i, j] += v / 2.0
        A[j, i] += v / 2.0
    for k, v in F.items():
        a[idx.e(k)] += v
    return A, a, c


def point_num(p, idx):
    v = np.zeros(idx.n)
    for k, c in point_coeffs(p).items():
        v[idx.p(k)] += c
    return v


def expr_value(e, Gm, Fv, idx):
    A, a, c = expr_num(e, idx)
    return float(np.sum(A * Gm) + (a @ Fv if idx.m else 0.0) + c)


def expr_value_assign(e, pvals, evals):
    """Evaluate under an assignment {id(leaf point): vector}, {id(leaf expr): float} (identity testing)."""
    G, F, c = expr_coeffs(e)
    s = c
    for (p, q), v in G.items():
        s += v * float(np.dot(pvals[id(p)], pvals[id(q)]))
    for k, v in F.items():
        s += v * evals[id(k)]
    return s


def point_value_assign(p, pvals, dim):
    out = np.zeros(dim)
    for k, c in point_coeffs(p).items():
        out = out + c * pvals[id(k)]
    return out


# ---------------------------------------------------------------------------------------------------------
# canonical keys for set comparison of affine functionals

def _rnd(x, scale):
    r = x / scale
    return float("%.9e" % r)


def functional_key(e, sense, label, tol=1e-11):
    """Canonical hashable key of the functional `e (<=|==) 0`.

    label(leaf) -> stable hashable label for a leaf point / expression.
    inequality: normalised by a positive factor; equality: by a non-zero factor (sign fixed on first entry).
    Returns None for a vacuous functional (all coefficients zero and constant compatible: 0<=0 / 0==0)."""
    G, F, c = expr_coeffs(e)
    terms = {}
    for (p, q), v in G.items():
        a, b = label(p), label(q)
        k = ("G",) + tuple(sorted((a, b), key=repr))
        terms[k] = terms.get(k, 0.0) + v
    for k_, v in F.items():
        k = ("F", label(k_))
        terms[k] = terms.get(k, 0.0) + v
    if c != 0.0:
        terms[("C",)] = c
    mx = max([abs(v) for v in terms.values()] or [0.0])
    terms = {k: v for k, v in terms.items() if abs(v) > tol * max(mx, 1e-300)}
    if not terms:
        return None
    if set(terms) == {("C",)}:
        # constant-only functional: vacuous if satisfied, else "infeasible" marker
        cval = terms[("C",)]
        ok = (cval <= 0) if sense == "inequality" else (cval == 0)
        return None if ok else ("INFEASIBLE", sense)
    items = sorted(terms.items(), key=lambda kv: repr(kv[0]))
    scale = max(abs(v) for _, v in items)
    if sense == "equality" and items[0][1] < 0:
        scale = -scale
    return (sense,) + tuple((k, _rnd(v, scale)) for k, v in items)


def sym_label_factory():
    """label function giving leaves a stable label from PEPit's creation order within the model."""
    idx = Index()

    def label(leaf):
        Point, Expression = _classes()
        if type(leaf) is Point:
            return "p%d" % idx.p(leaf)
        return "e%d" % idx.e(leaf)
    return label, idx
