"""C16 - no number without a solution: failures are reported, not fabricated."""
import contextlib
import io
import random
import time

LEVEL = "exploration"
RULE = ("(a) every object reachable in generated models (leaf/derived points and expressions, user/class/metric "
        "constraints, user/class LMIs) is asked for eval()/eval_dual() before any solve and after a solve that "
        "returned None: must raise ValueError; (b) purpose-built unbounded / infeasible models must make solve return "
        "None when the back-end status says so; (c) invalid option values must raise. distinct = distinct "
        "(phase, object kind, accessor, depends-on-leaf) x model signature")
ASSUMPTIONS = ["objects with no leaf (pure constants, null point) are outside the statement and only logged",
               "a cvxpy SolverError is inconclusive for that case"]
DECIDING_COUNTER = "accessor_calls_judged"
MIN_DECIDED = {"quick": 2000, "thorough": 50000}
REQUIRED_COUNTERS = {"quick": {"nofinite_models_judged": 20, "invalid_option_cases": 10},
                     "thorough": {"nofinite_models_judged": 200, "invalid_option_cases": 50}}
NSHARDS = 16


STANDINS = __import__("os").path.join(__import__("os").path.dirname(__import__("os").path.dirname(__import__("os").path.abspath(__file__))), "standins")


def plan(tier, seed):
    n = 40 if tier == "quick" else 2500
    return [{"name": "s%d" % i, "seed": seed, "shard": i, "n": n, "extra_path": [STANDINS]} for i in range(NSHARDS)]


def depends_on_leaf(o):
    from PEPit.point import Point
    from PEPit.expression import Expression
    from PEPit.constraint import Constraint
    from PEPit.psd_matrix import PSDMatrix
    if isinstance(o, (Point, Expression)):
        if o.get_is_leaf():
            return True
        return len(o.decomposition_dict) > 0 and any(not isinstance(k, (int, float)) for k in o.decomposition_dict)
    if isinstance(o, Constraint):
        return depends_on_leaf(o.expression)
    if isinstance(o, PSDMatrix):
        return any(depends_on_leaf(o[i, j]) for i in range(o.shape[0]) for j in range(o.shape[1]))
    return False


def kind_of(o):
    from PEPit.point import Point
    from PEPit.expression import Expression
    from PEPit.constraint import Constraint
    from PEPit.psd_matrix import PSDMatrix
    if isinstance(o, Point):
        return "leaf_point" if o.get_is_leaf() else "derived_point"
    if isinstance(o, Expression):
        return "leaf_expr" if o.get_is_leaf() else "derived_expr"
    if isinstance(o, Constraint):
        return "constraint"
    if isinstance(o, PSDMatrix):
        return "lmi"
    return type(o).__name__


def reachable_objects(machine):
    from PEPit.function import Function
    from PEPit.point import Point
    from PEPit.expression import Expression
    from PEPit.block_partition import BlockPartition
    objs = []
    for k, v in machine.regs.items():
        if isinstance(v, (Point, Expression)) or kind_of(v) in ("constraint", "lmi"):
            objs.append(("reg", v))
    pep = machine.pep
    for c in pep.list_of_constraints:
        objs.append(("pep_constraint", c))
    for m in pep.list_of_psd:
        objs.append(("pep_lmi", m))
    for e in pep.list_of_performance_metrics:
        objs.append(("metric", e))
    for f in Function.list_of_functions:
        for c in f.list_of_constraints:
            objs.append(("function_constraint", c))
        for c in f.list_of_class_constraints:
            objs.append(("class_constraint", c))
        for m in f.list_of_psd:
            objs.append(("function_lmi", m))
        for m in f.list_of_class_psd:
            if m.shape[0] > 0:
                objs.append(("class_lmi", m))
        for (x, g, v) in f.list_of_points:
            objs.extend([("sample", x), ("sample", g), ("sample", v)])
    for p in BlockPartition.list_of_partitions:
        for c in p.list_of_constraints:
            objs.append(("partition_constraint", c))
    for c in pep._list_of_constraints_sent_to_wrapper:
        objs.append(("sent_constraint", c))
    for p in Point.list_of_leaf_points:
        objs.append(("leaf", p))
    for e in Expression.list_of_leaf_expressions:
        objs.append(("leaf", e))
    # objects written with a null weight (a step size or coefficient that happens to be 0) still depend on their leaves:
    # scalar multiples, products and the documented constructors keep the term, so asking them for a value asks the leaf
    try:
        from PEPit.constraint import Constraint
        from PEPit.psd_matrix import PSDMatrix
        lp, le = list(Point.list_of_leaf_points), list(Expression.list_of_leaf_expressions)
        if lp:
            x = lp[0]
            zx = 0 * x
            objs += [("null_weight", zx), ("null_weight", zx ** 2), ("null_weight", zx * lp[-1]), ("null_weight", (0.0 * x) / 2)]
        if le:
            e0 = le[0]
            ze = 0 * e0
            objs += [("null_weight", ze), ("null_weight", -ze), ("null_weight", Constraint(ze, "inequality")),
                     ("null_weight", PSDMatrix([[ze, 0.], [0., 1.]]))]
    except Exception:
        pass
    return objs


def judge_accessors(objs, phase, acc, sig, viol, prog):
    for src, o in objs:
        dl = depends_on_leaf(o)
        for accessor in ("eval", "eval_dual"):
            if not hasattr(o, accessor):
                continue
            if accessor == "eval_dual" and kind_of(o) not in ("constraint", "lmi"):
                continue
            try:
                r = getattr(o, accessor)()
                outcome = ("returned", r)
            except ValueError:
                outcome = ("ValueError", None)
            except Exception as e:
                outcome = (type(e).__name__, e)
            if not dl and accessor == "eval":
                acc["leafless_objects_logged"] = acc.get("leafless_objects_logged", 0) + 1
                continue
            acc["accessor_calls_judged"] = acc.get("accessor_calls_judged", 0) + 1
            sig.add("%s|%s|%s|%s" % (phase, src, kind_of(o), accessor))
            if outcome[0] == "ValueError":
                continue
            if outcome[0] == "returned":
                key = "number_without_solution:%s.%s:%s" % (kind_of(o), accessor, phase)
                what = "%s.%s() returned %r %s" % (kind_of(o), accessor, str(outcome[1])[:60], phase)
            else:
                key = "wrong_exception_type:%s.%s:%s" % (kind_of(o), accessor, outcome[0])
                what = "%s.%s() raised %s instead of ValueError (%s) [%s]" % (kind_of(o), accessor, outcome[0],
                                                                          str(outcome[1])[:120], phase)
            if len(viol) < 12:
                viol.append({"key": key, "what": what, "program": prog, "phase": phase, "source": src})


def judge_function_tables(phase, acc, sig, viol, prog):
    """The per-function tables of multipliers are accessors too: with no solution of the latest solve they must raise the
    'must be solved' ValueError, not return numbers (of an earlier solve)."""
    import pandas as pd
    from PEPit.function import Function
    from PEPit.constraint import Constraint
    for fn in list(Function.list_of_functions):
        if not fn.get_is_leaf():
            continue
        holds = 0
        for tb in getattr(fn, "tables_of_constraints", {}).values():
            if isinstance(tb, pd.DataFrame):
                holds += sum(1 for el in tb.to_numpy().ravel() if isinstance(el, Constraint))
        if not holds:
            continue
        try:
            r = fn.get_class_constraints_duals()
            outcome = ("returned", r)
        except ValueError:
            outcome = ("ValueError", None)
        except Exception as e:
            outcome = (type(e).__name__, e)
        acc["accessor_calls_judged"] = acc.get("accessor_calls_judged", 0) + 1
        acc["dual_table_calls_judged"] = acc.get("dual_table_calls_judged", 0) + 1
        sig.add("%s|function|get_class_constraints_duals" % phase)
        if outcome[0] == "ValueError":
            continue
        if outcome[0] == "returned":
            key = "number_without_solution:function.get_class_constraints_duals:%s" % phase
            what = "%s.get_class_constraints_duals() returned tables of numbers for %d class constraints %s" % (type(fn).__name__, holds, phase)
        else:
            key = "wrong_exception_type:function.get_class_constraints_duals:%s" % outcome[0]
            what = "%s.get_class_constraints_duals() raised %s instead of ValueError [%s]" % (type(fn).__name__, outcome[0], phase)
        if len(viol) < 12:
            viol.append({"key": key, "what": what, "program": prog, "phase": phase, "source": "function"})


def nofinite_models(rng):
    """Purpose-built models with no finite optimum. Returns list of (name, ops, expected_kind)."""
    from pv import gen
    out = []
    for kind in ("no_initial_condition", "contradictory", "unbounded_metric", "infeasible_box", "lmi_infeasible", "lmi_not_symmetric", "constant_infeasible"):
        b = gen.Builder(rng)
        cls = b.pick(["SmoothStronglyConvexFunction", "SmoothConvexFunction", "ConvexFunction", "MonotoneOperator",
                      "LipschitzOperator", "StronglyConvexFunction", "SmoothFunction"])
        f = b.func(cls)
        isop = "Operator" in cls
        xs = b.nm("xs"); b.emit({"op": "stat", "f": f, "x": xs, "v": b.nm("vs")}); b.points.append(xs)
        x0 = b.init()
        g = b.grad(f, x0)
        x1 = b.pcomb([[1, x0], [-b.pick([0.5, 1.0, 0.1]), g]])
        d0 = b.sqdist(x0, xs)
        d1 = b.sqdist(x1, xs)
        if kind == "no_initial_condition":
            b.metric(d1)
        elif kind == "contradictory":
            b.cons(d0, "<=", 1.0)
            b.cons(d0, ">=", b.pick([2.0, 4.0]))
            b.metric(d1)
        elif kind == "unbounded_metric":
            b.cons(d0, "<=", 1.0)
            y = b.init()
            b.metric(b.expr([[1.0, "sq", y]]))
        elif kind == "infeasible_box":
            b.cons(d0, "<=", -1.0)
            b.metric(d1)
        elif kind == "constant_infeasible":
            # a constraint without any variable left in it (zero iterations: x_n IS x_0) that is plainly false: 1 <= 0
            b.cons(d0, "<=", 1.0)
            b.cons(b.sqdist(x0, x0), ">=", b.pick([1.0, 0.5]))
            b.metric(d1)
        elif kind == "lmi_not_symmetric":
            # a matrix inequality is about a SYMMETRIC matrix: entries (i,j) and (j,i) that cannot be equal make it infeasible
            b.cons(d0, "<=", 1.0)
            d_ = b.expr([[1.0, "const"], [1.0, "sq", x0]])
            o1 = b.expr([[b.pick([0.5, 1.0]), "const"]])
            o2 = b.expr([[-0.5, "const"]]) if rng.random() < 0.5 else b.expr([[1.5, "const"], [1.0, "sq", x0]])
            b.lmi([[d_, o1], [o2, 2.0]])
            b.metric(d1)
        else:
            b.cons(d0, "<=", 1.0)
            e = b.expr([[-1.0, "const"], [-1.0, "sq", x0]])
            b.lmi([[e]])
            b.metric(d1)
        out.append((kind, b.program()))
    return out


def run_shard(spec):
    from pv import gen, driver
    from pv.monitors import is_optimal_status
    t0 = time.time()
    counters, sig, viol, obs, samples = {}, set(), [], [], []
    bd = driver.boundary()
    items = []
    if "replay" in spec:
        w = spec["replay"]
        items = [("replay", w["program"])] if "program" in w else []
    else:
        for i in range(spec["n"]):
            rng = driver.case_rng(spec["seed"], spec["name"], i)
            items.append(("r%d" % i, gen.gen_program(rng)))
    # (a) before any solve
    for tag, prog in items:
        m = gen.Machine()
        try:
            with contextlib.redirect_stdout(io.StringIO()):
                m.run(prog["ops"])
        except Exception as e:
            counters["build_exceptions"] = counters.get("build_exceptions", 0) + 1
            continue
        counters["models_before_solve"] = counters.get("models_before_solve", 0) + 1
        judge_accessors(reachable_objects(m), "before_solve", counters, sig, viol, prog)
        if len(samples) < 1:
            samples.append({"phase": "before_solve", "meta": prog["meta"], "n_objects": len(reachable_objects(m))})
    # (b) models without a finite optimum
    for i in range(max(1, spec.get("n", 10) // 3)):
        rng = driver.case_rng(spec["seed"], spec["name"] + "/nf", i)
        for kind, prog in nofinite_models(rng):
            for solver in ("CLARABEL", "SCS", "MOSEK-standin") if i % 2 == 0 else ("CLARABEL", "MOSEK-standin"):
                cfg = {"wrapper": "cvxpy", "solver": solver, "verbose": rng.choice([0, 1]), "mode": rng.choice(["dual", "primal"])}
                if solver == "MOSEK-standin":
                    cfg = {"wrapper": "mosek", "solver": "CLARABEL", "verbose": rng.choice([0, 1]), "mode": rng.choice(["dual", "primal"])}
                case = driver.run_case(prog, cfg)
                if case.outcome[0] == "exc":
                    ename = type(case.outcome[1]).__name__
                    st_ = (case.status or "").lower()
                    if not st_:
                        # the exception came from inside the wrapper, before it handed a status back: ask the solver-side object
                        # that the wrapper holds what the solver had concluded
                        try:
                            w_ = getattr(case.machine.pep, "wrapper", None)
                            if hasattr(w_, "prob") and w_.prob is not None:
                                st_ = str(w_.prob.status).lower()
                            elif hasattr(w_, "task") and w_.task is not None:
                                import mosek as _mk
                                st_ = str(w_.task.getprosta(_mk.soltype.itr)).lower()
                        except Exception:
                            st_ = ""
                    if ename == "SolverError":
                        counters["solver_errors_inconclusive"] = counters.get("solver_errors_inconclusive", 0) + 1
                    elif any(x in st_ for x in ("unbounded", "infeasible", "dual_infeas", "prim_infeas")):
                        # the back-end did report "no finite optimum": solve must RETURN no value, not crash
                        counters["nofinite_models_judged"] = counters.get("nofinite_models_judged", 0) + 1
                        viol.append({"key": "solve_raises_instead_of_returning_none:" + ename,
                                     "what": "the back-end reports %s (%s) and solve raised %s: %s instead of returning None"
                                             % (st_, kind, ename, str(case.outcome[1])[:120]), "program": prog, "config": cfg})
                    else:
                        counters["nofinite_other_exception:" + ename] = counters.get("nofinite_other_exception:" + ename, 0) + 1
                    continue
                if case.outcome[0] == "build_exc":
                    continue
                st = (case.status or "").lower()
                says_none = any(x in st for x in ("unbounded", "infeasible", "dual_infeas", "prim_infeas"))
                if not says_none:
                    counters["nofinite_status_other:" + st] = counters.get("nofinite_status_other:" + st, 0) + 1
                    if kind in ("contradictory", "infeasible_box", "lmi_infeasible", "lmi_not_symmetric", "constant_infeasible") and case.outcome[1] is not None \
                            and "optimal" in st and "inaccurate" not in st:
                        # infeasible by construction (by a margin of order 1), yet a number comes back with status optimal:
                        # whatever reached the solver was not the declared model, and the number stands for no solution
                        counters["nofinite_models_judged"] = counters.get("nofinite_models_judged", 0) + 1
                        viol.append({"key": "number_returned_on_infeasible_by_construction:" + kind,
                                     "what": "solve returned %r (status %s) for a model that is infeasible by construction (%s)"
                                             % (case.outcome[1], st, kind), "program": prog, "config": cfg})
                    continue
                counters["nofinite_models_judged"] = counters.get("nofinite_models_judged", 0) + 1
                sig.add("nofinite|%s|%s|%s" % (kind, solver, st))
                if case.outcome[1] is not None:
                    viol.append({"key": "number_returned_on_%s" % ("unbounded" if "unb" in st or "dual_infeas" in st else "infeasible"),
                                 "what": "solve returned %r although the back-end status is %s (%s)" % (case.outcome[1], st, kind),
                                 "program": prog, "config": cfg})
                    continue
                judge_accessors(reachable_objects(case.machine), "after_solve_returned_None", counters, sig, viol, prog)
                judge_function_tables("after_solve_returned_None", counters, sig, viol, prog)
    # (b') a model that WAS solved and then has no finite optimum any more: the re-solve returns None and every
    #      object of the model (incl. constraints / LMIs attached to functions) behaves as never solved
    for tag, prog in items:
        rng = random.Random("c16re/%s/%s" % (spec.get("seed", 0), tag))
        if rng.random() > 0.6:
            continue
        case = driver.run_case(prog, {"wrapper": "cvxpy", "solver": "CLARABEL", "verbose": 0, "mode": "dual"})
        if case.outcome[0] != "ok" or case.outcome[1] is None:
            continue
        pep = case.machine.pep
        from PEPit.function import Function
        if rng.random() < 0.35:
            # the list of performance metrics is emptied (a documented attribute, the suite itself overwrites it): nothing
            # bounds the objective any more
            pep.list_of_performance_metrics = []
            counters["resolves_without_metric"] = counters.get("resolves_without_metric", 0) + 1
        else:
            pep.list_of_constraints = []                 # drops initial conditions and boxes: no finite optimum any more
            for f_ in Function.list_of_functions:
                f_.list_of_constraints = [c for c in f_.list_of_constraints if "inexact" in str(c.get_name()) or "linesearch" in str(c.get_name())]
        n0 = len(bd.records)
        with contextlib.redirect_stdout(io.StringIO()):
            out = case.machine.do_solve({"verbose": 0, "solver": "CLARABEL"})
        if out[0] != "ok" or out[1] is not None or len(bd.records) <= n0:
            counters["resolve_still_finite_or_error"] = counters.get("resolve_still_finite_or_error", 0) + 1
            continue
        counters["failed_resolves_judged"] = counters.get("failed_resolves_judged", 0) + 1
        from PEPit.constraint import Constraint
        from PEPit.psd_matrix import PSDMatrix
        objs = [(src, o) for (src, o) in reachable_objects(case.machine)
                if not (src == "reg" and isinstance(o, (Constraint, PSDMatrix)))]
        # LMIs / constraints attached to functions and sent at this solve
        for k_, o_, t_ in bd.records[n0]["sent"]:
            objs.append(("sent_at_failed_resolve", o_))
        judge_accessors(objs, "after_failed_resolve", counters, sig, viol, prog)
        judge_function_tables("after_failed_resolve", counters, sig, viol, prog)
    # (c) invalid options on bounded models
    bad_opts = [{"return_primal_or_dual": "both"}, {"return_primal_or_dual": "Dual"}, {"return_primal_or_dual": None},
                {"return_primal_or_dual": "both", "dimension_reduction_heuristic": "trace"},
                {"return_primal_or_dual": "", "dimension_reduction_heuristic": "logdet1"},
                {"return_primal_or_dual": "primal ", "dimension_reduction_heuristic": "logdet2"},
                {"dimension_reduction_heuristic": "foo", "return_primal_or_dual": "primal"},
                {"dimension_reduction_heuristic": "logdet", "return_primal_or_dual": "primal"},
                {"dimension_reduction_heuristic": "foo"}, {"dimension_reduction_heuristic": "logdet"},
                {"dimension_reduction_heuristic": "logdetx"}, {"dimension_reduction_heuristic": "trace1"},
                {"dimension_reduction_heuristic": "Trace"}, {"dimension_reduction_heuristic": "logdet1.5"},
                {"dimension_reduction_heuristic": "log_det2"},
                {"solver": "CLARABELL"}, {"solver": "NOT_A_SOLVER"}, {"solver": "clarabel "}, {"solver": 3}]
    rng = driver.case_rng(spec["seed"], spec["name"] + "/opt", 0)
    for j, bo in enumerate(bad_opts):
        if (j + spec.get("shard", 0)) % 2 and "replay" not in spec and spec.get("n", 10) < 100:
            continue
        prog = gen.gen_program(rng, "method", {"cls": "SmoothStronglyConvexFunction", "mode": "single", "N": 1})
        m = gen.Machine()
        with contextlib.redirect_stdout(io.StringIO()):
            m.run(prog["ops"])
            kw = {"verbose": 0, "solver": "CLARABEL"}
            kw.update(bo)
            out = m.do_solve(kw)
        counters["invalid_option_cases"] = counters.get("invalid_option_cases", 0) + 1
        sig.add("invalid_option|%s" % (sorted(bo.items()),))
        if out[0] == "ok" and out[1] is not None:
            viol.append({"key": "invalid_option_accepted:%s" % "+".join(sorted(bo.keys())),
                         "what": "solve(%r) returned %r instead of raising" % (bo, out[1]), "program": prog, "options": bo})
    # (c') invalid options of the primitive steps and an invalid constraint sense reaching a back-end
    from PEPit import PEP
    from PEPit.functions import SmoothStronglyConvexFunction
    from PEPit.primitive_steps import inexact_gradient_step, inexact_proximal_step
    step_cases = [("inexact_gradient_step.notion", b) for b in ["abs", "Relative", "", None, 1, "absolute "]] + \
                 [("inexact_proximal_step.opt", b) for b in ["PD_gapIV", "pd_gapI", "", None, 3, "PD_gapI "]] + \
                 [("constraint.sense:" + w, b) for w in ("cvxpy", "mosek") for b in ["geq", "", None, "Equality"]] + \
                 [("get_block.block_number", b) for b in [-1, -2, 2, 3, -3, 1.5, 100]]
    for j, (what, bad) in enumerate(step_cases):
        if (j + spec.get("shard", 0)) % 2 and "replay" not in spec and spec.get("n", 10) < 100:
            continue
        if what.endswith("mosek") and not spec.get("extra_path"):
            continue
        problem = PEP()
        f = problem.declare_function(SmoothStronglyConvexFunction, L=1., mu=.1)
        xs = f.stationary_point()
        x0 = problem.set_initial_point()
        con = (x0 - xs) ** 2 <= 1
        problem.set_initial_condition(con)
        raised, got = None, None
        try:
            with contextlib.redirect_stdout(io.StringIO()):
                if what.startswith("inexact_gradient_step"):
                    got = inexact_gradient_step(x0, f, gamma=1., epsilon=.1, notion=bad)
                elif what.startswith("inexact_proximal_step"):
                    got = inexact_proximal_step(x0, f, 1., opt=bad)
                elif what.startswith("get_block"):
                    part = problem.declare_block_partition(d=2)       # valid block numbers: 0 and 1
                    if j % 2:
                        part.get_block(x0, 0)                         # already decomposed point
                    got = part.get_block(x0, bad)
                else:
                    x1 = x0 - f.gradient(x0)
                    problem.set_performance_metric((x1 - xs) ** 2)
                    con.equality_or_inequality = bad
                    got = problem.solve(verbose=0, wrapper=what.split(":")[1], solver="CLARABEL")
        except Exception as ex:
            raised = type(ex).__name__
        counters["invalid_option_cases"] = counters.get("invalid_option_cases", 0) + 1
        counters["invalid_step_option_cases"] = counters.get("invalid_step_option_cases", 0) + 1
        sig.add("invalid_option|%s|%r|%s" % (what, bad, raised))
        if raised is None:
            viol.append({"key": "invalid_option_accepted:%s" % what.split(":")[0],
                         "what": "%s=%r was accepted (returned %s) instead of raising" % (what, bad, type(got).__name__),
                         "step_case": [what, bad if isinstance(bad, (str, int, type(None))) else repr(bad)]})
    return {"counters": counters, "signatures": sorted(sig), "samples": samples, "violations": viol[:12],
            "observations": obs, "extra": {"shard_wall_s": round(time.time() - t0, 1)}}
