"""C07 - oracle bookkeeping is coherent for leaf and composite functions.

Invariant-at-a-hook shape: after every public Function call of a random call sequence the whole bookkeeping
state (list_of_points / list_of_stationary_points of every leaf and composite) is walked and checked against
an executable model (I1..I6 of DESIGN 3/C07), plus contracts on what each call returned.
"""
import itertools
import random
import time

LEVEL = "exploration"
RULE = ("random call sequences (<=25 calls; exhaustive short sequences in the thorough tier) of oracle/gradient/"
        "subgradient/value/__call__/stationary_point/fixed_point/proximal_step on 1-4 leaf functions of mixed "
        "differentiability and on composites (nested sums, zero and cancelling weights, terms evaluated before/after "
        "the sum, alias points with equal decomposition); after every call the invariants I1 one value per point, "
        "I2 gradient reuse, I3 weighted-sum coherence, I4 stationary points, I5 alias points, I6 recorded samples "
        "immutable are evaluated on every function. distinct = distinct (call kinds sequence prefix of length 4, "
        "function shapes) signatures")
ASSUMPTIONS = ["pv/canon.py; coefficient equality at 1e-9 relative (remainder computations divide by weights)"]
DECIDING_COUNTER = "invariant_evaluations"
MIN_DECIDED = {"quick": 20000, "thorough": 1000000}
NSHARDS = 16
TOL = 1e-9


def plan(tier, seed):
    n = 1200 if tier == "quick" else 40000
    return [{"name": "s%d" % i, "seed": seed, "shard": i, "n_seq": n, "exhaustive": tier == "thorough"}
            for i in range(NSHARDS)]


# ---- canonical forms with tolerance ------------------------------------------------------------------------
def cpoint(p):
    from pv import canon
    return {id(k): v for k, v in canon.point_coeffs(p).items() if abs(v) > 1e-13}


def ppt(p):
    """'the same point' in the statement's sense: the SAME decomposition over leaf points - exactly, as the library's own
    lookup compares it (a coefficient that differs in the last bit, e.g. (x - 3.6 y) + 3.6 y = 0.9999999999999991 x, is
    another point and may legitimately get its own sample: DESIGN Appendix B17)"""
    return {id(k): v for k, v in p.decomposition_dict.items() if v != 0}


def cexpr(e):
    from pv import canon
    G, F, c = canon.expr_coeffs(e)
    out = {}
    for (p, q), v in G.items():
        k = ("G",) + tuple(sorted((id(p), id(q))))
        out[k] = out.get(k, 0.0) + v
    for k_, v in F.items():
        out[("F", id(k_))] = out.get(("F", id(k_)), 0.0) + v
    if c:
        out[("C",)] = c
    return {k: v for k, v in out.items() if abs(v) > 1e-13}


def close(d1, d2, tol=TOL):
    if set(d1) != set(d2):
        # allow tiny coefficients present on one side only
        for k in set(d1) ^ set(d2):
            if abs(d1.get(k, 0.0) - d2.get(k, 0.0)) > tol:
                return False
    for k in set(d1) | set(d2):
        a, b = d1.get(k, 0.0), d2.get(k, 0.0)
        if abs(a - b) > tol * (1.0 + max(abs(a), abs(b))):
            return False
    return True


def lin(dicts_weights):
    out = {}
    for d, w in dicts_weights:
        for k, v in d.items():
            out[k] = out.get(k, 0.0) + w * v
    return out


# ---- the invariants ----------------------------------------------------------------------------------------
class Checker(object):
    def __init__(self):
        self.viol = []
        self.n = 0
        self.snap = {}       # id(function) -> list of (cx, cg, cv) recorded so far
        self.returned = {}   # (id(function), frozen cx) -> cg  for reuse functions

    def v(self, key, what):
        if len(self.viol) < 6:
            self.viol.append({"key": key, "what": what})

    def check_all(self, functions, after_call):
        for F in functions:
            self.check_function(F, after_call)

    def check_function(self, F, after_call):
        trip = [(ppt(x), cpoint(g), cexpr(v)) for (x, g, v) in F.list_of_points]
        # I6: recorded samples immutable, list append-only
        old = self.snap.get(id(F), [])
        self.n += 1
        if len(trip) < len(old):
            self.v("samples_removed", "list_of_points of a function shrank after %s" % after_call)
        for i, (o, t) in enumerate(zip(old, trip)):
            if not (o[0] == t[0] and close(o[1], t[1]) and close(o[2], t[2])):
                self.v("recorded_sample_mutated", "sample %d of a function changed after %s" % (i, after_call))
                break
        self.snap[id(F)] = trip
        # group by point
        groups = []
        for t in trip:
            for gr in groups:
                if gr[0][0] == t[0]:
                    gr.append(t)
                    break
            else:
                groups.append([t])
        kind = "leaf" if F.get_is_leaf() else "composite"
        for gr in groups:
            self.n += 1
            # I1 one value per point
            for t in gr[1:]:
                if not close(gr[0][2], t[2]):
                    self.v("two_values_at_one_point:%s" % kind,
                           "a %s function holds two different value expressions at one point after %s" % (kind, after_call))
                    break
            # I2 differentiable (as DECLARED by the user, not as the object remembers it): one gradient per point
            declared = DECLARED_DIFF.get(id(F), F.reuse_gradient)
            if declared and not F.reuse_gradient:
                self.v("declared_differentiability_ignored:%s" % type(F).__name__,
                       "%s was declared with reuse_gradient=True but the object has reuse_gradient=False" % type(F).__name__)
            if declared:
                for t in gr[1:]:
                    if not close(gr[0][1], t[1]):
                        self.v("two_gradients_at_one_point_differentiable:%s" % kind,
                               "a differentiable %s function holds two different gradients at one point after %s" % (kind, after_call))
                        break
        # stationary list is a sublist with zero gradient
        for (x, g, v) in F.list_of_stationary_points:
            self.n += 1
            if cpoint(g):
                self.v("stationary_point_nonzero_gradient", "list_of_stationary_points holds a sample with non-zero gradient")
            if not any(x is t[0] and g is t[1] and v is t[2] for t in F.list_of_points):
                self.v("stationary_not_in_points", "stationary sample missing from list_of_points")
        # I4b: every sample whose gradient is zero is registered as a stationary point
        # ("zero" exactly, as for 'the same point': 1.5 g + 2.5 (-0.6 g) = -2.2e-16 g is a gradient that is not null, Appendix B24)
        for (x, g, v) in F.list_of_points:
            if not ppt(g) and not any(x is t[0] and g is t[1] for t in F.list_of_stationary_points):
                self.v("zero_gradient_sample_not_registered_stationary:%s" % kind,
                       "a %s function holds a sample with zero gradient that is missing from list_of_stationary_points (after %s)" % (kind, after_call))
                break
        # I3 composite coherence
        if not F.get_is_leaf():
            want_w = EXPECTED_WEIGHTS.get(id(F))
            if want_w is not None:
                self.n += 1
                got_w = {id(f): float(w) for f, w in F.decomposition_dict.items() if w != 0}
                if set(got_w) != set(want_w) or any(abs(got_w[k] - want_w[k]) > 1e-12 * (1 + abs(want_w[k])) for k in want_w):
                    self.v("composite_weights_not_as_written", "a composite function does not carry the weights of the expression that built it "
                           "(%s instead of %s) after %s" % (sorted(got_w.values()), sorted(want_w.values()), after_call))
            terms = [(f, float(w)) for f, w in F.decomposition_dict.items() if w != 0]
            tsamples = {id(f): [(ppt(x), cpoint(g), cexpr(v)) for (x, g, v) in f.list_of_points] for f, _ in terms}
            for t in trip:
                self.n += 1
                cands = []
                missing = False
                for f, w in terms:
                    c = [s for s in tsamples[id(f)] if s[0] == t[0]]
                    if not c:
                        missing = True
                        break
                    cands.append((c, w))
                if missing:
                    self.v("composite_sample_without_term_sample",
                           "a composite holds a sample at a point where one of its terms has none (after %s)" % after_call)
                    continue
                found = False
                for combo in itertools.islice(itertools.product(*[c for c, _ in cands]), 2000):
                    g = lin([(s[1], w) for s, (_, w) in zip(combo, cands)])
                    if not close(g, t[1], 1e-8):
                        continue
                    v = lin([(s[2], w) for s, (_, w) in zip(combo, cands)])
                    if close(v, t[2], 1e-8):
                        found = True
                        break
                if not found:
                    self.v("composite_sample_not_weighted_sum",
                           "a composite sample is not the weighted sum of samples of its terms at that point (after %s; %d terms)"
                           % (after_call, len(terms)))


DECLARED_DIFF = {}
KEEP = []

# ---- workload ----------------------------------------------------------------------------------------------
EXPECTED_WEIGHTS = {}      # id(composite) -> {id(leaf): weight} as written


DIFF = ["SmoothConvexFunction", "SmoothStronglyConvexFunction", "SmoothFunction", "LipschitzOperator", "CocoerciveOperator",
        "LinearOperator", "SymmetricLinearOperator"]
NONDIFF = ["ConvexFunction", "ConvexLipschitzFunction", "StronglyConvexFunction", "MonotoneOperator",
           "ConvexIndicatorFunction"]


def build_functions(rng, pep):
    from pv.classes import CLASSES, get_class
    nleaf = rng.randint(1, 4)
    leaves = []
    for _ in range(nleaf):
        cls = rng.choice(DIFF if rng.random() < 0.5 else NONDIFF)
        params = CLASSES[cls][2](rng)
        kw = {}
        if cls in NONDIFF and rng.random() < 0.25:
            kw["reuse_gradient"] = True
        fobj = pep.declare_function(get_class(cls), **params, **kw)
        # what the USER declared (an inherently differentiable class, or the documented reuse_gradient option)
        DECLARED_DIFF[id(fobj)] = (cls in DIFF) or bool(kw.get("reuse_gradient"))
        KEEP.append(fobj)
        leaves.append(fobj)
        if cls == "LinearOperator" and rng.random() < 0.7:
            # the transpose of a linear operator is a (single-valued) linear operator: same bookkeeping rules
            DECLARED_DIFF[id(fobj.T)] = True
            KEEP.append(fobj.T)
            leaves.append(fobj.T)
    comps = []
    shapes = []
    ncomp = rng.randint(0, 3) if nleaf > 1 else rng.randint(0, 1)

    # every composite is built twice: by the real operators, and as a plain {leaf: weight} dictionary (what the written
    # expression means); the two must agree whatever fast paths the operators take
    class WF(object):
        def __init__(self, obj, w):
            self.obj, self.w = obj, w

        def __add__(self, o):
            w = dict(self.w)
            for k, v in o.w.items():
                w[k] = w.get(k, 0.0) + v
            return WF(self.obj + o.obj, w)

        def __sub__(self, o):
            w = dict(self.w)
            for k, v in o.w.items():
                w[k] = w.get(k, 0.0) - v
            return WF(self.obj - o.obj, w)

        def __mul__(self, c):
            return WF(self.obj * c, {k: v * c for k, v in self.w.items()})

        def __rmul__(self, c):
            return WF(c * self.obj, {k: c * v for k, v in self.w.items()})

        def __truediv__(self, c):
            return WF(self.obj / c, {k: v / c for k, v in self.w.items()})

    for _ in range(ncomp):
        shape = rng.choice(["sum", "weighted", "nested", "zero_weight", "cancel", "single_scaled", "sub", "repeated_leaf"])
        fs = rng.sample(leaves, min(len(leaves), rng.randint(2, 3))) if len(leaves) > 1 else leaves * 1
        fs = [WF(f_, {id(f_): 1.0}) for f_ in fs]
        w = lambda: rng.choice([1, 2, -1, 0.5, 9 / 5, 3.0, -0.25])
        if shape == "sum" and len(fs) > 1:
            F = fs[0] + fs[1]
            for f in fs[2:]:
                F = F + f
        elif shape == "weighted" and len(fs) > 1:
            F = w() * fs[0] + fs[1] * w()
            for f in fs[2:]:
                F = F + w() * f
        elif shape == "nested" and len(fs) > 1:
            F = (fs[0] + 2 * fs[1]) / 2 - fs[-1] * 0.5 + fs[0]
        elif shape == "repeated_leaf" and len(fs) > 1:
            F = rng.choice([lambda: (fs[0] + fs[1]) + fs[0], lambda: (2 * fs[0] + fs[1] / 2) + fs[1], lambda: fs[0] + fs[0],
                            lambda: (fs[0] - fs[1]) + fs[1] + fs[1], lambda: fs[0] + (fs[1] + fs[0])])()
        elif shape == "zero_weight" and len(fs) > 1:
            F = fs[0] + 0 * fs[1]
            if len(fs) > 2:
                F = F + fs[2]
        elif shape == "cancel" and len(fs) > 1:
            F = fs[0] + fs[1] - fs[1]
            if len(fs) > 2 and rng.random() < 0.5:
                F = 2 * fs[0] + fs[2] + fs[1] - fs[1]
        elif shape == "sub" and len(fs) > 1:
            F = fs[0] - fs[1]
        else:
            F = w() * fs[0]
            shape = "single_scaled"
        EXPECTED_WEIGHTS[id(F.obj)] = {k: v for k, v in F.w.items() if v != 0}
        KEEP.append(F.obj)
        F = F.obj
        comps.append(F)
        shapes.append(shape)
    return leaves, comps, shapes


CALLS = ["oracle", "gradient", "subgradient", "value", "call", "stationary", "fixed", "prox", "newpoint", "alias",
         "oracle", "value", "gradient", "oracle", "accumulate"]


def run_sequence(rng, calls=None, ck=None):
    from PEPit import PEP, Point
    from PEPit.function import Function
    from PEPit.primitive_steps import proximal_step
    pep = PEP()
    leaves, comps, shapes = build_functions(rng, pep)
    funcs = leaves + comps
    x0 = pep.set_initial_point()
    pts = [x0]
    if rng.random() < 0.5:
        pts.append(pep.set_initial_point())
    ck = ck or Checker()
    seq = []
    L = len(calls) if calls is not None else rng.randint(3, 25)
    for step in range(L):
        c = calls[step] if calls is not None else rng.choice(CALLS)
        F = rng.choice(funcs) if rng.random() < 0.7 or not comps else rng.choice(comps)
        x = rng.choice(pts)
        allf = list(Function.list_of_functions)
        kind = "leaf" if F.get_is_leaf() else "comp"
        seq.append(c + ":" + kind)
        if c == "oracle":
            before = [(ppt(xx), cpoint(gg), cexpr(vv)) for (xx, gg, vv) in F.list_of_points]
            g, v = F.oracle(x)
            pts.append(g)
            check_return(ck, F, x, g, v, before, "oracle")
        elif c in ("gradient", "subgradient"):
            before = [(ppt(xx), cpoint(gg), cexpr(vv)) for (xx, gg, vv) in F.list_of_points]
            g = getattr(F, c)(x)
            pts.append(g)
            check_return(ck, F, x, g, None, before, c)
        elif c in ("value", "call"):
            before = [(ppt(xx), cpoint(gg), cexpr(vv)) for (xx, gg, vv) in F.list_of_points]
            v = F.value(x) if c == "value" else F(x)
            check_return(ck, F, x, None, v, before, c)
        elif c == "stationary":
            xs, gs, vs = F.stationary_point(return_gradient_and_function_value=True)
            pts.append(xs)
            ck.n += 1
            if cpoint(gs):
                ck.v("stationary_point_nonzero_gradient", "stationary_point() returned a non-zero gradient")
            if not any(t[0] is xs for t in F.list_of_stationary_points) or not any(t[0] is xs for t in F.list_of_points):
                ck.v("stationary_not_recorded", "stationary_point() did not record the point in both lists")
        elif c == "fixed":
            xf, gf, vf = F.fixed_point()
            pts.append(xf)
            ck.n += 1
            if xf is not gf or not any(t[0] is xf and t[1] is xf for t in F.list_of_points):
                ck.v("fixed_point_not_recorded", "fixed_point() did not record (x, x, fx)")
        elif c == "prox" and rng.random() < 0.5:
            xn, gx, fx = proximal_step(x, F, rng.choice([1.0, 0.5, 2.0]))
            pts.extend([xn, gx])
            check_return(ck, F, xn, gx, fx, [], "proximal_step")
        elif c == "prox":
            # the inexact proximal step hands back two samples of F: (x, gx, fx) and (w, v, fw)
            from PEPit.primitive_steps import inexact_proximal_step
            opt = rng.choice(["PD_gapI", "PD_gapII", "PD_gapIII"])
            xn, gx, fx, w, v, fw, _eps = inexact_proximal_step(x, F, rng.choice([1.0, 0.5, 2.0]), opt=opt)
            pts.extend([xn, gx])
            check_return(ck, F, xn, gx, fx, [], "inexact_proximal_step:" + opt)
            check_return(ck, F, w, v, fw, [], "inexact_proximal_step:" + opt)
        elif c == "accumulate":
            # total = F; total += w * k  (an objective accumulated in a loop): F itself - still known under its own name,
            # with its samples - stays the function it was, `total` is a function of its own that denotes F + w k
            kf = rng.choice(leaves)
            w = rng.choice([1.0, 2.0, -0.5, 3.0])
            w_before = {id(f_): float(c_) for f_, c_ in F.decomposition_dict.items() if c_ != 0}
            n_before = len(F.list_of_points)
            total = F
            total += w * kf
            ck.n += 1
            w_after = {id(f_): float(c_) for f_, c_ in F.decomposition_dict.items() if c_ != 0}
            if w_after != w_before or len(F.list_of_points) != n_before:
                ck.v("augmented_assignment_changed_the_function_under_its_other_name",
                     "`total = F; total += %g * k` changed F itself (weights %s -> %s): its recorded samples are no longer those of the "
                     "function it denotes" % (w, sorted(w_before.values()), sorted(w_after.values())))
            want = dict(w_before)
            want[id(kf)] = want.get(id(kf), 0.0) + w
            got = {id(f_): float(c_) for f_, c_ in total.decomposition_dict.items() if c_ != 0}
            want = {k_: v_ for k_, v_ in want.items() if v_ != 0}
            if set(got) != set(want) or any(abs(got[k_] - want[k_]) > 1e-12 * (1 + abs(want[k_])) for k_ in want):
                ck.v("augmented_assignment_wrong_sum", "`total += %g * k` does not denote F + %g k" % (w, w))
            elif total is not F and want:
                EXPECTED_WEIGHTS[id(total)] = want
                KEEP.append(total)
                funcs.append(total)
                comps.append(total)
        elif c == "newpoint":
            k = rng.randint(2, 3)
            p = None
            for _ in range(k):
                t = rng.choice([1, -1, 0.5, 2.0]) * rng.choice(pts)
                p = t if p is None else p + t
            pts.append(p)
        elif c == "alias":
            y = rng.choice(pts)
            a = rng.choice([lambda: (x + y) - y, lambda: 2 * x / 2, lambda: x * 1, lambda: (x - 0.5 * y) + 0.5 * y,
                            lambda: x + 0 * y, lambda: 0 * y, lambda: 0 * x, lambda: x - x, lambda: (0 * y) * 1])()
            pts.append(a)
        ck.check_all(list(Function.list_of_functions), "%s on %s function (step %d)" % (c, kind, step))
        if ck.viol:
            break
    return ck, seq, shapes, [type(f).__name__ for f in leaves]


def check_return(ck, F, x, g, v, before, what):
    """Contracts on returned objects, against the state before the call."""
    cx = ppt(x)
    prev = [t for t in before if t[0] == cx]
    ck.n += 1
    if v is not None and prev:
        if not close(cexpr(v), prev[0][2]):
            ck.v("value_changed_on_requery:%s" % what,
                 "%s returned a different function value for a point already evaluated" % what)
    if g is not None and prev and F.reuse_gradient:
        if not any(close(cpoint(g), t[1]) for t in prev):
            ck.v("gradient_not_reused:%s" % what, "%s on a differentiable function returned a new gradient for a known point" % what)
    # what is returned must be recorded
    now = [(ppt(xx), cpoint(gg), cexpr(vv)) for (xx, gg, vv) in F.list_of_points]
    here = [t for t in now if t[0] == cx]
    if not here:
        ck.v("returned_sample_not_recorded:%s" % what, "%s returned objects but recorded no sample at the point" % what)
        return
    if g is not None and not any(close(cpoint(g), t[1]) for t in here):
        ck.v("returned_gradient_not_recorded:%s" % what, "%s returned a gradient that is not recorded at the point" % what)
    if v is not None and not any(close(cexpr(v), t[2]) for t in here):
        ck.v("returned_value_not_recorded:%s" % what, "%s returned a value that is not recorded at the point" % what)


def run_shard(spec):
    t0 = time.time()
    counters = {"sequences": 0, "invariant_evaluations": 0, "calls": 0}
    sigs, viol, samples = set(), [], []
    if "replay" in spec:
        seeds = [spec["replay"]["rng"]]
    else:
        seeds = ["c07/%d/%d/%d" % (spec["seed"], spec["shard"], i) for i in range(spec["n_seq"])]
    for sd in seeds:
        rng = random.Random(sd)
        try:
            ck, seq, shapes, classes = run_sequence(rng)
        except Exception as e:
            counters["sequence_exceptions:" + type(e).__name__] = counters.get("sequence_exceptions:" + type(e).__name__, 0) + 1
            if counters["sequence_exceptions:" + type(e).__name__] <= 2:
                import traceback
                samples.append({"exception": traceback.format_exc()[-700:], "rng": sd})
            continue
        counters["sequences"] += 1
        counters["calls"] += len(seq)
        counters["invariant_evaluations"] += ck.n
        sigs.add("|".join(seq[:4]) + "#" + ",".join(sorted(shapes)))
        if len(samples) < 2:
            samples.append({"rng": sd, "calls": seq, "composite_shapes": shapes, "leaf_classes": classes})
        for v in ck.viol:
            v = dict(v)
            v.update({"rng": sd, "calls": seq, "composite_shapes": shapes, "leaf_classes": classes})
            if len(viol) < 10:
                viol.append(v)
    # exhaustive short sequences over a small alphabet (thorough tier)
    if spec.get("exhaustive") and "replay" not in spec:
        alpha = ["oracle", "value", "gradient", "stationary", "alias", "prox"]
        allseq = list(itertools.product(alpha, repeat=4))
        mine = [s for i, s in enumerate(allseq) if i % NSHARDS == spec["shard"]]
        for s in mine:
            for rep in range(6):
                sd = "c07x/%s/%d" % ("".join(x[0] for x in s), rep)
                rng = random.Random(sd)
                try:
                    ck, seq, shapes, classes = run_sequence(rng, calls=list(s))
                except Exception as e:
                    counters["sequence_exceptions:" + type(e).__name__] = counters.get("sequence_exceptions:" + type(e).__name__, 0) + 1
                    continue
                counters["sequences"] += 1
                counters["exhaustive_sequences"] = counters.get("exhaustive_sequences", 0) + 1
                counters["calls"] += len(seq)
                counters["invariant_evaluations"] += ck.n
                sigs.add("|".join(seq[:4]) + "#" + ",".join(sorted(shapes)))
                for v in ck.viol:
                    v = dict(v)
                    v.update({"rng": sd, "calls": seq, "composite_shapes": shapes, "leaf_classes": classes, "fixed_calls": list(s)})
                    if len(viol) < 10:
                        viol.append(v)
    return {"counters": counters, "signatures": sorted(sigs), "samples": samples, "violations": viol,
            "extra": {"shard_wall_s": round(time.time() - t0, 1)}}
