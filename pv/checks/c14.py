"""C14 - dimension-reduction post-processing keeps the guarantee it started from."""
import os

import numpy as np

from pv import oracles, driver
from pv.checks import _solvebase as sb

LEVEL = "exploration"
RULE = ("generated programs solved with dimension_reduction_heuristic in {trace, logdet1..logdet4}, random "
        "tol_dimension_reduction and eig_regularization, both return modes, both back-ends (MOSEK through the stand-in); "
        "monitors record the Gram matrix and value after every inner solver call and the moment the duals are assigned; "
        "oracle: duals assigned before any heuristic solve, C01 certificate against the originally sent constraints, "
        "dual-mode return = dual value of the plain solve of the same program, primal-mode return within "
        "[optimum - tol, optimum], C02 feasibility of the returned instance, trace non-increasing for 'trace', number of "
        "inner solves = 1 + N. distinct = distinct program signature x (heuristic, mode, back-end)")
ASSUMPTIONS = ["pv/canon.py", "thresholds DESIGN 2.8", "MOSEK side through pv/standins/mosek"]
DECIDING_COUNTER = "decided"
MIN_DECIDED = {"quick": 60, "thorough": 1500}
STANDINS = os.path.join(os.path.dirname(os.path.dirname(os.path.abspath(__file__))), "standins")


def plan(tier, seed):
    return sb.plan(tier, seed, per_shard_quick=14, per_shard_thorough=450, extra={"extra_path": [STANDINS]})


def config_fn(rng):
    cfg = {"wrapper": rng.choice(["cvxpy", "cvxpy", "cvxpy", "mosek", "mosek", "mosek_absent"]), "solver": "CLARABEL", "verbose": rng.choice([0, 0, 1]),
           "mode": rng.choice(["dual", "primal"]),
           "dimred": rng.choice(["trace", "trace", "logdet1", "logdet2", "logdet3", "logdet4"]),
           "tol_dr": rng.choice([1e-4, 1e-5, 1e-3, 1e-2, 0.0, 0]), "eig_reg": rng.choice([1e-3, 1e-5, 1e-2])}
    return cfg


def judge(acc, case, prog, cfg, rng):
    rec = case.rec
    mode = cfg["mode"]
    ret = case.outcome[1]
    findings = []

    def add(key, what, defect, scale, fam):
        g = oracles._grade(defect, scale, fam)
        if g != "held":
            findings.append({"key": key, "what": what, "defect": float(defect), "scale": float(scale), "grade": g})

    fam = oracles.solver_family(rec)
    nheur = 1 if cfg["dimred"] == "trace" else int(cfg["dimred"][6:])
    acc.count("heuristic:" + cfg["dimred"])
    acc.count("backend:" + cfg["wrapper"])
    if len(rec["inner"]) != 1 + nheur or rec["heuristic_calls"] != nheur:
        findings.append({"key": "wrong_number_of_heuristic_solves", "what": "%d inner solves / %d heuristic calls for %s"
                         % (len(rec["inner"]), rec["heuristic_calls"], cfg["dimred"]), "grade": "violated", "defect": 1, "scale": 1})
    if rec["assign_after_inner"] != 1:
        findings.append({"key": "duals_assigned_after_heuristic",
                         "what": "multipliers were read after %r inner solves (must be right after the first one)" % rec["assign_after_inner"],
                         "grade": "violated", "defect": 1, "scale": 1})
    opt = rec["inner"][0]["value"]
    if rec["prepare"] is None or abs(rec["prepare"][0] - opt) > 1e-12 * (1 + abs(opt)) or rec["prepare"][1] != cfg["tol_dr"]:
        findings.append({"key": "heuristic_prepared_with_wrong_value", "what": "prepare_heuristic(%r) for optimum %r tol %r" % (rec["prepare"], opt, cfg["tol_dr"]),
                         "grade": "violated", "defect": 1, "scale": 1})
    for f in HEUR.pop(id(rec), []):
        findings.append(dict(f, defect=1, scale=1))
    acc.count("heuristic_objectives_validated", rec["heuristic_calls"])
    cf, cinfo = oracles.certificate_check(rec, ret, mode)
    pf, pinfo = oracles.primal_check(rec, ret, mode, held_objects=driver.held_objects(case.machine))
    for f in cf:
        if f["key"] in oracles.C01_KNOWN_KEYS:
            acc.count("c01_known_mechanism_seen")
            continue
        findings.append(dict(f, key="dimred:" + f["key"]))
    # feasibility tolerance of the returned instance: the heuristic problems are solved to solver tolerance too
    for f in pf:
        findings.append(dict(f, key="dimred:" + f["key"]))
    # the wrapper's public getter of the multipliers is a read: it hands back the multipliers of the ORIGINAL problem (those
    # the constraints expose) and leaves them as they are, although the solver's current problem is the heuristic one
    if not any(f["grade"] == "violated" for f in cf) and getattr(rec["pep"], "wrapper", None) is not None:
        try:
            got = rec["pep"].wrapper.get_dual_variables()
        except Exception as e:
            got = e
        acc.count("dual_getter_calls_judged")
        if isinstance(got, Exception):
            findings.append({"key": "dual_getter_raises_after_heuristic", "what": "wrapper.get_dual_variables() raised %r after a finite solve" % (got,),
                             "grade": "violated", "defect": 1, "scale": 1})
        else:
            res_ = np.asarray(got[1], dtype=float)
            R0 = np.asarray(rec["pep"].residual, dtype=float)
            scr = cinfo.get("scale", 1.0)
            if res_.shape != R0.shape:
                findings.append({"key": "dual_getter_residual_differs_from_exposed_residual", "what": "shapes %r vs %r" % (res_.shape, R0.shape),
                                 "grade": "violated", "defect": 1, "scale": 1})
            else:
                add("dual_getter_residual_differs_from_exposed_residual", "the residual handed back by wrapper.get_dual_variables() differs "
                    "from PEP.residual by %.3e" % float(np.max(np.abs(res_ - R0), initial=0.0)), float(np.max(np.abs(res_ - R0), initial=0.0)), scr, fam)
            cf2, cinfo2 = oracles.certificate_check(rec, ret, mode)
            for f in cf2:
                if f["key"] not in oracles.C01_KNOWN_KEYS and f["grade"] == "violated":
                    findings.append(dict(f, key="after_dual_getter:" + f["key"],
                                         what="after calling wrapper.get_dual_variables(): " + f["what"]))
    # DESIGN 2.8: the scale includes the size of the primal solution (the heuristic problems are badly scaled:
    # weights up to 1/eig_regularization, Gram entries of 1e6 with SCS), not only the multipliers
    sc = max(cinfo.get("scale", 1.0), pinfo.get("scale", 1.0))
    tau = cinfo.get("tau_identity")
    final_obj = rec["inner"][-1]["value"]       # objective of the heuristic problem (must NOT be what is returned)
    pep = rec["pep"]
    objv = float(pep.objective.eval())
    if mode == "primal":
        add("primal_outside_tolerance_band", "primal-mode return %.10g not within [optimum - tol, optimum] = [%.10g, %.10g]"
            % (ret, opt - cfg["tol_dr"], opt), max(ret - opt, (opt - cfg["tol_dr"]) - ret, 0.0), sc, fam)
    add("instance_objective_outside_tolerance_band", "objective at the returned instance %.10g not within [optimum - tol, optimum] = [%.10g, %.10g]"
        % (objv, opt - cfg["tol_dr"], opt), max(objv - opt, (opt - cfg["tol_dr"]) - objv, 0.0), sc, fam)
    G0, G1 = rec["inner"][0]["G"], rec["inner"][-1]["G"]
    if cfg["dimred"] == "trace" and G0 is not None and G1 is not None:
        add("trace_increased", "trace of the Gram matrix went from %.8g to %.8g" % (np.trace(G0), np.trace(G1)),
            max(np.trace(G1) - np.trace(G0), 0.0), 1 + abs(np.trace(G0)), fam)
        acc.count("trace_strictly_decreased", int(np.trace(G1) < np.trace(G0) - 1e-6))
    if pep.G_value is not None and G1 is not None and np.max(np.abs(np.asarray(pep.G_value) - G1)) > 1e-12:
        findings.append({"key": "returned_gram_not_last_heuristic_gram", "what": "PEP.G_value is not the Gram matrix of the last heuristic solve",
                         "grade": "violated", "defect": 1, "scale": 1})
    # plain solve of the same program (afterwards: it resets the class registries)
    plain = driver.run_case(prog, {k: v for k, v in cfg.items() if k not in ("dimred", "tol_dr", "eig_reg")} | {"mode": "dual"})
    if plain.decidable:
        acc.count("compared_with_plain_solve")
        pv = plain.outcome[1]
        if mode == "dual":
            add("dual_bound_changed_by_heuristic", "dual-mode return %.12g with %s, %.12g without" % (ret, cfg["dimred"], pv),
                abs(ret - pv), 1 + abs(pv), fam)
        if tau is not None:
            add("certificate_constant_changed_by_heuristic", "identity constant %.12g with %s, plain dual value %.12g" % (tau, cfg["dimred"], pv),
                abs(tau - pv), 1 + abs(pv), fam)
    return findings


def on_undecidable(acc, case, prog, cfg):
    """The heuristic problem contains the optimum of the original one: it can never be infeasible.  A solver may still
    REPORT it infeasible for numerical reasons (weights up to 1/eig_regularization), so the claim is decided on the data:
    the solution of the first solve is plugged into the extra row 'objective >= optimum - tol' that was sent."""
    import numpy as np
    from pv.monitors import is_optimal_status
    inner = case.rec["inner"]
    if not (len(inner) >= 2 and is_optimal_status(str(inner[0]["status"]))):
        return []
    bad = [k for k, x in enumerate(inner[1:], 1) if str(x["status"]).lower() in ("infeasible", "prosta.prim_infeas")]
    if not bad:
        return []
    w = case.rec.get("wrapper")
    G0, F0 = inner[0].get("G"), inner[0].get("F")
    viol = None
    try:
        if type(w).__name__ == "CvxpyWrapper":
            w.G.value = G0
            w.F.value = F0
            c = w._list_of_solver_constraints[-1]
            viol = float(np.max(c.violation()))
        elif type(w).__name__ == "MosekWrapper":
            rows, cvec, C = w.task.dense()
            r = rows[-1]
            xx = np.zeros(w.task.numvar)
            xx[:len(F0)] = F0[:w.task.numvar]
            val = float(r["a"] @ xx) + sum(float(np.sum(Mx * G0)) for j, Mx in r["bar"].items() if j == 0)
            viol = max(val - r["bu"], 0.0)
    except Exception as e:
        acc.observations.append("could not evaluate the heuristic row: %r" % (e,))
    scale = 1.0 + abs(inner[0]["value"] or 0.0)
    if viol is not None and viol > 1e-6 * scale:
        return [{"key": "heuristic_problem_excludes_the_optimum", "grade": "violated",
                 "what": "the extra row of the %s heuristic problem is violated by %.3e by the optimal solution of the original problem "
                         "(inner solve %d reported %s; outcome %s)" % (cfg.get("dimred"), viol, bad[0], inner[bad[0]]["status"], repr(case.outcome[1])[:60])}]
    acc.count("heuristic_reported_infeasible_by_solver(numerical, not judged)")
    return []


HEUR = {}


def run_shard(spec):
    from pv.mosek_trace import validate_heuristic
    bd = driver.boundary()

    def after_heuristic(wrapper, rec, weight):
        try:
            HEUR.setdefault(id(rec), []).extend(validate_heuristic(wrapper, rec, weight))
        except Exception:
            pass

    bd.after_heuristic = after_heuristic
    return sb.run_generic(spec, judge, config_fn=config_fn, on_undecidable=on_undecidable)
