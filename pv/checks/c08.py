"""C08 - primitive steps encode exactly their defining optimality conditions."""
import contextlib
import io
import random
import time

import numpy as np

LEVEL = "exploration"
RULE = ("each of the 8 primitive steps is called through the real API with every option, random step sizes / accuracies "
        "(incl. 0, tiny, large), starting points that are leaves or combinations, on leaf and composite functions of "
        "differentiable and non-differentiable classes; oracle A (symbolic): the returned tuple, the samples added to "
        "every function and the side constraints added anywhere are compared (canonical functional equality, set "
        "equality: nothing more, nothing less) with a reference specification written from each step's documentation "
        "(e.g. primal-dual gap 1/2||x-x0+gamma v||^2 + gamma (f(x)-f(w)-<v,x-w>) <= eps); caller-owned arguments must "
        "be left untouched; oracle B (concrete): the real operation is run on real functions (quadratics, norms, "
        "indicators; exact prox, exact line search on quadratics, LMO on balls/boxes, Bregman steps with quadratic "
        "kernels, inexact proxes / epsilon-subgradients whose true gap is computed from the conjugate) and every "
        "recorded side constraint and class constraint must hold (tight where the construction is tight). "
        "distinct = distinct (step, option, function kind, start-point kind, parameter bucket)")
ASSUMPTIONS = ["reference specifications in this file transcribe the step docstrings", "pv/ref/members.py, pv/ref/sym.py, pv/canon.py"]
DECIDING_COUNTER = "step_calls_judged"
MIN_DECIDED = {"quick": 3000, "thorough": 150000}
REQUIRED_COUNTERS = {"quick": {"concrete_runs": 500}, "thorough": {"concrete_runs": 20000}}
NSHARDS = 16
STEPS = ["proximal", "inexact_gradient", "exact_linesearch", "inexact_proximal", "bregman_gradient",
         "bregman_proximal", "linear_optimization", "epsilon_subgradient"]


def plan(tier, seed):
    n = 300 if tier == "quick" else 30000
    return [{"name": "s%d" % i, "seed": seed, "shard": i, "n": n} for i in range(NSHARDS)]


# ---- symbolic side ------------------------------------------------------------------------------------------
def snapshot_functions():
    from PEPit.function import Function
    return {id(f): (f, len(f.list_of_points), len(f.list_of_constraints), len(f.list_of_psd)) for f in Function.list_of_functions}


def pkey(P_):
    return tuple(sorted(((id(k), round(v, 12)) for k, v in P_.d.items() if abs(v) > 1e-13)))


def ekey(E_, sense):
    return E_.key(sense)


def _pos(lst, obj):
    """identity-based index (list.index would call the overloaded Expression.__eq__)"""
    for i, o in enumerate(lst):
        if o is obj:
            return i
    return -1


def symbolic_case(rng):
    """Build a small model, call one step, compare with the spec. Returns (signature, findings, n_checks)."""
    from PEPit import PEP, Point, Expression
    from PEPit.function import Function
    import PEPit.primitive_steps as ps
    from PEPit.functions import (SmoothStronglyConvexFunction, ConvexFunction, SmoothConvexFunction, ConvexIndicatorFunction,
                                 StronglyConvexFunction, ConvexLipschitzFunction)
    from pv.ref.sym import P, E, ip, sq
    from pv import canon
    findings = []

    def F(key, what):
        findings.append({"key": key, "what": what})

    pep = PEP()
    step = rng.choice(STEPS)
    diff = rng.random() < 0.5
    fkind = rng.choice(["leaf", "leaf", "composite", "composite_weighted", "composite_null_term"])
    if diff:
        f = pep.declare_function(SmoothStronglyConvexFunction, mu=0.1, L=rng.choice([1.0, 3.0]))
    elif rng.random() < 0.5:
        f = pep.declare_function(ConvexFunction)
    else:
        f = pep.declare_function(ConvexLipschitzFunction, M=2.0)
    other = pep.declare_function(ConvexFunction)
    g2 = None
    if fkind == "composite":
        g2 = pep.declare_function(SmoothConvexFunction, L=2.0)
        target = f + rng.choice([1.0, 2.0]) * g2
        in_decomp = {id(f), id(g2)}
    elif fkind == "composite_weighted":
        g2 = pep.declare_function(SmoothConvexFunction, L=2.0)
        target = rng.choice([lambda: 3 * f + g2, lambda: f / 2 + 2 * g2, lambda: 0.5 * f + 0.25 * g2])()
        in_decomp = {id(f), id(g2)}
    elif fkind == "composite_null_term":
        g2 = pep.declare_function(SmoothConvexFunction, L=2.0)
        # a term whose weight is, or cancels to, zero: the composite is f alone
        target = rng.choice([lambda: f + 0.0 * g2, lambda: f + g2 - g2, lambda: 2 * f + 0 * g2])()
        in_decomp = {id(f)}
    else:
        target = f
        in_decomp = {id(f)}
    x00 = pep.set_initial_point()
    y00 = pep.set_initial_point()
    startkind = rng.choice(["leaf", "combination", "evaluated", "alias_of_evaluated", "stationary"] + (["terms_evaluated"] if g2 is not None else []))
    if startkind == "leaf":
        x0 = x00
    elif startkind == "stationary":
        # the method starts at (or has come back to) a declared stationary point: the null (sub)gradient recorded there is
        # ONE subgradient, a function that is not differentiable has others
        x0 = target.stationary_point()
    elif startkind == "combination":
        x0 = x00 - 0.5 * y00
    elif startkind == "evaluated":
        x0 = x00
        target.oracle(x0)
    elif startkind == "terms_evaluated":
        # every term of the composite already holds a sample at x0, the composite itself does not
        x0 = x00
        f.oracle(x0)
        g2.oracle(x0)
    else:
        # the same point as an already evaluated leaf, written as a combination (x00 + 0*y00, (x00+y00)-y00, 2*x00/2)
        target.oracle(x00)
        x0 = rng.choice([lambda: x00 + 0 * y00, lambda: (x00 + y00) - y00, lambda: 2 * x00 / 2])()
    gamma = rng.choice([1.0, 0.5, 2.0, 1e-3, 0.0 if step not in ("inexact_proximal", "bregman_gradient", "bregman_proximal") else 0.7, 10.0])
    if step == "inexact_proximal" and gamma == 0.0:
        gamma = 0.3
    before = snapshot_functions()
    np0, ne0 = len(Point.list_of_leaf_points), len(Expression.list_of_leaf_expressions)
    sig = [step, fkind, "diff" if diff else "nondiff", startkind, "g=%g" % gamma]
    P0 = P.of(x0)
    spec_samples = {}      # id(function) -> list of (Pkey x, Pkey g, E value) expected new samples
    spec_cons = []         # (E, sense) expected new constraints on `target`
    ret_checks = []
    opt = None
    if step == "proximal":
        x, gx, fx = ps.proximal_step(x0, target, gamma)
        ret_checks.append(("x = x0 - gamma*gx", pkey(P.of(x)) == pkey(P0 - gamma * P.of(gx))))
        ret_checks.append(("gx, fx fresh leaves", gx.get_is_leaf() and fx.get_is_leaf() and _pos(Point.list_of_leaf_points, gx) >= np0))
        spec_samples[id(target)] = [(x, gx, fx)]
    elif step == "inexact_gradient":
        eps = rng.choice([0.0, 0.1, 0.5, 2.0])
        opt = rng.choice(["absolute", "relative"])
        sig.append(opt)
        if opt == "absolute" and rng.random() < 0.4:
            sig.append("default")
            x, d, fx0 = ps.inexact_gradient_step(x0, target, gamma, eps)       # documented: "By default, notion='absolute'"
        else:
            x, d, fx0 = ps.inexact_gradient_step(x0, target, gamma, eps, notion=opt)
        ret_checks.append(("x = x0 - gamma*d", pkey(P.of(x)) == pkey(P0 - gamma * P.of(d))))
        ret_checks.append(("d fresh leaf", d.get_is_leaf() and _pos(Point.list_of_leaf_points, d) >= np0))
        at_x0 = [t for t in target.list_of_points if pkey(P.of(t[0])) == pkey(P0)]
        ret_checks.append(("fx0 is the value of f at x0", any(t[2] is fx0 or E.of(t[2]).key("equality") == E.of(fx0).key("equality") for t in at_x0)))
        # one constraint, with ONE gradient g of f at x0 on both sides
        new_c = target.list_of_constraints[before[id(target)][2]:]
        ok = False
        for t in at_x0:
            g = P.of(t[1])
            e = sq(g - P.of(d)) - (eps ** 2 if opt == "absolute" else 0.0)
            if opt == "relative":
                e = e - eps ** 2 * sq(g)
            if len(new_c) == 1 and new_c[0].equality_or_inequality == "inequality" and \
                    E.of(new_c[0].expression).key("inequality") == e.key("inequality"):
                ok = True
        ret_checks.append(("side constraint is ||g-d||^2 <= eps^2 (||g||^2) for one recorded gradient g at x0", ok or
                           (eps == 0 and opt == "relative" and len(new_c) == 1)))
        spec_cons = None   # judged above
        nb = before[id(target)][1]
        already = any(pkey(P.of(t[0])) == pkey(P0) for t in target.list_of_points[:nb])
        allowed = 0 if (already and target.reuse_gradient) else 1
        # ... and exactly that many: a function that is not differentiable (every term of a sum must be for the sum to be)
        # is asked for a NEW subgradient, whatever it already holds at that point
        required = 0 if (already and diff) else 1
        if len(target.list_of_points) - nb < required:
            F("step_reuses_a_subgradient_of_a_nondifferentiable_function:inexact_gradient",
              "inexact_gradient_step recorded no new sample on f although f is not differentiable (its %s term is not; f %s evaluated at "
              "that point before): the step is tied to the subgradient recorded earlier" % ("only" if g2 is None else "first", "was" if already else "was not"))
        if len(target.list_of_points) - nb > allowed:
            F("step_records_extra_samples:inexact_gradient", "inexact_gradient_step recorded %d new sample(s) on f, at most %d expected "
              "(f %s evaluated at that point before, reuse_gradient=%s)" % (len(target.list_of_points) - nb, allowed, "was" if already else "was not", target.reuse_gradient))
        spec_samples = None
    elif step == "exact_linesearch":
        dirs = rng.choice([[y00, x00 - y00], [x00 + y00, x00 - y00], [y00, 2 * y00], [x00 - y00, y00 - x00, x00], [y00]])[:rng.randint(0, 3)]
        dirs_copy = list(dirs)
        x, gx, fx = ps.exact_linesearch_step(x0, target, dirs)
        ret_checks.append(("x fresh leaf", x.get_is_leaf() and _pos(Point.list_of_leaf_points, x) >= np0))
        ret_checks.append(("caller's directions list untouched", len(dirs) == len(dirs_copy) and all(a is b for a, b in zip(dirs, dirs_copy))))
        at_x = [t for t in target.list_of_points if t[0] is x]
        ret_checks.append(("(gx, fx) is the sample of f at x", len(at_x) >= 1 and at_x[-1][1] is gx and at_x[-1][2] is fx))
        spec_cons = [(ip(P.of(x) - P0, P.of(gx)), "equality")] + [(ip(P.of(dd), P.of(gx)), "equality") for dd in dirs_copy]
        spec_samples[id(target)] = [(x, gx, fx)]
    elif step == "inexact_proximal":
        opt = rng.choice(["PD_gapI", "PD_gapII", "PD_gapIII"])
        sig.append(opt)
        x, gx, fx, w, v, fw, eps_var = ps.inexact_proximal_step(x0, target, gamma, opt=opt)
        Px, Pv, Pw = P.of(x), P.of(v), P.of(w)
        gap = 0.5 * sq(Px - P0 + gamma * Pv) + gamma * (E.of(fx) - E.of(fw) - ip(Pv, Px - Pw))
        spec_cons = [(gap - E.of(eps_var), "inequality")]
        ret_checks.append(("eps_var fresh leaf", eps_var.get_is_leaf() and _pos(Expression.list_of_leaf_expressions, eps_var) >= ne0))
        if opt == "PD_gapII":
            ret_checks.append(("w, v, fw are x, gx, fx", w is x and v is gx and fw is fx))
            spec_samples[id(target)] = [(x, gx, fx)]
        elif opt == "PD_gapIII":
            ret_checks.append(("v = (x0 - x)/gamma", pkey(Pv) == pkey((P0 - Px) * (1.0 / gamma))))
            spec_samples[id(target)] = [(x, gx, fx), (w, v, fw)]
        else:
            spec_samples[id(target)] = [(w, v, fw), (x, gx, fx)]
    elif step == "bregman_gradient":
        h = pep.declare_function(StronglyConvexFunction, mu=1.0)
        before = snapshot_functions()
        g0 = target.gradient(x0)
        before = snapshot_functions()
        sx0 = h.gradient(x0)
        before = snapshot_functions()
        x, sx, hx = ps.bregman_gradient_step(g0, sx0, h, gamma)
        ret_checks.append(("sx = sx0 - gamma*gx0", pkey(P.of(sx)) == pkey(P.of(sx0) - gamma * P.of(g0))))
        ret_checks.append(("x, hx fresh leaves", x.get_is_leaf() and hx.get_is_leaf()))
        spec_samples[id(h)] = [(x, sx, hx)]
        spec_samples[id(target)] = []
        spec_cons = []
    elif step == "bregman_proximal":
        h = pep.declare_function(StronglyConvexFunction, mu=1.0)
        sx0 = h.gradient(x0)
        before = snapshot_functions()
        x, sx, hx, gx, fx = ps.bregman_proximal_step(sx0, h, target, gamma)
        ret_checks.append(("sx = sx0 - gamma*gx", pkey(P.of(sx)) == pkey(P.of(sx0) - gamma * P.of(gx))))
        ret_checks.append(("x, gx, fx, hx fresh leaves", x.get_is_leaf() and gx.get_is_leaf() and fx.get_is_leaf() and hx.get_is_leaf()))
        spec_samples[id(h)] = [(x, sx, hx)]
        spec_samples[id(target)] = [(x, gx, fx)]
        spec_cons = []
    elif step == "linear_optimization":
        ind = pep.declare_function(ConvexIndicatorFunction, D=rng.choice([1.0, float("inf")]))
        before = snapshot_functions()
        direction = target.gradient(x0) if rng.random() < 0.6 else x0
        before = snapshot_functions()
        x, gx, fx = ps.linear_optimization_step(direction, ind)
        ret_checks.append(("gx = -dir", pkey(P.of(gx)) == pkey(P.of(direction) * (-1.0))))
        ret_checks.append(("x, fx fresh leaves", x.get_is_leaf() and fx.get_is_leaf()))
        spec_samples[id(ind)] = [(x, gx, fx)]
        spec_samples[id(target)] = []
        spec_cons = []
    elif step == "epsilon_subgradient":
        x, g0, f0, epsv = ps.epsilon_subgradient_step(x0, target, gamma)
        ret_checks.append(("x = x0 - gamma*g0", pkey(P.of(x)) == pkey(P0 - gamma * P.of(g0))))
        ret_checks.append(("g0, eps fresh leaves", g0.get_is_leaf() and epsv.get_is_leaf() and _pos(Point.list_of_leaf_points, g0) >= np0))
        at_x0 = [t for t in target.list_of_points if pkey(P.of(t[0])) == pkey(P0)]
        ret_checks.append(("f0 is the value of f at x0", any(E.of(t[2]).key("equality") == E.of(f0).key("equality") for t in at_x0)))
        # g0 is a subgradient at some new point y:  f0 + <g0,y> - fy - <g0,x0> <= eps
        ys = [t for t in target.list_of_points[before[id(target)][1]:] if t[1] is g0]
        ok = len(ys) == 1
        ret_checks.append(("g0 recorded as a subgradient at one fresh point y", ok and ys[0][0].get_is_leaf() and ys[0][2].get_is_leaf()))
        if ok:
            y, _, fy = ys[0]
            spec_cons = [(E.of(f0) + ip(P.of(g0), P.of(y)) - E.of(fy) - ip(P.of(g0), P0) - E.of(epsv), "inequality")]
        spec_samples = None
    n_checks = 0
    for name, ok in ret_checks:
        n_checks += 1
        if not ok:
            F("step_relation_broken:%s%s" % (step, (":" + opt) if opt else ""), "%s: documented relation '%s' does not hold" % (step, name))
    after = snapshot_functions()
    # samples: exactly the expected ones on the functions named by the spec, nothing on unrelated functions
    for fid, (fn, npts, ncons, npsd) in after.items():
        b = before.get(fid, (fn, 0, 0, 0))
        new_pts = fn.list_of_points[b[1]:]
        new_cons = fn.list_of_constraints[b[2]:]
        n_checks += 1
        is_target = fn is target
        related = fid in in_decomp or is_target or (spec_samples is not None and fid in spec_samples)
        if not related:
            if new_pts or new_cons:
                F("step_touches_unrelated_function:" + step, "%s recorded %d samples / %d constraints on a function that is not involved" % (step, len(new_pts), len(new_cons)))
            continue
        if spec_samples is not None and (is_target or fid in spec_samples) and not (fkind == "composite" and fid in in_decomp and not is_target):
            want = spec_samples.get(fid, [])
            if len(new_pts) != len(want) or any(a[0] is not b_[0] or a[1] is not b_[1] or a[2] is not b_[2] for a, b_ in zip(new_pts, want)):
                F("step_samples_differ_from_spec:%s%s" % (step, (":" + opt) if opt else ""),
                  "%s recorded %d sample(s) on %s, the documentation implies %d" % (step, len(new_pts), "f" if is_target else "the other function", len(want)))
        if is_target and spec_cons is not None:
            got = sorted(repr(E.of(c.expression).key(c.equality_or_inequality)) for c in new_cons)
            want = sorted(repr(e.key(s)) for e, s in spec_cons)
            # vacuous expected functionals (e.g. <x - x0, gx> with gamma = 0) are None on both sides
            if got != want:
                F("step_constraints_differ_from_spec:%s%s" % (step, (":" + opt) if opt else ""),
                  "%s recorded %d side constraint(s) on f that differ from the documented condition(s) (%d expected)" % (step, len(new_cons), len(spec_cons)))
        elif not is_target and new_cons:
            F("step_constraint_on_wrong_function:" + step, "%s recorded a side constraint on another function than f" % step)
        if npsd != b[3]:
            F("step_adds_lmi:" + step, "%s added an LMI" % step)
    if pep.list_of_constraints or pep.list_of_psd:
        F("step_adds_problem_level_constraint:" + step, "%s added a constraint on the problem" % step)
    # a sample recorded on a composite function IS the weighted sum of samples its terms hold at that point: what a step
    # records on f1 + c f2 (null-weight terms dropped) must be tied to f1 and f2, not left free
    if not target.get_is_leaf() and gamma != 0.0:
        # (gamma = 0 is left out: the output point then IS the start, differentiable terms that already hold a sample there
        #  need nothing, and the fresh gradient handed back is pinned to theirs by the class constraints, not by bookkeeping)
        n_checks += 1
        terms = [(fn_, float(w_)) for fn_, w_ in target.decomposition_dict.items() if w_ != 0]
        for (tx, tg, tv) in target.list_of_points[before[id(target)][1]:]:
            kx = pkey(P.of(tx))
            ok_ = False
            cands = []
            for fn_, w_ in terms:
                here = [t for t in fn_.list_of_points if pkey(P.of(t[0])) == kx]
                cands.append((w_, here))
            if all(h for _w, h in cands):
                import itertools
                for combo in itertools.islice(itertools.product(*[h for _w, h in cands]), 64):
                    gs = None
                    vs = None
                    for (w_, _h), t in zip(cands, combo):
                        gs = w_ * P.of(t[1]) if gs is None else gs + w_ * P.of(t[1])
                        vs = w_ * E.of(t[2]) if vs is None else vs + w_ * E.of(t[2])
                    if pkey(gs) == pkey(P.of(tg)) and vs.key("equality") == E.of(tv).key("equality"):
                        ok_ = True
                        break
            if not ok_:
                F("step_sample_on_composite_not_tied_to_its_terms:" + step,
                  "%s recorded a sample on a composite function that is not the weighted sum of samples of its terms at that point "
                  "(the step's output is then a free vector / value)" % step)
                break
    return "|".join(sig), findings, n_checks


# ---- concrete side ------------------------------------------------------------------------------------------
def concrete_case(rng):
    """Run the real operation on a real function and require everything recorded to hold."""
    from pv.checks.c03 import Session
    from pv.ref import members
    import PEPit.primitive_steps as ps
    from PEPit import Point
    from pv import canon
    step = rng.choice(["proximal", "inexact_gradient", "exact_linesearch", "inexact_proximal", "inexact_proximal",
                       "linear_optimization", "epsilon_subgradient", "bregman_gradient", "bregman_proximal"])
    findings = []
    sig = [step]
    d = rng.randint(1, 4)
    mu, L = rng.choice([0.1, 0.5, 1.0]), rng.choice([1.0, 2.0, 5.0])
    if mu >= L:
        mu = L / 2
    s = Session("SmoothStronglyConvexFunction", {"mu": mu, "L": L}, rng, dim=d)
    s.member = members._quad("SmoothStronglyConvexFunction", {"mu": mu, "L": L}, rng, d, mu, L, members._rand_vec(rng, d, 1.0))
    m = s.member
    Q, c = m.Q, m.c
    x0 = s.new_point(members._rand_vec(rng, d, 2.0))
    x0v = s.pvalue(x0)
    gamma = rng.choice([1.0, 0.3, 2.0, 0.05])
    tight = []       # (constraint, expected to be tight)

    def conj(v):     # f*(v) for f = 1/2 (x-c)'Q(x-c) + b0
        return 0.5 * float(v @ np.linalg.solve(Q, v)) + float(v @ c) - m.b0

    f = s.f
    nb = len(f.list_of_constraints)
    if step == "proximal":
        p = m.prox(x0v, gamma)
        x, gx, fx = ps.proximal_step(x0, f, gamma)
        s.bind_point(gx, (x0v - p) / gamma)
        s.evals[id(fx)] = m.value(p)
        if np.max(np.abs(s.pvalue(x) - p)) > 1e-9 * (1 + np.max(np.abs(p))):
            findings.append({"key": "concrete:proximal_point_wrong", "what": "x returned by proximal_step is not the proximal point under the natural binding"})
        if np.max(np.abs(m.grad(p) - s.pvalue(gx))) > 1e-8 * (1 + np.max(np.abs(m.grad(p)))):
            findings.append({"key": "concrete:harness", "what": "harness: bound gradient is not the gradient at the prox"})
    elif step == "inexact_gradient":
        notion = rng.choice(["absolute", "relative"])
        eps = rng.choice([0.0, 0.2, 1.0])
        sig.append(notion)
        x, dd, fx0 = ps.inexact_gradient_step(x0, f, gamma, eps, notion=notion)
        s._bind_new()
        g = m.grad(x0v)
        u = members._rand_vec(rng, d)
        u = u / max(np.linalg.norm(u), 1e-12) * rng.choice([1.0, 1.0, rng.random()])
        dv = g + eps * u * (np.linalg.norm(g) if notion == "relative" else 1.0)
        s.bind_point(dd, dv)
        tight.append((f.list_of_constraints[-1], abs(np.linalg.norm(u) - 1.0) < 1e-12))
    elif step == "exact_linesearch":
        g0 = f.gradient(x0)
        s._bind_new()
        extra = s.new_point(members._rand_vec(rng, d, 1.0))
        dirs = [g0, extra][:rng.randint(1, 2)]
        D = np.array([s.pvalue(p) for p in dirs]).T
        # minimise over x0 + span(D): Q-orthogonal projection
        # (on an orthonormal basis of the span: with nearly collinear directions the coordinates along D itself are of
        #  order 1e8 and the optimality conditions are then met to 1e-7 only - Appendix B27)
        Qb = np.linalg.qr(D)[0]
        A = Qb.T @ Q @ Qb
        t = np.linalg.lstsq(A, -Qb.T @ (Q @ (x0v - c)), rcond=None)[0]
        xv = x0v + Qb @ t
        x, gx, fx = ps.exact_linesearch_step(x0, f, list(dirs))
        s.bind_point(x, xv)
        s._bind_new()
        for cst in f.list_of_constraints[nb:]:
            tight.append((cst, True))
    elif step == "inexact_proximal":
        opt = rng.choice(["PD_gapI", "PD_gapII", "PD_gapIII"])
        sig.append(opt)
        x, gx, fx, w, v, fw, epsv = ps.inexact_proximal_step(x0, f, gamma, opt=opt)
        p = m.prox(x0v, gamma)
        xv = p + rng.choice([0.0, 0.1, 1.0]) * members._rand_vec(rng, d)
        if opt == "PD_gapI":
            wv = p + rng.choice([0.0, 0.2]) * members._rand_vec(rng, d)
            vv = m.grad(wv)
            s.bind_point(w, wv); s.bind_point(v, vv); s.evals[id(fw)] = m.value(wv)
            s.bind_point(x, xv); s.bind_point(gx, m.grad(xv)); s.evals[id(fx)] = m.value(xv)
        elif opt == "PD_gapII":
            # x = x0 - gamma gx + e : choose x, then e is determined
            gxv = m.grad(xv)
            ev_ = xv - x0v + gamma * gxv
            leaves_e = [k for k in canon.point_coeffs(x) if id(k) not in s.pvals and k is not gx]
            s.bind_point(gx, gxv)
            for k in leaves_e:
                s.bind_point(k, ev_)
            s.evals[id(fx)] = m.value(xv)
            vv, wv = gxv, xv
        else:
            s.bind_point(x, xv); s.bind_point(gx, m.grad(xv)); s.evals[id(fx)] = m.value(xv)
            vv = (x0v - xv) / gamma
            wv = c + np.linalg.solve(Q, vv)
            s.bind_point(w, wv); s.evals[id(fw)] = m.value(wv)
        xv_ = s.pvalue(x)
        vv_ = s.pvalue(v)
        # the documented primal-dual gap, from the conjugate (independent of w)
        phi_p = gamma * m.value(xv_) + 0.5 * float((xv_ - x0v) @ (xv_ - x0v))
        phi_d = -gamma * conj(vv_) - 0.5 * float((x0v - gamma * vv_) @ (x0v - gamma * vv_)) + 0.5 * float(x0v @ x0v)
        gap = phi_p - phi_d
        s.evals[id(epsv)] = gap
        tight.append((f.list_of_constraints[-1], True))
        if gap < -1e-8 * (1 + abs(phi_p)):
            findings.append({"key": "concrete:harness", "what": "harness: negative primal-dual gap"})
    elif step == "linear_optimization":
        r = rng.choice([1.0, 2.0])
        cen = members._rand_vec(rng, d, 1.0)
        ball = members.BallIndicator({"D": 2 * r}, cen, r)
        from PEPit.functions import ConvexIndicatorFunction
        ind = s.pep.declare_function(ConvexIndicatorFunction, D=2 * r)
        g0 = f.gradient(x0)
        s._bind_new()
        dirv = s.pvalue(g0)
        x, gx, fx = ps.linear_optimization_step(g0, ind)
        nd = np.linalg.norm(dirv)
        xv = cen - r * dirv / nd if nd > 1e-12 else cen
        s.bind_point(x, xv)
        s.evals[id(fx)] = 0.0
        # another feasible point of the set, to exercise the indicator's class constraints
        z = Point()
        s.bind_point(z, ball.domain_point(rng))
        gz, fz = ind.oracle(z)
        s.bind_point(gz, ball.grad(s.pvalue(z), rng))
        s.evals[id(fz)] = 0.0
        ind.set_class_constraints()
        for cst in ind.list_of_class_constraints:
            tight.append((cst, False))
    elif step == "epsilon_subgradient":
        x, g0, f0, epsv = ps.epsilon_subgradient_step(x0, f, gamma)
        ys = [t for t in f.list_of_points if t[1] is g0]
        yv = x0v + rng.choice([0.0, 0.3, 1.0]) * members._rand_vec(rng, d)
        g0v = m.grad(yv)
        s.bind_point(g0, g0v)
        if ys:
            s.bind_point(ys[0][0], yv)
            s.evals[id(ys[0][2])] = m.value(yv)
        s._bind_new()
        s.evals[id(epsv)] = m.value(x0v) + conj(g0v) - float(g0v @ x0v)     # the documented characterisation
        tight.append((f.list_of_constraints[-1], True))
    else:
        # Bregman steps with a quadratic kernel h = 1/2 x'Hx
        from PEPit.functions import SmoothStronglyConvexFunction
        H = members._sym_with_spectrum(rng, d, 0.5, 2.0)
        hm = members.Quadratic("SmoothStronglyConvexFunction", {"mu": 0.5, "L": 2.0}, H, np.zeros(d))
        h = s.pep.declare_function(SmoothStronglyConvexFunction, mu=0.5, L=2.0)
        sx0 = h.gradient(x0)
        s.bind_point(sx0, H @ x0v)
        for t in h.list_of_points:
            s.evals.setdefault(id(t[2]), hm.value(x0v))
        if step == "bregman_gradient":
            g0 = f.gradient(x0)
            s._bind_new()
            x, sx, hx = ps.bregman_gradient_step(g0, sx0, h, gamma)
            xv = np.linalg.solve(H, H @ x0v - gamma * m.grad(x0v))
            s.bind_point(x, xv)
            s.evals[id(hx)] = hm.value(xv)
        else:
            x, sx, hx, gx, fx = ps.bregman_proximal_step(sx0, h, f, gamma)
            # grad f(x) + (grad h(x) - sx0)/gamma = 0
            xv = np.linalg.solve(gamma * Q + H, gamma * Q @ c + H @ x0v)
            s.bind_point(x, xv)
            s.bind_point(gx, m.grad(xv))
            s.evals[id(fx)] = m.value(xv)
            s.evals[id(hx)] = hm.value(xv)
        if np.max(np.abs(s.pvalue(sx) - H @ s.pvalue(x))) > 1e-8 * (1 + np.max(np.abs(H @ s.pvalue(x)))):
            findings.append({"key": "concrete:%s_mirror_relation" % step, "what": "%s: the recorded mirror point is not grad h(x) for the real step" % step})
        h.set_class_constraints()
        for cst in h.list_of_class_constraints:
            tight.append((cst, False))
    # everything recorded must hold: side constraints + class constraints of f over all samples
    s.finish()
    for k, name, v, mag in s.evaluate():
        if v > 1e-7 * (1 + mag):
            findings.append({"key": "concrete:class_constraint_violated_after_%s" % step,
                             "what": "after a real %s the class constraint %s is violated by %.3e" % (step, name, v)})
            break
    for cst, is_tight in tight:
        G, F_, c0 = canon.expr_coeffs(cst.expression)
        val, mag = c0, abs(c0)
        try:
            for (p_, q_), wgt in G.items():
                t = wgt * float(np.dot(s.pvals[id(p_)], s.pvals[id(q_)]))
                val += t
                # size of what is summed, cancellation inside the inner product included (an orthogonality <g, d> = 0 is a sum of
                # products of the size of |g| |d|, and the real line search is exact only up to its own stopping rule)
                mag += abs(wgt) * float(np.dot(np.abs(s.pvals[id(p_)]), np.abs(s.pvals[id(q_)])))
            for e_, wgt in F_.items():
                t = wgt * s.evals[id(e_)]
                val += t; mag += abs(t)
        except KeyError:
            findings.append({"key": "concrete:harness", "what": "harness: unbound leaf in a recorded constraint of %s" % step})
            continue
        tol = 1e-7 * (1 + mag)
        bad = (abs(val) > tol) if (cst.equality_or_inequality == "equality" or is_tight) else (val > tol)
        if cst.equality_or_inequality == "inequality" and is_tight and val < -tol:
            findings.append({"key": "concrete:side_constraint_not_tight:%s" % "|".join(sig),
                             "what": "real %s: the recorded side constraint has slack %.3e where the documented quantity is attained exactly (weaker than documented)" % ("|".join(sig), -val)})
        elif bad:
            findings.append({"key": "concrete:side_constraint_violated:%s" % "|".join(sig),
                             "what": "real %s: the recorded side constraint '%s' evaluates to %.3e" % ("|".join(sig), cst.get_name(), val)})
    return "|".join(sig) + "|d%d" % d, findings


def run_shard(spec):
    t0 = time.time()
    counters = {"step_calls_judged": 0, "spec_checks": 0, "concrete_runs": 0}
    sigs, viol, samples, notes = set(), [], [], []
    seeds = [spec["replay"]["rng"]] if "replay" in spec else ["c08/%d/%d/%d" % (spec["seed"], spec["shard"], i) for i in range(spec["n"] * 8)]
    for sd in seeds:
        rng = random.Random(sd)
        mode = spec["replay"]["mode"] if "replay" in spec else ("symbolic" if rng.random() < 0.7 else "concrete")
        try:
            with contextlib.redirect_stdout(io.StringIO()):
                if mode == "symbolic":
                    sig, findings, n = symbolic_case(rng)
                    counters["spec_checks"] += n
                else:
                    sig, findings = concrete_case(rng)
                    counters["concrete_runs"] += 1
        except Exception as e:
            import traceback
            counters["case_exceptions:" + type(e).__name__] = counters.get("case_exceptions:" + type(e).__name__, 0) + 1
            if len(notes) < 6:
                notes.append("%s: %s" % (mode, traceback.format_exc()[-600:]))
            continue
        counters["step_calls_judged"] += 1
        sigs.add(mode + "|" + sig)
        harness = [f for f in findings if f["key"] == "concrete:harness"]
        if harness:
            counters["harness_inconsistencies"] = counters.get("harness_inconsistencies", 0) + 1
            notes.append(harness[0]["what"])
            continue
        if len(samples) < 3:
            samples.append({"rng": sd, "mode": mode, "case": sig, "findings": len(findings)})
        for f in findings:
            if len(viol) < 12 and not any(v["key"] == f["key"] for v in viol):
                viol.append(dict(f, rng=sd, mode=mode, case=sig))
    return {"counters": counters, "signatures": sorted(sigs), "samples": samples, "violations": viol,
            "observations": notes[:8], "extra": {"shard_wall_s": round(time.time() - t0, 1)}}
