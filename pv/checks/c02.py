"""C02 - primal output is a feasible, self-consistent worst-case instance."""
import os

from pv import oracles, driver
from pv.checks import _solvebase as sb

LEVEL = "exploration"
RULE = ("same generated programs/configurations as C01; after each finite optimal solve every leaf, every object held "
        "by the program and objects built after the solve are evaluated through the real accessors and compared with "
        "an independent evaluator; all sent constraints/LMIs are checked at the instance; distinct = distinct "
        "program/config signature")
ASSUMPTIONS = ["pv/canon.py denotation layer", "thresholds of DESIGN 2.8", "status 'optimal' means converged"]
DECIDING_COUNTER = "decided"
MIN_DECIDED = {"quick": 60, "thorough": 1000}


STANDINS = os.path.join(os.path.dirname(os.path.dirname(os.path.abspath(__file__))), "standins")


def plan(tier, seed):
    return sb.plan(tier, seed, per_shard_quick=24, per_shard_thorough=1200, extra={"extra_path": [STANDINS]})


def config_fn(rng):
    cfg = driver.random_config(rng)
    if rng.random() < 0.2:
        cfg["wrapper"] = "mosek"       # the MOSEK back-end through the stand-in (DESIGN 2.6)
        cfg["solver"] = "CLARABEL"
    if rng.random() < 0.08:
        cfg["verbose"] = 2
    return cfg


def make_posthoc(machine, rng):
    from PEPit.point import Point
    from PEPit.expression import Expression
    pts = [v for v in machine.regs.values() if isinstance(v, Point)]
    exs = [v for v in machine.regs.values() if isinstance(v, Expression)]

    def build():
        out = []
        for _ in range(6):
            if len(pts) >= 2:
                p, q = rng.choice(pts), rng.choice(pts)
                a, b = rng.choice([1, -1, 0.5, 2.0]), rng.choice([1.0, -0.25, 3])
                r = a * p + q * b
                out.append(r)
                out.append(p * q)
                out.append((p - q) ** 2)
                out.append(r * p - 2 * (q * q) + 1.5)
            if exs:
                e = rng.choice(exs)
                out.append(2 * e - 1)
                if pts:
                    out.append(e / 2 + rng.choice(pts) ** 2)
        # constraints written after the solve (none of them was sent: they are clearly off at the instance, on either side):
        # "the value of a constraint" is the value of the expression it compares with zero, whatever its sense
        base = [o for o in out if isinstance(o, Expression)]
        for _ in range(4):
            if base:
                e = rng.choice(base)
                c = rng.choice([2.0, -2.0, 0.5, 7.0])
                out.append(rng.choice([lambda: e == c, lambda: e <= c, lambda: e >= c, lambda: c == e])())
        return out
    return build


def judge(acc, case, prog, cfg, rng):
    rec = case.rec
    held = driver.held_objects(case.machine)
    findings, info = oracles.primal_check(rec, case.outcome[1], cfg.get("mode", "dual"), held_objects=held,
                                          posthoc=make_posthoc(case.machine, rng))
    acc.count("objects_evaluated", info.get("n_objects", 0))
    acc.count("sent_checked", len(rec["sent"]))
    # primal never exceeds dual by more than tolerance
    cf, cinfo = oracles.certificate_check(rec, case.outcome[1], cfg.get("mode", "dual"))
    # the primal optimum is the value of the FIRST solver run; what a dimension-reduction run returns afterwards is only
    # promised to lie in [optimum - tol, optimum] (C14 judges that band, with the scale of the heuristic solution)
    prim = rec["inner"][0]["value"]
    tau = cinfo.get("tau_identity")
    cert_ok = not any(f["grade"] == "violated" for f in cf)
    if prim is not None and tau is not None and cert_ok:
        held_t, viol = oracles.TOL[info["solver"]]
        sc = cinfo["scale"]
        acc.count("primal_dual_compared")
        if prim - tau > viol * sc:
            findings.append({"key": "primal_exceeds_dual", "what": "primal %.9g > dual %.9g" % (prim, tau),
                             "defect": prim - tau, "scale": sc, "grade": "violated"})
    # ... nor the bound the library itself returns in dual mode (whatever its own reconstruction did)
    ret_ = case.outcome[1]
    if prim is not None and ret_ is not None and cfg.get("mode", "dual") == "dual" and not any(f["key"] in oracles.C01_KNOWN_KEYS for f in cf):
        held_t, viol = oracles.TOL[info["solver"]]
        sc = cinfo["scale"]
        acc.count("primal_vs_returned_dual_compared")
        if prim - ret_ > viol * sc:
            findings.append({"key": "primal_exceeds_returned_dual_bound", "what": "primal value %.9g of the solver > dual bound %.9g returned by solve()" % (prim, ret_),
                             "defect": prim - ret_, "scale": sc, "grade": "violated"})
    # the instance must be the one of the LATEST solve when the same object is solved again after an edit
    if not any(f["grade"] == "violated" for f in findings) and rng.random() < 0.3:
        try:
            r2 = sb.resolve_after_edit(case, cfg, rng)
        except Exception:
            r2 = None
        if r2 is not None:
            rec2, out2 = r2
            acc.count("resolves_judged")
            f2, info2 = oracles.primal_check(rec2, out2[1], cfg.get("mode", "dual"), held_objects=driver.held_objects(case.machine),
                                             posthoc=make_posthoc(case.machine, rng))
            for f in f2:
                findings.append(dict(f, key="after_resolve:" + f["key"], what="second solve of the same object: " + f["what"]))
    return findings


def judge_record(acc, rec, value, mode):
    findings, info = oracles.primal_check(rec, value, mode)
    acc.count("sent_checked", len(rec["sent"]))
    return findings


def run_shard(spec):
    res = sb.run_generic(spec, judge, config_fn=config_fn)
    if "replay" not in spec:
        acc = sb.Acc()
        sb.run_examples_under_monitor(spec, acc, judge_record, draws=0 if spec.get("tier") == "quick" else 6)
        r2 = acc.result()
        for k, v in r2["counters"].items():
            res["counters"][k] = res["counters"].get(k, 0) + v
        res["signatures"] = sorted(set(res["signatures"]) | set(r2["signatures"]))
        res["violations"] += r2["violations"]
        res["observations"] += r2["observations"]
    return res
