"""C15 - block partitions behave as orthogonal coordinate-block projections."""
import contextlib
import io
import random
import time

import gc
import weakref

import numpy as np

LEVEL = "exploration"
RULE = ("random models with 1-3 partitions of 1-4 blocks, 0-6 decomposed points (leaves and combinations, decomposed "
        "in random order, blocks requested repeatedly and out of order, some points never decomposed, points that "
        "depend on blocks of other points); monitor on BlockPartition.get_block checks sum-back, identity of repeated "
        "requests, one-block identity; the partition constraints that cross the wrapper boundary at the first solve are "
        "compared (canonical set equality both ways) with the reference set {<x_i^(k), x_j^(l)> = 0, k != l}; leaves "
        "are bound to real coordinate projections of random vectors in R^n and every sent partition constraint is "
        "evaluated. distinct = distinct (d per partition, #decomposed, #combination points, request order pattern)")
ASSUMPTIONS = ["pv/canon.py; reference bilinear expansion written independently of PEPit.tools"]
DECIDING_COUNTER = "models"
MIN_DECIDED = {"quick": 300, "thorough": 10000}
REQUIRED_COUNTERS = {"quick": {"get_block_calls_checked": 2000, "partition_constraints_compared": 2000},
                     "thorough": {"get_block_calls_checked": 50000, "partition_constraints_compared": 50000}}
NSHARDS = 16


def plan(tier, seed):
    n = 80 if tier == "quick" else 2000
    return [{"name": "s%d" % i, "seed": seed, "shard": i, "n": n} for i in range(NSHARDS)]


class BlockMonitor(object):
    def __init__(self):
        self.first = {}
        self.calls = 0
        self.viol = []
        self.alive = {}
        self.records = []      # (partition, weakref to the decomposed point) in order of first decomposition

    def install(self):
        from PEPit.block_partition import BlockPartition
        from pv import canon
        mon = self
        orig = BlockPartition.get_block
        if getattr(orig, "_pv", False):
            return self

        def get_block(part, point, block_number):
            res = orig(part, point, block_number)
            mon.calls += 1
            key = (id(part), id(point), block_number)
            ref = mon.alive.get((id(part), id(point)))
            if ref is None or ref() is not point:
                # first time this (partition, point) is seen (or a new object reuses the address of a dead one)
                mon.alive[(id(part), id(point))] = weakref.ref(point)
                for k_ in list(mon.first):
                    if k_[0] == id(part) and k_[1] == id(point):
                        del mon.first[k_]
                mon.records.append((part, weakref.ref(point)))
            if key in mon.first:
                if mon.first[key] is not res:
                    mon.v("repeated_request_returns_other_object", "asking again for block %d returned another object" % block_number)
            else:
                mon.first[key] = res
            blocks = [orig(part, point, k_) for k_ in range(part.d)]     # public API only
            if blocks[block_number] is not res:
                mon.v("returned_block_not_recorded", "asking for all blocks gives another object for block %d" % block_number)
            tot = {}
            for b in blocks:
                for k, c in canon.point_coeffs(b).items():
                    tot[id(k)] = tot.get(id(k), 0.0) + c
            want = {id(k): c for k, c in canon.point_coeffs(point).items()}
            for k in set(tot) | set(want):
                if abs(tot.get(k, 0.0) - want.get(k, 0.0)) > 1e-12 * (1 + abs(want.get(k, 0.0))):
                    mon.v("blocks_do_not_sum_to_point", "sum of the %d blocks differs from the point" % part.d)
                    break
            if part.d == 1:
                b0 = {id(k): c for k, c in canon.point_coeffs(blocks[0]).items() if c != 0}
                w0 = {k: c for k, c in want.items() if c != 0}
                if b0 != w0:
                    mon.v("one_block_partition_not_identity", "block 0 of a one-block partition differs from the point")
            return res

        get_block._pv = True
        BlockPartition.get_block = get_block
        return self

    def v(self, key, what):
        if len(self.viol) < 8:
            self.viol.append({"key": key, "what": what})


def bilinear_key(p, q, label):
    """canonical key of the functional <p, q> == 0 from point coefficient dicts (own expansion)."""
    from pv import canon
    terms = {}
    for a, ca in canon.point_coeffs(p).items():
        for b, cb in canon.point_coeffs(q).items():
            k = ("G",) + tuple(sorted((label(a), label(b)), key=repr))
            terms[k] = terms.get(k, 0.0) + ca * cb
    mx = max([abs(v) for v in terms.values()] or [0.0])
    terms = {k: v for k, v in terms.items() if abs(v) > 1e-11 * max(mx, 1e-300)}
    if not terms:
        return None
    items = sorted(terms.items(), key=lambda kv: repr(kv[0]))
    scale = max(abs(v) for _, v in items)
    if items[0][1] < 0:
        scale = -scale
    return ("equality",) + tuple((k, float("%.9e" % (v / scale))) for k, v in items)


def build_model(rng):
    """Returns pep, partitions, log of decompositions [(partition, point)], description."""
    from PEPit import PEP, Point
    from PEPit.functions import SmoothConvexFunction, BlockSmoothConvexFunction
    pep = PEP()
    nparts = rng.choice([1, 1, 1, 2, 3])
    ds = [rng.choice([1, 2, 2, 3, 3, 4]) for _ in range(nparts)]
    from PEPit.block_partition import BlockPartition as BP
    via_ctor = [rng.random() < 0.2 for _ in ds]
    parts = [BP(d_) if c_ else pep.declare_block_partition(d=d_) for d_, c_ in zip(ds, via_ctor)]   # both documented ways
    # a problem may be about points and partitions only (no function declared at all)
    no_function = rng.random() < 0.12
    f = None if no_function else pep.declare_function(SmoothConvexFunction, L=1.0)
    pts = [pep.set_initial_point() for _ in range(rng.randint(1, 3))]
    if f is not None and rng.random() < 0.5:
        pts.append(f.gradient(pts[0]))
    desc = {"d": ds, "requests": [], "n_comb": 0, "via_constructor": via_ctor, "temporaries": 0}
    decomposed = []
    nreq = rng.randint(0, 14)
    for _ in range(nreq):
        r = rng.random()
        if r < 0.25 and len(pts) >= 2:
            k = rng.randint(2, 3)
            p = None
            for _ in range(k):
                t = rng.choice([1, -1, 0.5, 2.0]) * rng.choice(pts)
                p = t if p is None else p + t
            pts.append(p)
            desc["n_comb"] += 1
            if rng.random() < 0.3:
                # points written with an explicit null coefficient: a pure scaling by 0, the documented constructor with a
                # zero weight (sums are pruned by the operators, these are not)
                leafs_ = [q_ for q_ in pts if q_.get_is_leaf()]
                a_, b_ = rng.choice(leafs_), rng.choice(leafs_)
                pts.append(rng.choice([lambda: 0 * rng.choice(pts),
                                       lambda: Point(is_leaf=False, decomposition_dict={a_: 1.0, b_: 0.0} if a_ is not b_ else {a_: 1.0}),
                                       lambda: (0 * a_) * 2]) ())
                desc["null_coefficient_points"] = desc.get("null_coefficient_points", 0) + 1
        elif r < 0.4 and len(pts) >= 2:
            # blocks of temporary combinations the caller keeps no reference to
            part = rng.choice(parts)
            for t in (1.0, 2.0, 3.0):
                part.get_block(rng.choice(pts) + t * rng.choice(pts), rng.randrange(part.d))
                desc["temporaries"] += 1
            gc.collect()
        else:
            part = rng.choice(parts)
            x = rng.choice(pts)
            k = rng.randrange(part.d)
            b = part.get_block(x, k)
            desc["requests"].append((parts.index(part), k))
            if not any(a is part and y is x for a, y in decomposed):
                decomposed.append((part, x))
            if rng.random() < 0.4:
                pts.append(b)       # points that depend on blocks of other points
    bs = None
    if f is not None and rng.random() < 0.35:
        part = rng.choice(parts)
        bs = pep.declare_function(BlockSmoothConvexFunction, partition=part,
                                  L=[rng.choice([1.0, 2.0, 0.5]) for _ in range(part.d)])
        for x in rng.sample(pts, min(len(pts), rng.randint(1, 2))):
            bs.gradient(x)
        desc["block_smooth"] = True
    xs = f.stationary_point() if f is not None else pep.set_initial_point()
    if f is None:
        desc["no_function"] = True
        for p_ in pts[1:4]:
            pep.add_constraint((p_ - xs) ** 2 <= 4)      # keeps the metric bounded without any class constraint
    pep.set_initial_condition((pts[0] - xs) ** 2 <= 1)
    pep.set_performance_metric((pts[-1] - xs) ** 2)
    return pep, parts, desc, pts


def run_shard(spec):
    from pv import driver, canon
    from PEPit.point import Point
    from PEPit.block_partition import BlockPartition
    t0 = time.time()
    counters = {"models": 0, "get_block_calls_checked": 0, "partition_constraints_compared": 0,
                "concrete_evaluations": 0, "one_block_partitions": 0}
    sigs, viol, samples = set(), [], []
    mon = BlockMonitor().install()
    bd = driver.boundary()
    bd.skip_solve = True
    seeds = [spec["replay"]["rng"]] if "replay" in spec else \
        ["c15/%d/%d/%d" % (spec["seed"], spec["shard"], i) for i in range(spec["n"])]
    for sd in seeds:
        rng = random.Random(sd)
        calls0 = mon.calls
        nv0 = len(mon.viol)
        try:
            pep, parts, desc, pts = build_model(rng)
            n0 = len(bd.records)
            with contextlib.redirect_stdout(io.StringIO()):
                pep.solve(verbose=0)
            rec = bd.records[n0]
            if rng.random() < 0.4:
                # decompose more points, then solve the same object again: the relations of THAT solve are judged
                for _ in range(rng.randint(1, 3)):
                    part = rng.choice(parts)
                    x = rng.choice(pts) if rng.random() < 0.5 else pep.set_initial_point()
                    pts.append(x)
                    part.get_block(x, rng.randrange(part.d))
                n0 = len(bd.records)
                with contextlib.redirect_stdout(io.StringIO()):
                    pep.solve(verbose=0)
                rec = bd.records[n0]
                desc["second_solve"] = True
                counters["second_solves"] = counters.get("second_solves", 0) + 1
        except Exception as e:
            counters["exceptions:" + type(e).__name__] = counters.get("exceptions:" + type(e).__name__, 0) + 1
            if len(samples) < 3:
                import traceback
                samples.append({"exception": traceback.format_exc()[-600:], "rng": sd})
            continue
        counters["models"] += 1
        DECOMP = {}
        local_viol = list(mon.viol[nv0:])
        # every declaration is a NEW partition: distinct objects, all registered, with the declared number of blocks
        if len({id(p) for p in parts}) != len(parts) or len(BlockPartition.list_of_partitions) < len(parts) or \
                any(p.get_nb_blocks() != d_ for p, d_ in zip(parts, desc["d"])):
            local_viol.append({"key": "declared_partitions_not_distinct",
                               "what": "%d partitions declared (block numbers %s): %d distinct objects, %d registered"
                                       % (len(parts), desc["d"], len({id(p) for p in parts}), len(BlockPartition.list_of_partitions))})
        label, idx = canon.sym_label_factory()
        sent_ids = {id(o) for k, o, t in rec["sent"] if k == "c"}
        for pi, part in enumerate(list(parts) + [p_ for p_ in BlockPartition.list_of_partitions if not any(p_ is q_ for q_ in parts)]):
            got = {}
            for c in part.list_of_constraints:
                if id(c) not in sent_ids:
                    local_viol.append({"key": "partition_constraint_not_sent", "what": "a partition constraint did not reach the solver"})
                if c.equality_or_inequality != "equality":
                    local_viol.append({"key": "partition_constraint_not_equality", "what": "partition constraint is an inequality"})
                k = canon.functional_key(c.expression, "equality", label)
                if k is not None:
                    got[k] = got.get(k, 0) + 1
            ref = set()
            try:
                items = [(x_, b_) for x_, b_ in part.blocks_dict.items() if isinstance(x_, Point)]
                if len(items) != len(part.blocks_dict):
                    raise TypeError
            except Exception:
                # another internal representation: rebuild from the monitor's own record through the public API
                items = []
                for (p_, wr) in mon.records:
                    x_ = wr()
                    if p_ is part and x_ is not None and not any(x_ is y_ for y_, _b in items):
                        items.append((x_, [part.get_block(x_, k_) for k_ in range(part.d)]))
            for xi, bi in items:
                for xj, bj in items:
                    for k in range(part.d):
                        for l in range(part.d):
                            if k != l:
                                key = bilinear_key(bi[k], bj[l], label)
                                if key is not None:
                                    ref.add(key)
            DECOMP[id(part)] = items
            counters["partition_constraints_compared"] += len(got) + len(ref)
            if part.d == 1:
                counters["one_block_partitions"] += 1
                if part.list_of_constraints:
                    local_viol.append({"key": "one_block_partition_has_constraints",
                                       "what": "a one-block partition imposes %d constraints" % len(part.list_of_constraints)})
            missing = ref - set(got)
            extra = set(got) - ref
            if missing:
                local_viol.append({"key": "orthogonality_relation_missing",
                                   "what": "%d of %d reference orthogonality relations are not imposed (d=%d, %d decomposed points)"
                                           % (len(missing), len(ref), part.d, len(items))})
            if extra:
                local_viol.append({"key": "extra_partition_relation",
                                   "what": "%d imposed partition relations are not cross-block orthogonality relations" % len(extra)})
            dup = [k for k, n in got.items() if n > 2]
            if dup:
                local_viol.append({"key": "partition_relation_duplicated",
                                   "what": "a partition relation is imposed %d times at one solve" % max(got.values())})
        # concrete side: real coordinate projections
        n = rng.randint(4, 9)
        coord = {}
        for part in BlockPartition.list_of_partitions:
            assign = [rng.randrange(part.d) for _ in range(n)]
            for k in range(part.d):          # make every block non-empty when possible
                if k < n:
                    assign[k] = k
            coord[id(part)] = np.array(assign)
        block_leaf = {}
        for part in BlockPartition.list_of_partitions:
            for x, blocks in DECOMP.get(id(part), []):
                for k, b in enumerate(blocks[:-1]):
                    block_leaf[id(b)] = (part, x, k)
        vals = {}
        for leaf in Point.list_of_leaf_points:
            if id(leaf) in block_leaf:
                part, x, k = block_leaf[id(leaf)]
                try:
                    xv = canon.point_value_assign(x, vals, n)
                except KeyError:
                    local_viol.append({"key": "block_created_before_its_point", "what": "a block leaf precedes a leaf of its point"})
                    xv = np.zeros(n)
                vals[id(leaf)] = xv * (coord[id(part)] == k)
            else:
                vals[id(leaf)] = np.array([rng.uniform(-1, 1) for _ in range(n)])
        for part in BlockPartition.list_of_partitions:
            for x, blocks in DECOMP.get(id(part), []):
                xv = canon.point_value_assign(x, vals, n)
                for k, b in enumerate(blocks):
                    counters["concrete_evaluations"] += 1
                    bv = canon.point_value_assign(b, vals, n)
                    if np.max(np.abs(bv - xv * (coord[id(part)] == k))) > 1e-9:
                        local_viol.append({"key": "block_is_not_coordinate_projection",
                                           "what": "block %d of a point is not its coordinate projection under the natural binding" % k})
            for c in part.list_of_constraints:
                counters["concrete_evaluations"] += 1
                v = canon.expr_value_assign(c.expression, vals, {})
                if abs(v) > 1e-8:
                    local_viol.append({"key": "partition_constraint_fails_on_real_projection",
                                       "what": "a sent partition constraint evaluates to %.3e on real coordinate projections" % v})
                    break
        counters["get_block_calls_checked"] = mon.calls
        sigs.add("%s|%d|%d|%s" % (desc["d"], sum(len(v_) for v_ in DECOMP.values()),
                                  desc["n_comb"], "".join(str(k) for _, k in desc["requests"][:6])))
        if len(samples) < 2:
            samples.append({"rng": sd, "desc": desc,
                            "n_partition_constraints": [len(p.list_of_constraints) for p in BlockPartition.list_of_partitions]})
        seen = set()
        for v in local_viol:
            if v["key"] in seen:
                continue
            seen.add(v["key"])
            v = dict(v)
            v.update({"rng": sd, "desc": desc})
            if len(viol) < 10:
                viol.append(v)
    # "block-smooth functions are constrained block by block": a real block-smooth convex function (quadratic with the
    # declared block constants), real coordinate-block projections, points that share labels: every generated constraint holds
    mon.uninstall() if hasattr(mon, "uninstall") else None
    from pv.checks import c03
    for i in range(spec["n"] // 2 if "replay" not in spec else 0):
        sd = "c15bs/%d/%d/%d" % (spec["seed"], spec["shard"], i)
        rng = random.Random(sd)
        d = rng.choice([2, 2, 3])
        params = {"L": [rng.choice([1.0, 2.0, 0.5, 10.0]) for _ in range(d)]}
        if rng.random() < 0.3:
            params = {"L": [rng.choice([1, 2, 4, 10]) for _ in range(d)]}          # integers, as in the class docstring's example
        try:
            with contextlib.redirect_stdout(io.StringIO()):
                s_ = c03.Session("BlockSmoothConvexFunction", params, rng)
                kinds = s_.run_events(rng.randint(2, 6))
                s_.finish()
                res = s_.evaluate()
        except Exception as e:
            counters["block_smooth_session_exceptions:" + type(e).__name__] = counters.get("block_smooth_session_exceptions:" + type(e).__name__, 0) + 1
            continue
        counters["block_smooth_sessions"] = counters.get("block_smooth_sessions", 0) + 1
        for k_, name_, v_, mag_ in res:
            counters["block_smooth_constraints_on_real_member"] = counters.get("block_smooth_constraints_on_real_member", 0) + 1
            if v_ > 1e-8 * (1.0 + mag_):
                key = "block_smooth_constraint_fails_on_real_block_smooth_function"
                if not any(x["key"] == key for x in viol):
                    viol.append({"key": key, "rng": sd, "desc": {"params": params, "events": kinds},
                                 "what": "a real block-smooth convex quadratic with real coordinate-block projections violates the "
                                         "generated constraint '%s' by %.3e (terms of size %.3g); events %s" % (name_, v_, mag_, kinds)})
                break
    # ... and block by block for real: a convex quadratic that is TOO STEEP on one block only (lambda_max(Q_kk) = 1.7 L_k,
    # the other blocks within their constants), sampled at two points that differ along that block: its samples are not
    # those of any function of the class, some generated constraint has to reject them
    for i in range(spec["n"] // 4 if "replay" not in spec else 0):
        sd = "c15bsrej/%d/%d/%d" % (spec["seed"], spec["shard"], i)
        rng = random.Random(sd)
        d = rng.choice([2, 2, 3])
        Ls = [rng.choice([1.0, 2.0, 0.5, 10.0]) for _ in range(d)]
        if rng.random() < 0.4:
            Ls = [rng.choice([1, 2, 4, 10]) for _ in range(d)]
        params = {"L": Ls}
        try:
            with contextlib.redirect_stdout(io.StringIO()):
                s_ = c03.Session("BlockSmoothConvexFunction", params, rng)
                k = rng.randrange(d)
                idx = [np.array(b, dtype=int) for b in s_.blocks]
                # block-diagonal member: every block at half its constant, block k at 1.7 times its constant
                Q = np.zeros((s_.dim, s_.dim))
                for j, b in enumerate(idx):
                    Bm = np.array([[rng.gauss(0, 1) for _ in b] for _ in b])
                    Qb = Bm.T @ Bm + 1e-3 * np.eye(len(b))
                    Qb *= (1.7 if j == k else 0.5) * float(Ls[j]) / np.linalg.eigvalsh(Qb).max()
                    Q[np.ix_(b, b)] = Qb
                s_.member.Q = Q
                w, V = np.linalg.eigh(Q[np.ix_(idx[k], idx[k])])
                delta = np.zeros(s_.dim)
                delta[idx[k]] = V[:, -1] * rng.choice([1.0, 0.3, 3.0])
                xa = s_.member.domain_point(rng, 1.0)
                pa, pb = s_.new_point(xa), s_.new_point(xa + delta)
                s_.oracle(pa), s_.oracle(pb)
                for _ in range(rng.randint(0, 2)):
                    s_.oracle(s_.new_point(s_.member.domain_point(rng, 1.0)))
                s_.finish()
                res = s_.evaluate()
        except Exception as e:
            counters["block_smooth_rejection_exceptions:" + type(e).__name__] = counters.get("block_smooth_rejection_exceptions:" + type(e).__name__, 0) + 1
            continue
        counters["block_smooth_non_members_presented"] = counters.get("block_smooth_non_members_presented", 0) + 1
        # by hand: the documented condition for the pair (b, a) on block k fails by 0.35 lambda ||delta||^2, lambda = 1.7 L_k
        expected = 0.35 * 1.7 * float(Ls[k]) * float(delta @ delta)
        worst = max([v_ for k_, name_, v_, mag_ in res] + [0.0])
        if worst >= 0.5 * expected:
            counters["block_smooth_non_members_rejected"] = counters.get("block_smooth_non_members_rejected", 0) + 1
        else:
            key = "function_too_steep_on_one_block_accepted"
            if not any(x["key"] == key for x in viol):
                viol.append({"key": key, "rng": sd, "desc": {"params": params, "block": k},
                             "what": "a convex quadratic with lambda_max = 1.7 L_k on block %d (L = %r), sampled at two points that differ "
                                     "along that block, satisfies every generated constraint (largest violation %.3e, the documented "
                                     "condition fails by %.3e): the function is not constrained on that block" % (k, Ls, worst, expected)})
    return {"counters": counters, "signatures": sorted(sigs), "samples": samples, "violations": viol,
            "extra": {"shard_wall_s": round(time.time() - t0, 1)}}
