"""C05 - the problem handed to the solver is exactly the declared model (translation validation)."""
import contextlib
import io
import os
import random
import time

import numpy as np

from pv.checks import _solvebase as sb

LEVEL = "translation_validation"
RULE = ("(1) generated programs are built and PEP.solve is run with the solver call stubbed out at the wrapper boundary; the "
        "multiset of objects that crossed the boundary is compared with the client-side declaration log (constraints / "
        "LMIs / metrics declared on the problem, on leaf and composite functions, through steps) plus the class "
        "constraints held by every leaf function and the partition constraints: each exactly as often as declared, "
        "declared sense, nothing else; (2) every emitted cvxpy constraint / objective is evaluated at random (G=P'P, F, "
        "M) assigned to the cvxpy variables and compared with the independent evaluator; the MOSEK Task (stand-in) is "
        "reconstructed from its recorded calls and compared row by row; (3) expression_to_matrices / "
        "expression_to_sparse_matrices are called on random expression shapes (mirrored and repeated keys, diagonal, "
        "constants, zero coefficients, leaves) and compared with the independent coefficient walk and with each "
        "other. distinct = distinct program signature x back-end, + distinct expression-shape buckets")
ASSUMPTIONS = ["pv/canon.py denotation layer", "MOSEK Task observed through pv/standins/mosek",
               "random-point evaluation of affine functionals (identity testing), relative 1e-9"]
DECIDING_COUNTER = "programs"
MIN_DECIDED = {"quick": 200, "thorough": 5000}
REQUIRED_COUNTERS = {"quick": {"cvxpy_constraints_evaluated": 3000, "task_rows_validated": 2000, "translator_calls": 3000},
                     "thorough": {"cvxpy_constraints_evaluated": 100000, "task_rows_validated": 60000, "translator_calls": 100000}}
STANDINS = os.path.join(os.path.dirname(os.path.dirname(os.path.abspath(__file__))), "standins")


def plan(tier, seed):
    return sb.plan(tier, seed, per_shard_quick=40, per_shard_thorough=3000, extra={"extra_path": [STANDINS]})


# ---- (2) denotation of the cvxpy problem ---------------------------------------------------------------------
def validate_cvxpy(wrapper, rec, rng):
    import cvxpy as cp
    from pv import canon
    idx = canon.Index()
    findings = []
    n_eval = 0

    def F(key, what):
        if len(findings) < 10:
            findings.append({"key": key, "what": what})

    n, m = idx.n, idx.m
    if wrapper.G.shape != (n, n) or wrapper.F.shape != (m,):
        F("cvxpy_variable_shapes", "G %r F %r for %d points %d expressions" % (wrapper.G.shape, wrapper.F.shape, n, m))
        return findings, 0
    P = np.array([[rng.uniform(-1, 1) for _ in range(n)] for _ in range(max(n, 1))])
    Gv = P.T @ P if n else np.zeros((0, 0))
    Fv = np.array([rng.uniform(-1, 1) for _ in range(m)])
    wrapper.G.value = Gv
    wrapper.F.value = Fv
    cons = list(wrapper._list_of_solver_constraints)
    if wrapper.prob is None or len(wrapper.prob.constraints) != len(cons) or \
            any(a is not b for a, b in zip(wrapper.prob.constraints, cons)):
        F("cvxpy_problem_constraints_differ", "cvxpy Problem does not hold exactly the emitted constraint list")
    def psd_var(c):
        """the single variable X of a constraint 'X >> 0' (checked numerically after assigning X a value)"""
        vs = c.variables()
        return vs[0] if len(vs) == 1 else None

    if not cons or type(cons[0]).__name__ != "PSD" or psd_var(cons[0]) is not wrapper.G or \
            not np.allclose(np.asarray(cons[0].args[0].value), Gv):
        F("cvxpy_gram_not_psd_constrained", "first emitted constraint is not G >> 0")
    ptr = 1
    sent = [(k, o) for (k, o, t) in rec["sent"] if t]
    for kind, o in sent:
        if kind == "c":
            if ptr >= len(cons):
                F("cvxpy_constraint_missing", "a sent constraint has no emitted cvxpy constraint")
                break
            c = cons[ptr]
            ptr += 1
            tn = type(c).__name__
            want_type = "Inequality" if o.equality_or_inequality == "inequality" else "Equality"
            if tn != want_type:
                F("cvxpy_wrong_sense", "constraint of sense %s emitted as cvxpy %s" % (o.equality_or_inequality, tn))
                continue
            lhs, rhs = c.args[0].value, c.args[1].value
            got = float(np.asarray(lhs).ravel()[0]) - float(np.asarray(rhs).ravel()[0])
            want = canon.expr_value(o.expression, Gv, Fv, idx)
            n_eval += 1
            # relative to the size of the constraint's own terms (a constraint written in units of 1e-9 is still a constraint)
            mag = sum(abs(float(v)) for v in o.expression.decomposition_dict.values()) if not o.expression.get_is_leaf() else 1.0
            if abs(got - want) > 1e-9 * mag * (1 + n) * (1.0 + float(np.max(np.abs(Gv), initial=0.0)) + float(np.max(np.abs(Fv), initial=0.0))) + 1e-300:
                F("cvxpy_constraint_wrong_denotation", "emitted cvxpy constraint evaluates to %.12g, symbolic expression to %.12g" % (got, want))
        else:
            size = o.shape[0]
            if "seen_aux" not in locals():
                seen_aux = [getattr(wrapper, "G", None)]
            if ptr >= len(cons) or type(cons[ptr]).__name__ != "PSD":
                F("cvxpy_lmi_missing", "LMI not emitted as a PSD constraint")
                break
            M = psd_var(cons[ptr])
            psd_c = cons[ptr]
            ptr += 1
            if M is None or M.shape != (size, size):
                F("cvxpy_lmi_shape", "auxiliary matrix of shape %r for an LMI of size %d" % (None if M is None else M.shape, size))
                continue
            # every LMI has its OWN auxiliary matrix (two LMIs on one matrix are tied entry by entry: a constraint nobody declared)
            if any(M is other for other in seen_aux):
                F("cvxpy_lmi_auxiliary_matrix_shared", "two LMIs are coupled with the same auxiliary matrix variable")
            seen_aux.append(M)
            if size == 0:
                continue     # empty LMI (a linear-operator class without samples): nothing to couple
            A = np.array([[rng.uniform(-1, 1) for _ in range(size)] for _ in range(size)])
            Mv = (A + A.T) / 2
            M.value = Mv
            if not np.allclose(np.asarray(psd_c.args[0].value), Mv):
                F("cvxpy_lmi_not_psd_of_auxiliary", "PSD constraint of an LMI is not 'M >> 0'")
            emitted = {}       # unordered index pair of M -> list of right-hand-side values tied to that entry of M
            for _ in range(size * size):
                if ptr >= len(cons) or type(cons[ptr]).__name__ != "Equality":
                    F("cvxpy_lmi_entry_missing", "fewer than n^2 entry equalities for an LMI of size %d" % size)
                    break
                c = cons[ptr]
                ptr += 1
                lv = float(np.asarray(c.args[0].value).ravel()[0])
                rv = float(np.asarray(c.args[1].value).ravel()[0])
                hits = [(i, j) for i in range(size) for j in range(i, size) if abs(Mv[i, j] - lv) < 1e-12]
                n_eval += 1
                if len(hits) != 1:
                    F("cvxpy_lmi_entry_wrong_denotation", "the left side of an entry equality is not one entry of the auxiliary matrix")
                    continue
                emitted.setdefault(hits[0], []).append(rv)
            # EVERY written entry (i,j) - both orientations when they differ as written - must be tied to M[i,j]
            for i in range(size):
                for j in range(size):
                    want = canon.expr_value(o[i, j], Gv, Fv, idx)
                    got = emitted.get((min(i, j), max(i, j)), [])
                    if not any(abs(rv - want) <= 1e-9 * (1 + abs(want)) * (1 + n) for rv in got):
                        F("cvxpy_lmi_entry_not_coupled", "entry (%d,%d) of an LMI is not tied to entry (%d,%d) of its auxiliary matrix "
                          "(%d equalities emitted on that entry)" % (i, j, i, j, len(got)))
            extra_eq = sum(len(v) for v in emitted.values()) - size * size
    if ptr != len(cons):
        F("cvxpy_extra_constraints", "%d emitted cvxpy constraints do not correspond to any sent object" % (len(cons) - ptr))
    obj = rec.get("objective")
    if obj is not None and wrapper.prob is not None:
        ov = wrapper.prob.objective.args[0].value
        want = Fv[idx.e(obj)]
        n_eval += 1
        if type(wrapper.prob.objective).__name__ != "Maximize" or abs(float(np.asarray(ov).ravel()[0]) - want) > 1e-12:
            F("cvxpy_objective_wrong", "cvxpy objective is not Maximize(objective leaf)")
    return findings, n_eval


# ---- (1) multiset ------------------------------------------------------------------------------------------
def validate_multiset(machine, rec):
    from pv import canon
    from PEPit.function import Function
    from PEPit.block_partition import BlockPartition
    findings = []

    def F(key, what):
        if len(findings) < 10:
            findings.append({"key": key, "what": what})

    sent = [(k, o) for (k, o, t) in rec["sent"] if t]
    remaining = {}
    for k, o in sent:
        remaining.setdefault(id(o), [k, o, 0])[2] += 1
    label, idx = canon.sym_label_factory()
    obj = rec.get("objective")

    def take(o, n, what, sense=None):
        ent = remaining.get(id(o))
        have = ent[2] if ent else 0
        if have < n:
            F("declared_object_not_sent:" + what, "%s declared %d time(s) reached the solver %d time(s)" % (what, n, have))
            if ent:
                ent[2] = 0
            return
        ent[2] -= n
        if sense is not None and o.equality_or_inequality != sense:
            F("declared_sense_changed", "%s declared as %s is sent as %s" % (what, sense, o.equality_or_inequality))

    decl = {}
    for d in machine.declared:
        if d["kind"] in ("constraint", "lmi"):
            e = decl.setdefault(id(d["obj"]), [d, 0])
            e[1] += 1
    for d, n in decl.values():
        owner = d["owner"]
        what = ("user %s on %s" % (d["kind"], "the problem" if owner == "pep" else
                                    ("a leaf function" if machine.regs[owner].get_is_leaf() else "a composite function")))
        take(d["obj"], n, what, d.get("sense"))
    # a step that documents a side condition declares it: as many constraints as documented are attached to the function
    # (and, being attached, they are accounted for below like every function-level constraint)
    for d in machine.declared:
        if d["kind"] == "step_constraints" and len(d["added"]) != d["expected"]:
            F("step_side_constraints_not_declared:%s" % d["step"],
              "%s_step (%s) attached %d constraint(s) to its function, its documentation states %d side condition(s)"
              % (d["step"], {k_: v_ for k_, v_ in d["op"]["args"].items() if k_ in ("notion", "opt")}, len(d["added"]), d["expected"]))
    # every leaf has its own coordinate: the k-th leaf point / leaf expression of the model is the k-th row of the Gram matrix /
    # entry of the vector of function values (two leaves sharing an index are one solver variable)
    from PEPit.point import Point as _P
    from PEPit.expression import Expression as _E
    for kind_, lst_, cnt_ in (("point", _P.list_of_leaf_points, _P.counter), ("expression", _E.list_of_leaf_expressions, _E.counter)):
        idxs = [o_.counter for o_ in lst_]
        if idxs != list(range(len(lst_))) or cnt_ != len(lst_):
            F("leaf_indices_not_a_numbering:%s" % kind_,
              "leaf %ss carry the indices %s (class counter %s) instead of 0..%d: two leaves share a coordinate or one is skipped"
              % (kind_, idxs[:12], cnt_, len(lst_) - 1))
    # a declared comparison  lhs REL rhs  is the constraint  lhs - rhs <= 0 / rhs - lhs <= 0 / lhs - rhs = 0  as WRITTEN
    idx2 = canon.Index()
    for d in machine.declared:
        op = d.get("op") or {}
        if d["kind"] != "constraint" or "lhs" not in op:
            continue
        try:
            lhs = machine.regs[op["lhs"]]
            rhs = machine.regs[op["rhs"]] if isinstance(op["rhs"], str) else op["rhs"]
            sc_ = op.get("scale") or 1.0
            A1, a1, c1 = canon.expr_num(lhs, idx2)
            if isinstance(rhs, (int, float)):
                A2, a2, c2 = 0 * A1, 0 * a1, float(rhs)
            else:
                A2, a2, c2 = canon.expr_num(rhs, idx2)
            sign = -1.0 if op["rel"] in (">=", ">", "r>") else 1.0     # r< is  rhs > lhs, r> is  rhs < lhs
            if op["rel"] == "r>":
                sign = -1.0
            if op["rel"] == "r<":
                sign = 1.0
            wA, wa, wc = sign * sc_ * (A1 - A2), sign * sc_ * (a1 - a2), sign * sc_ * (c1 - c2)
            gA, ga, gc = canon.expr_num(d["obj"].expression, idx2)
            mg = 1.0 + abs(sc_) * (float(np.max(np.abs(A1), initial=0.0)) + float(np.max(np.abs(A2), initial=0.0)) +
                                   float(np.max(np.abs(a1), initial=0.0)) + float(np.max(np.abs(a2), initial=0.0)) + abs(c1) + abs(c2))
            for sg in ((1.0, -1.0) if op["rel"] == "==" else (1.0,)):
                dd = max(float(np.max(np.abs(gA - sg * wA), initial=0.0)), float(np.max(np.abs(ga - sg * wa), initial=0.0)), abs(gc - sg * wc))
                if dd <= 1e-12 * mg:
                    break
            else:
                F("declared_comparison_built_wrong:%s" % op["rel"].replace("r", "reflected "),
                  "the constraint object built for a declared '%s' does not denote it (differs by %.3e)" % (op["rel"], dd))
        except (KeyError, canon.CanonError):
            continue
    info_lmis_decl = [0]
    for d in machine.declared:
        if d["kind"] == "lmi" and d.get("rows_decl") is not None:
            o = d["obj"]
            rows_decl = d["rows_decl"]
            info_lmis_decl[0] += 1
            if tuple(o.shape) != (len(rows_decl), len(rows_decl[0])):
                F("declared_lmi_changed_after_declaration", "LMI declared with shape (%d,%d) holds shape %r at solve time"
                  % (len(rows_decl), len(rows_decl[0]), tuple(o.shape)))
                continue
            for i_ in range(o.shape[0]):
                for j_ in range(o.shape[1]):
                    want = rows_decl[i_][j_]
                    A1, a1, c1 = canon.expr_num(o[i_, j_], idx2)
                    if isinstance(want, (int, float)):
                        A2, a2, c2 = 0 * A1, 0 * a1, float(want)
                    else:
                        A2, a2, c2 = canon.expr_num(want, idx2)
                    dd = max(float(np.max(np.abs(A1 - A2), initial=0.0)), float(np.max(np.abs(a1 - a2), initial=0.0)), abs(c1 - c2))
                    if dd > 1e-12 * (1.0 + abs(c2) + float(np.max(np.abs(A2), initial=0.0)) + float(np.max(np.abs(a2), initial=0.0))):
                        F("declared_lmi_changed_after_declaration",
                          "entry (%d,%d) of a declared LMI denotes something else at solve time than when it was declared (differs by %.3e)"
                          % (i_, j_, dd))
                        break
    # step side-constraints and any other function-level constraint/LMI (declared through the library itself)
    for f in Function.list_of_functions:
        for c in f.list_of_constraints:
            if id(c) not in decl:
                take(c, 1, "step/function-level constraint")
        for mtx in f.list_of_psd:
            if id(mtx) not in decl:
                take(mtx, 1, "function-level LMI")
    # metrics: objective <= metric, once per declaration
    mets = [d for d in machine.declared if d["kind"] == "metric"]
    metric_keys = {}
    for d in mets:
        # functional objective - metric <= 0
        A, a, c = canon.expr_num(d["obj"], idx)
        metric_keys.setdefault((A.tobytes(), a.tobytes(), c), [0, d])[0] += 1
    for (Ab, ab, c), (n, d) in metric_keys.items():
        found = 0
        for ent in remaining.values():
            k, o, cnt = ent
            if k != "c" or cnt <= 0 or o.equality_or_inequality != "inequality":
                continue
            A2, a2, c2 = canon.expr_num(o.expression, idx)
            a2 = a2.copy()
            if obj is None:
                continue
            a2[idx.e(obj)] -= 1.0
            if (-A2).tobytes() == np.frombuffer(Ab).reshape(A2.shape).tobytes() if False else \
                    (np.allclose(-A2, np.frombuffer(Ab).reshape(A2.shape), atol=1e-12) and
                     np.allclose(-a2, np.frombuffer(ab), atol=1e-12) and abs(-c2 - c) < 1e-12):
                take_n = min(cnt, n - found)
                ent[2] -= take_n
                found += take_n
                if found >= n:
                    break
        if found < n:
            F("metric_not_sent", "a performance metric declared %d time(s) appears %d time(s) as 'objective <= metric'" % (n, found))
    # class constraints and class LMIs of leaf functions, partition constraints: each exactly once
    for f in Function.list_of_functions:
        if not f.get_is_leaf():
            continue
        for c in f.list_of_class_constraints:
            take(c, 1, "class constraint of %s" % type(f).__name__)
        for mtx in f.list_of_class_psd:
            take(mtx, 1, "class LMI of %s" % type(f).__name__)
    for p in BlockPartition.list_of_partitions:
        for c in p.list_of_constraints:
            take(c, 1, "partition constraint")
    left = [(k, o, n) for (k, o, n) in remaining.values() if n > 0]
    if left:
        kinds = {}
        for k, o, n in left:
            kinds[k] = kinds.get(k, 0) + n
        F("undeclared_object_sent", "%s object(s) reached the solver that nobody declared (or more often than declared)" % kinds)
    return findings


def resolve_variant(machine, rng, bd, acc):
    from pv import canon
    from PEPit.function import Function
    from PEPit.point import Point
    findings = []
    leafs = [f for f in Function.list_of_functions if f.get_is_leaf() and type(f).__name__ != "Function"
             and f.list_of_points]
    if not leafs:
        return findings
    pts = [v for v in machine.regs.values() if isinstance(v, Point)]
    for _ in range(rng.randint(1, 2)):
        f = rng.choice(leafs)
        f.oracle(rng.choice(pts) + rng.choice([0.5, 2.0]) * rng.choice(pts))
    n0 = len(bd.records)
    with contextlib.redirect_stdout(io.StringIO()):
        out = machine.do_solve({"verbose": 0, "solver": "CLARABEL"})
    if len(bd.records) <= n0 or bd.records[n0].get("objective") is None:
        return findings
    rec2 = bd.records[n0]
    acc.count("second_solves_validated")
    findings += validate_multiset(machine, rec2)
    label, idx = canon.sym_label_factory()
    sent_ids = {}
    for k, o, t in rec2["sent"]:
        sent_ids[id(o)] = sent_ids.get(id(o), 0) + 1
    for f in leafs:
        if type(f).__name__ in ("ConvexQGFunction", "RsiEbFunction", "BlockSmoothConvexFunction", "LinearOperator"):
            continue   # regeneration may create leaves / depends on other objects: covered by C13 instead
        sent_keys = sorted(repr(canon.functional_key(c.expression, c.equality_or_inequality, label))
                           for c in f.list_of_class_constraints if id(c) in sent_ids)
        n_psd_sent = sum(1 for m_ in f.list_of_class_psd if id(m_) in sent_ids)
        f.set_class_constraints()
        regen = sorted(repr(canon.functional_key(c.expression, c.equality_or_inequality, label)) for c in f.list_of_class_constraints)
        if sent_keys != regen:
            findings.append({"key": "class_constraints_sent_do_not_match_current_samples",
                             "what": "%s: %d class constraints sent at the second solve, %d when regenerated from the %d current samples"
                                     % (type(f).__name__, len(sent_keys), len(regen), len(f.list_of_points))})
        if n_psd_sent != len(f.list_of_class_psd):
            findings.append({"key": "class_lmis_sent_do_not_match_current_samples",
                             "what": "%s: %d class LMIs sent at the second solve, %d when regenerated" % (type(f).__name__, n_psd_sent, len(f.list_of_class_psd))})
    return findings


# ---- (3) translators ---------------------------------------------------------------------------------------
def _absmass(e):
    """sum of the absolute raw coefficients of an expression (what its entries are sums of)"""
    if e.get_is_leaf():
        return 1.0
    return float(sum(abs(float(v)) for v in e.decomposition_dict.values()))


def translator_unit(rng, n_calls, acc):
    from PEPit import PEP, Point, Expression
    from PEPit.tools.expressions_to_matrices import expression_to_matrices, expression_to_sparse_matrices
    from pv import canon
    from pv.algebra import _bucket
    viol = []
    done = 0
    while done < n_calls:
        PEP()
        pts = [Point() for _ in range(rng.randint(1, 5))]
        exs = [Expression() for _ in range(rng.randint(0, 4))]
        idx = canon.Index()
        for _ in range(40):
            done += 1
            shape = rng.choice(["random", "mirrored", "diag", "leaf", "const", "zero_coef", "square_of_comb", "cancel", "random"])
            if shape == "leaf" and exs:
                e = rng.choice(exs)
            elif shape == "const":
                e = rng.choice(exs) * 0 + rng.choice([1.5, -2, 0]) if exs else (pts[0] * pts[0]) * 0 + 3
            else:
                e = None
                for _t in range(rng.randint(1, 5)):
                    c = rng.choice([1, -1, 0.5, 2.0, -3, 7, 0.25, 1e-9, -5e-10, 1e-12, 1e9])
                    p, q = rng.choice(pts), rng.choice(pts)
                    if shape == "mirrored":
                        t = c * (p * q) + rng.choice([1, -1, 5]) * (q * p)
                    elif shape == "diag":
                        t = c * p ** 2
                    elif shape == "square_of_comb":
                        t = c * (p - rng.choice([0.5, 2]) * q) ** 2
                    elif shape == "cancel":
                        t = c * (p * q) - c * (q * p) + (p + q) * (p - q)
                    elif shape == "zero_coef":
                        t = 0 * (p * q) + c * (q * p)
                    else:
                        t = c * (p * q) if rng.random() < 0.7 or not exs else c * rng.choice(exs)
                    e = t if e is None else e + t
                if rng.random() < 0.4:
                    e = e + rng.choice([1, -0.5, 3])
                if exs and rng.random() < 0.4:
                    e = e - rng.choice([1, 2.5]) * rng.choice(exs)
            A, a, alpha = canon.expr_num(e, idx)
            acc.signatures.add("translator|" + repr(_bucket(e)) + "|" + shape)
            try:
                Gw, Fw, cons = expression_to_matrices(e)
                # entry by entry, relative to the entry itself (a weight of 1e-12 is a weight), plus the rounding of what cancels in it
                ca = 1e-13 * _absmass(e)
                ok = np.allclose(Gw, A, rtol=1e-10, atol=ca) and np.allclose(Fw, a, rtol=1e-10, atol=ca) and \
                    abs(cons - alpha) <= 1e-10 * abs(alpha) + ca and np.allclose(Gw, Gw.T, rtol=0, atol=0)
                if not ok:
                    viol.append({"key": "dense_translation_wrong", "what": "expression_to_matrices output differs from the symbolic "
                                 "expression (shape %s): Gram diff %.3e" % (shape, float(np.max(np.abs(Gw - A))) if A.size else 0.0)})
                Ai, Aj, Av, ai, av, al = expression_to_sparse_matrices(e)
                S = np.zeros((idx.n, idx.n))
                bad_tri = False
                for i, j, v in zip(Ai, Aj, Av):
                    if i < j:
                        bad_tri = True
                    S[int(i), int(j)] += v
                    if i != j:
                        S[int(j), int(i)] += v
                s = np.zeros(idx.m)
                for j, v in zip(ai, av):
                    s[int(j)] += v
                dup = len(set(zip(Ai.tolist(), Aj.tolist()))) != len(Ai)
                if bad_tri:
                    viol.append({"key": "sparse_translation_not_lower_triangular", "what": "sparse output has an upper-triangular index"})
                if dup:
                    viol.append({"key": "sparse_translation_duplicate_entry", "what": "sparse output lists an entry twice (shape %s)" % shape})
                if not (np.allclose(S, A, rtol=1e-10, atol=ca) and np.allclose(s, a, rtol=1e-10, atol=ca) and abs(al - alpha) <= 1e-10 * abs(alpha) + ca):
                    viol.append({"key": "sparse_translation_wrong", "what": "expression_to_sparse_matrices output (as a symmetric "
                                 "matrix) differs from the symbolic expression (shape %s): diff %.3e"
                                 % (shape, float(np.max(np.abs(S - A))) if A.size else 0.0)})
            except Exception as ex:
                viol.append({"key": "translator_raises:" + type(ex).__name__, "what": "translator raised %r on shape %s" % (ex, shape)})
    acc.count("translator_calls", done)
    return viol


def run_shard(spec):
    from pv import gen, driver
    from pv.mosek_trace import validate_task
    t0 = time.time()
    acc = sb.Acc()
    bd = driver.boundary()
    bd.skip_solve = True
    per_rec = {}
    vrng = random.Random("c05v/%d/%s" % (spec.get("seed", 0), spec.get("name")))

    def after_generate(wrapper, rec):
        name = type(wrapper).__name__
        try:
            if name == "CvxpyWrapper":
                f, n_eval = validate_cvxpy(wrapper, rec, vrng)
                acc.count("cvxpy_constraints_evaluated", n_eval)
            else:
                f, info = validate_task(wrapper, rec)
                acc.count("task_rows_validated", info["rows_checked"] + info["lmi_entries_checked"])
            per_rec[id(rec)] = f
        except Exception as e:
            import traceback
            acc.count("validator_errors")
            acc.observations.append("validator error %s" % traceback.format_exc()[-500:])

    bd.after_generate = after_generate

    def cases():
        if "replay" in spec and "program" in spec["replay"]:
            w = spec["replay"]
            yield "replay", random.Random(0), w["program"], w["config"]
            return
        for tag, rng, prog in sb.iter_cases(spec):
            for wrapper in ("cvxpy", "mosek"):
                yield tag, rng, prog, {"wrapper": wrapper, "verbose": 0, "solver": "CLARABEL", "mode": "dual"}

    for tag, rng, prog, cfg in cases():
        try:
            case = driver.run_case(prog, cfg)
        except Exception as e:
            acc.count("harness_errors")
            acc.observations.append("harness error %r" % (e,))
            continue
        if case.outcome[0] == "build_exc":
            acc.count("build_exceptions")
            continue
        if case.rec is None or case.rec.get("objective") is None:
            acc.count("no_problem_generated:" + (type(case.outcome[1]).__name__ if case.outcome[0] == "exc" else "?"))
            continue
        acc.count("programs")
        acc.count("programs:" + cfg["wrapper"])
        acc.signatures.add(gen.signature(prog) + "|" + cfg["wrapper"])
        findings = list(per_rec.pop(id(case.rec), []))
        try:
            findings += validate_multiset(case.machine, case.rec)
            acc.count("sent_objects_accounted", len(case.rec["sent"]))
        except Exception as e:
            import traceback
            acc.count("validator_errors")
            acc.observations.append("multiset validator error %s" % traceback.format_exc()[-500:])
        if len(acc.samples) < 2:
            acc.samples.append({"tag": tag, "meta": {k: v for k, v in prog["meta"].items() if k != "regs"}, "config": cfg,
                                "n_sent": len(case.rec["sent"]), "n_declared": len(case.machine.declared)})
        # "at each solve": record more samples on the same object, solve again, and require that what is sent at
        # the second solve is what a regeneration of the class constraints from the current samples gives
        if cfg["wrapper"] == "cvxpy" and rng.random() < 0.5 and not findings:
            try:
                findings += resolve_variant(case.machine, rng, bd, acc)
            except Exception as e:
                import traceback
                acc.count("validator_errors")
                acc.observations.append("resolve variant error %s" % traceback.format_exc()[-500:])
        for f in findings:
            acc.count("violated_items")
            f = dict(f, grade="violated")
            if len(acc.violations) < 10:
                acc.violations.append(driver.strip_witness(prog, cfg, f))
    if "replay" not in spec or "program" not in spec.get("replay", {}):
        trng = random.Random("c05t/%d/%s" % (spec.get("seed", 0), spec.get("name")))
        for v in translator_unit(trng, 400 if spec.get("tier") == "quick" else 12000, acc)[:5]:
            acc.count("violated_items")
            acc.violations.append(dict(v, translator_rng="c05t/%d/%s" % (spec.get("seed", 0), spec.get("name"))))
    acc.counters["disagreements_checked"] = acc.counters.get("violated_items", 0)
    acc.extra["shard_wall_s"] = round(time.time() - t0, 1)
    return acc.result()
