"""C11 - both solver back-ends solve the same problem and report duals in one convention.

MOSEK is observed through the recording, validating, solving stand-in module pv/standins/mosek (DESIGN 2.6)."""
import os
import random
import time

from pv.checks import _solvebase as sb

LEVEL = "translation_validation"
RULE = ("each generated program (0-3 LMIs in any declaration order incl. PSDMatrix objects created but never added, "
        "function-level and class LMIs, leaves created while class constraints are generated, 1-3 metrics, optional "
        "dimension reduction, optional second solve) is solved through the cvxpy back-end and through the MOSEK "
        "back-end (stand-in); compared: optimal value, C01 certificate oracle and C02 primal oracle on the MOSEK side "
        "against the same sent-constraint list, and the Task contents reconstructed from the recorded calls (row = "
        "declared functional, bound kind, each LMI entry tied to its own matrix variable, objective = objective leaf). "
        "distinct = distinct program/config signature")
ASSUMPTIONS = ["MOSEK is modelled, not run: conclusions hold for the documented Optimizer API as implemented by "
               "pv/standins/mosek, which validates its own output against the manual's dual equations",
               "pv/canon.py; thresholds DESIGN 2.8"]
DECIDING_COUNTER = "pairs_compared"
MIN_DECIDED = {"quick": 60, "thorough": 1500}
REQUIRED_COUNTERS = {"quick": {"task_rows_validated": 1000, "mosek_lmis_validated": 20},
                     "thorough": {"task_rows_validated": 30000, "mosek_lmis_validated": 600}}
STANDINS = os.path.join(os.path.dirname(os.path.dirname(os.path.abspath(__file__))), "standins")


def plan(tier, seed):
    return sb.plan(tier, seed, per_shard_quick=14, per_shard_thorough=500, extra={"extra_path": [STANDINS]})


def perturb(prog, rng):
    """Insert PSDMatrix objects that are created but never added, and sometimes an extra LMI early."""
    ops = list(prog["ops"])
    regs = prog["meta"].get("regs", {})
    n_extra = rng.choice([0, 0, 1, 1, 2])
    feats = list(prog["meta"]["features"])
    for _ in range(n_extra):
        # position after the first expression exists
        pos = [i for i, o in enumerate(ops) if o["op"] == "expr"]
        if not pos:
            break
        at = rng.choice(pos) + 1
        e = ops[at - 1]["out"]
        ops.insert(at, {"op": "lmi", "out": "unused%d" % at, "rows": [[e, 0.0], [0.0, 1.0]], "owner": None})
        if "psd_created_not_added" not in feats:
            feats.append("psd_created_not_added")
    meta = dict(prog["meta"])
    meta["features"] = feats
    return {"ops": ops, "meta": meta}


def run_shard(spec):
    from pv import gen, driver, oracles, canon
    from pv.monitors import is_optimal_status
    from pv.mosek_trace import validate_task
    import mosek
    assert "standins" in mosek.__file__, "stand-in mosek not first on the path"
    t0 = time.time()
    acc = sb.Acc()
    bd = driver.boundary()
    trace_findings = {}

    def after_generate(wrapper, rec):
        if type(wrapper).__name__ != "MosekWrapper":
            return
        try:
            f, info = validate_task(wrapper, rec)
        except Exception as e:
            acc.count("trace_validator_errors")
            acc.observations.append("trace validator error %r" % (e,))
            return
        acc.count("task_rows_validated", info["rows_checked"] + info["lmi_entries_checked"])
        acc.count("mosek_lmis_validated", info["lmis"])
        trace_findings[id(rec)] = f

    bd.after_generate = after_generate
    heur_findings = {}

    def after_heuristic(wrapper, rec, weight):
        from pv.mosek_trace import validate_heuristic
        try:
            heur_findings.setdefault(id(rec), []).extend(validate_heuristic(wrapper, rec, weight))
            acc.count("heuristic_objectives_validated")
        except Exception as e:
            acc.count("trace_validator_errors")
            acc.observations.append("heuristic validator error %r" % (e,))

    bd.after_heuristic = after_heuristic

    def cases():
        if "replay" in spec:
            w = spec["replay"]
            yield "replay", random.Random(0), w["program"], w["config"]
            return
        for tag, rng, prog in sb.iter_cases(spec):
            prog = perturb(prog, rng)
            cfg = {"solver": "CLARABEL", "verbose": rng.choice([0, 0, 1]), "mode": rng.choice(["dual", "primal"])}
            if rng.random() < 0.2:
                cfg["dimred"] = rng.choice(["trace", "logdet1", "logdet2"])
            cfg["twice"] = rng.random() < 0.2
            yield tag, rng, prog, cfg

    for tag, rng, prog, cfg in cases():
        acc.count("programs")
        c1 = dict(cfg, wrapper="cvxpy")
        c2 = dict(cfg, wrapper="mosek")
        try:
            case1 = driver.run_case(prog, c1)
        except Exception as e:
            acc.count("harness_errors")
            continue
        if case1.outcome[0] == "build_exc":
            acc.count("build_exceptions")
            continue
        try:
            case2 = driver.run_case(prog, c2)
            if cfg.get("twice") and case2.outcome[0] == "ok":
                # a second solve of the same object through the MOSEK back-end
                import contextlib, io
                with contextlib.redirect_stdout(io.StringIO()):
                    out2 = case2.machine.do_solve(driver.solve_kwargs(c2))
                n_rec = bd.records[-1]
                case2.outcome = out2
                case2.rec = n_rec
                sts = [str(x["status"]).lower() for x in n_rec["inner"]]
                case2.decidable = bool(sts) and all(is_optimal_status(s) for s in sts) and out2[0] == "ok" and out2[1] is not None
                acc.count("second_solves_through_mosek")
        except Exception as e:
            acc.count("harness_errors")
            acc.observations.append("harness error %r" % (e,))
            continue

        def V(key, what, extra=None):
            acc.count("violated_items")
            if len(acc.violations) < 10:
                acc.violations.append(driver.strip_witness(prog, c2, {"key": key, "what": what}, extra))

        rec2 = case2.rec
        if rec2 is not None and rec2.get("wrapper_cls") != "MosekWrapper":
            acc.count("mosek_not_selected")
            acc.observations.append("wrapper=mosek ran %s" % rec2.get("wrapper_cls"))
            continue
        for f in trace_findings.pop(id(rec2), []) if rec2 is not None else []:
            V(f["key"], f["what"])
        for rc_ in (case1.rec, rec2):
            for f in heur_findings.pop(id(rc_), []) if rc_ is not None else []:
                V(f["key"], f["what"])
        o1, o2 = case1.outcome, case2.outcome
        if o2[0] == "exc":
            name = type(o2[1]).__name__
            if name == "StandInSelfCheckError":
                acc.count("standin_selfcheck_failed(inconclusive)")
                acc.observations.append("stand-in self-check: %s" % o2[1])
                continue
            inner2 = (rec2 or {}).get("inner", [])
            if len(inner2) >= 2 and inner2[-1].get("value") is None and inner2[0].get("value") is not None:
                # the (stand-in's) solver failed on a dimension-reduction problem after a successful first solve: PEP.solve then
                # dies (an assertion / attribute error, DESIGN 8.4) - a solver-side failure, nothing the two back-ends disagree on
                acc.count("mosek_side_heuristic_solver_failed(not judged)")
                continue
            if o1[0] == "ok":
                V("mosek_backend_raises:" + name, "wrapper='mosek' raised %s (%s) where wrapper='cvxpy' returned %r"
                  % (name, str(o2[1])[:160], o1[1]))
            else:
                acc.count("both_raise")
            continue
        if o1[0] != "ok":
            acc.count("cvxpy_side_exception:" + type(o1[1]).__name__)
            continue
        st1 = (case1.status or "")
        st2 = (case2.status or "")
        if o1[1] is None or o2[1] is None:
            says_none2 = any(x in st2 for x in ("infeas", "unbounded"))
            if o1[1] is None and o2[1] is not None and says_none2:
                V("number_returned_on_" + ("unbounded" if "dual_infeas" in st2 else "infeasible") + ":mosek",
                  "wrapper='mosek' returned %r although the task status is %s (cvxpy returns None: %s)" % (o2[1], st2, st1))
            elif (o1[1] is None) != (o2[1] is None) and case1.decidable != case2.decidable and \
                    is_optimal_status(st1) and is_optimal_status(st2):
                V("backends_disagree_on_finiteness", "cvxpy %r (%s) vs mosek %r (%s)" % (o1[1], st1, o2[1], st2))
            else:
                acc.count("no_value_both")
            continue
        if not (case1.decidable and case2.decidable):
            acc.count("skipped_not_optimal")
            continue
        acc.count("pairs_compared")
        acc.signatures.add(gen.signature(prog) + "|" + "/".join(str(cfg.get(k)) for k in ("mode", "dimred", "twice")))
        if len(acc.samples) < 2:
            acc.samples.append({"tag": tag, "meta": prog["meta"], "config": cfg, "cvxpy": o1[1], "mosek": o2[1],
                                "task_calls": len(case2.machine.pep.wrapper.task.calls),
                                "task_calls_head": [c[0] for c in case2.machine.pep.wrapper.task.calls[:12]]})
        sc = 1 + abs(o1[1])
        tolv = 1e-5 if not cfg.get("dimred") or cfg.get("mode") == "dual" else None
        if tolv is not None and abs(o1[1] - o2[1]) > tolv * sc:
            V("backends_return_different_values", "cvxpy returns %.10g, mosek returns %.10g (mode %s)" % (o1[1], o2[1], cfg.get("mode")))
        if cfg.get("dimred"):
            # after the heuristic replaced the objective, both back-ends must keep the instance within the stated
            # (absolute, default 1e-4) tolerance of the optimum
            for nm, rc_ in (("cvxpy", case1.rec), ("mosek", rec2)):
                opt = rc_["inner"][0]["value"]
                objv = float(rc_["pep"].objective.eval()) if nm == "mosek" else rc_["inner"][-1].get("value")
                if nm == "cvxpy":
                    # objective variable of the last heuristic problem = wrapper.objective value, read from F
                    objv = float(rc_["inner"][-1]["F"][rc_["objective"].counter])
                if opt is not None and objv is not None and (opt - 1e-4) - objv > 1e-5 * (1 + abs(opt)):
                    V("dimred_instance_below_tolerance:" + nm, "%s back-end: objective at the returned instance %.10g < optimum - tol = %.10g"
                      % (nm, objv, opt - 1e-4))
        try:
            cf, cinfo = oracles.certificate_check(rec2, o2[1], cfg.get("mode", "dual"))
            pf, pinfo = oracles.primal_check(rec2, o2[1], cfg.get("mode", "dual"), held_objects=driver.held_objects(case2.machine))
        except Exception as e:
            acc.count("oracle_errors")
            acc.observations.append("oracle error %r" % (e,))
            continue
        acc.count("mosek_multipliers_checked", cinfo.get("n_ineq", 0) + cinfo.get("n_eq", 0) + cinfo.get("n_lmi", 0))
        for f in cf + pf:
            if f["key"] in oracles.C01_KNOWN_KEYS:
                acc.count("c01_known_mechanism_seen")
                continue
            if f["grade"] == "violated":
                V("mosek:" + f["key"], f["what"])
            else:
                acc.count("marginal_items")
    # licence-invalid configuration: wrapper="mosek" must fall back to the cvxpy back-end and still solve the model
    if "replay" not in spec:
        import os as _os
        rng = random.Random("c11lic/%d/%s" % (spec["seed"], spec["name"]))
        prog = gen.gen_program(rng, "method", {"cls": "SmoothStronglyConvexFunction", "mode": "single"})
        _os.environ["PV_MOSEK_LICENSE"] = "invalid"
        try:
            case = driver.run_case(prog, {"wrapper": "mosek", "solver": "CLARABEL", "verbose": 0, "mode": "dual"})
            acc.count("licence_invalid_cases")
            used = case.rec.get("wrapper_cls") if case.rec else None
            if used != "CvxpyWrapper" or case.machine.pep.wrapper_name != "cvxpy":
                acc.count("violated_items")
                acc.violations.append(driver.strip_witness(prog, case.cfg, {"key": "no_fallback_without_licence",
                                      "what": "wrapper='mosek' without a valid licence ran %s (wrapper_name %s)" % (used, case.machine.pep.wrapper_name)}))
            elif case.outcome[0] != "ok" or case.outcome[1] is None:
                acc.observations.append("licence-invalid fallback did not return a value: %r" % (case.outcome,))
        finally:
            _os.environ["PV_MOSEK_LICENSE"] = "valid"
    acc.counters["disagreements_checked"] = acc.counters.get("violated_items", 0)
    acc.extra["monitor_events"] = dict(bd.counts)
    acc.extra["shard_wall_s"] = round(time.time() - t0, 1)
    return acc.result()
