"""C10 - shipped examples agree with their published closed-form rates on the whole documented range."""
import contextlib
import importlib
import io
import os
import random
import time
import warnings

LEVEL = "exploration"
RULE = ("every shipped example (pv/ref/examples_table.py: import path, documented validity range transcribed from "
        "the docstring, tight/upper kind cross-checked with tests/test_examples.py) is run at its pinned tuple and at "
        "random admissible tuples incl. range end regimes, with Clarabel (a subset through the MOSEK stand-in); oracle: "
        "tight => |pepit - theory| <= 1e-3*theory, upper bound => pepit <= theory*(1+1e-3); the 13 complexified "
        "variants of tests/additional_complexified_examples_tests must return the value of their base example at the "
        "same parameters (1e-3). Runs whose back-end status is not 'optimal' are skipped and counted. "
        "distinct = distinct (example, parameter regime bucket, back-end)")
ASSUMPTIONS = ["the documented ranges in pv/ref/examples_table.py are transcribed by hand; a disagreement is first examined "
               "for a transcription error", "solver status 'optimal' means converged (Clarabel 1e-8)"]
DECIDING_COUNTER = "runs_judged"
MIN_DECIDED = {"quick": 120, "thorough": 2200}
REQUIRED_COUNTERS = {"quick": {"examples_covered": 70}, "thorough": {"examples_covered": 80}}
NSHARDS = 16
STANDINS = os.path.join(os.path.dirname(os.path.dirname(os.path.abspath(__file__))), "standins")

VARIANTS = [
    # (variant function, base example name, kwargs map base->variant)
    ("wc_proximal_gradient_complexified", "proximal_gradient", {}),
    ("wc_proximal_gradient_complexified2", "proximal_gradient", {}),
    ("wc_proximal_point_complexified", "proximal_point", {}),
    ("wc_proximal_point_complexified2", "proximal_point", {}),
    ("wc_proximal_point_complexified3", "proximal_point", {}),
    ("wc_gradient_exact_line_search_complexified", "gradient_exact_line_search", {}),
    ("wc_inexact_gradient_exact_line_search_complexified", "inexact_gradient_exact_line_search", {}),
    ("wc_inexact_gradient_exact_line_search_complexified2", "inexact_gradient_exact_line_search", {}),
    ("wc_inexact_gradient_exact_line_search_complexified3", "inexact_gradient_exact_line_search", {}),
    ("wc_randomized_coordinate_descent_smooth_convex_complexified", "randomized_coordinate", {"t": "n"}),
    ("wc_randomized_coordinate_descent_smooth_strongly_convex_complexified", "randomized_coordinate_strongly_convex", {}),
    ("wc_gradient_descent_useless_blocks", "gradient_descent", {}),
]


def post_merge(counters, extra):
    counters["examples_covered"] = len(extra.get("examples", []))


LARGE = [("sgd", {"L": 1, "mu": 0.1, "gamma": 1, "v": 1, "R": 2, "n": 33}, "quick"),            # Gram 67 x 67, 11 s
         ("gradient_descent", {"L": 2.0, "gamma": 0.5, "n": 63}, "thorough"),                         # Gram 66 x 66, 100 s
         ("sgd", {"L": 2.0, "mu": 0.5, "gamma": 0.5, "v": 0.5, "R": 1.5, "n": 40}, "thorough")]


def plan(tier, seed):
    k = 4 if tier == "quick" else 120
    return [{"name": "s%d" % i, "seed": seed, "shard": i, "draws": k, "extra_path": [STANDINS]} for i in range(NSHARDS)]


def bucket(kwargs):
    out = []
    for k, v in sorted(kwargs.items()):
        if isinstance(v, (int,)) and not isinstance(v, bool):
            out.append("%s=%d" % (k, v))
        elif isinstance(v, float):
            out.append("%s~%.1e" % (k, v))
        else:
            out.append("%s=%s" % (k, type(v).__name__))
    return ",".join(out)


def reformulate(pep):
    """An equivalent formulation of the model: every inequality declared on the problem  e <= 0  is moved either to a 1x1 LMI
    [[-e]] >= 0 attached to the first leaf function or to the scalar constraints of the last leaf function, and a useless
    one-block partition is declared."""
    from PEPit.function import Function
    leaves = [f for f in Function.list_of_functions if f.get_is_leaf() and type(f).__name__ != "Function"]
    if not leaves:
        return
    keep = []
    for k, c in enumerate(pep.list_of_constraints):
        if c.equality_or_inequality == "inequality" and (k + len(pep.list_of_constraints)) % 2 == 0:
            leaves[0].add_psd_matrix([[-c.expression]])
        elif c.equality_or_inequality == "inequality":
            # ... or to the function's own list of scalar constraints (documented Function.add_constraint), constants included
            leaves[-1].add_constraint(c)
        else:
            keep.append(c)
    pep.list_of_constraints = keep
    part = pep.declare_block_partition(d=1)
    if leaves[0].list_of_points:
        part.get_block(leaves[0].list_of_points[0][0], 0)


@contextlib.contextmanager
def scaled_blocks(active):
    """Equivalent formulation of every block decomposition written in an example: P_i(p) is obtained as P_i(2 p) / 2
    (coordinate-block projections are linear).  Calls made by the library itself (class constraints) are left alone."""
    if not active:
        yield
        return
    import sys as _sys
    from PEPit.block_partition import BlockPartition
    orig = BlockPartition.get_block

    def get_block(self, point, block_number):
        caller = _sys._getframe(1).f_globals.get("__name__", "")
        if caller.startswith("PEPit.examples") or caller.startswith("tests."):
            return orig(self, 2.0 * point, block_number) / 2.0
        return orig(self, point, block_number)
    BlockPartition.get_block = get_block
    try:
        yield
    finally:
        BlockPartition.get_block = orig


def _validated_interval(recs):
    """[lower, upper] that the model's optimum is PROVEN to lie in, from what the library exposes after the solve, whatever
    the solver says about its own accuracy: upper = the dual value when the exposed certificate passes the C01 oracle,
    lower = the objective at the returned instance when that instance passes the C02 oracle (feasible, consistent)."""
    from pv import oracles
    lo = up = None
    if len(recs) != 1 or recs[0].get("ret") is None:
        return lo, up
    rec = recs[0]
    mode = rec["opts"].get("return_primal_or_dual", "dual")
    try:
        cf, _ci = oracles.certificate_check(rec, rec["ret"], mode)
        if not cf and mode == "dual":
            up = float(rec["ret"])
        pf, pi = oracles.primal_check(rec, rec["ret"], mode)
        if not pf and pi.get("min_metric") is not None:
            lo = float(pi["min_metric"])
    except Exception:
        pass
    return lo, up


def call_example(entry, kwargs, wrapper="cvxpy", reformulated=False, solver="CLARABEL", interval=False):
    from pv import driver
    bd = driver.boundary()
    bd.default_solver = solver
    bd.pre_solve = reformulate if reformulated else None
    mod = importlib.import_module(entry["module"])
    fn = getattr(mod, entry["func"])
    n0 = len(bd.records)
    t0 = time.time()
    import inspect
    params = inspect.signature(fn).parameters
    extra = {k: v for k, v in (("wrapper", wrapper), ("solver", solver), ("verbose", -1)) if k in params}
    with contextlib.redirect_stdout(io.StringIO()), warnings.catch_warnings(), scaled_blocks(reformulated):
        warnings.simplefilter("ignore")
        out = fn(**kwargs, **extra)
    bd.pre_solve = None
    recs = bd.records[n0:]
    statuses = [str(x["status"]).lower() for r in recs for x in r["inner"]]
    call_example.last_interval = _validated_interval(recs) if interval else (None, None)
    return out, statuses, time.time() - t0


def judge(kind, pepit, theory):
    """returns (ok, defect)"""
    if theory is None or pepit is None or kind in ("none",):
        return None, 0.0
    if kind == "tight":
        d = abs(pepit - theory)
        return d <= 1e-3 * abs(theory) + 1e-7, d
    if kind == "upper":
        d = pepit - theory
        return d <= 1e-3 * abs(theory) + 1e-7, d
    if kind == "lower":
        d = theory - pepit
        return d <= 1e-3 * abs(theory) + 1e-7, d
    return None, 0.0


def run_shard(spec):
    from pv.monitors import is_optimal_status
    from pv.ref import examples_table as ET
    t0 = time.time()
    counters = {"runs_judged": 0, "runs": 0}
    sigs, viol, samples, notes = set(), [], [], []
    seen = set()
    entries = ET.EXAMPLES
    byname = {e["name"]: e for e in entries}
    work = []
    if "replay" in spec:
        w = spec["replay"]
        work = [(byname[w["example"]], w["kwargs"], w.get("wrapper", "cvxpy"), w.get("variant"))]
    else:
        for i, e in enumerate(entries):
            if i % NSHARDS != spec["shard"]:
                continue
            work.append((e, dict(e["base"]), "cvxpy", None))
            from pv.ref.draws import generic_draws
            for k, kw in enumerate(generic_draws(e, spec["seed"], spec["draws"], tag="c10")):
                rng = random.Random("c10w/%d/%s/%d" % (spec["seed"], e["name"], k))
                work.append((e, kw, "mosek" if rng.random() < 0.2 else "cvxpy", None))
        # sizes beyond the ones the suite ever reaches (its largest Gram matrix is 54 x 54)
        for name_, kw_, tier_ in LARGE:
            if name_ in byname and entries.index(byname[name_]) % NSHARDS == spec["shard"] and (tier_ == "quick" or spec["draws"] > 4):
                work.append((byname[name_], dict(kw_), "cvxpy", None))
        for j, (vf, base, kmap) in enumerate(VARIANTS):
            if j % NSHARDS == spec["shard"] and base in byname:
                e = byname[base]
                for k in range(max(1, spec["draws"] // 3) + 1):
                    rng = random.Random("c10v/%d/%s/%d" % (spec["seed"], vf, k))
                    kw = dict(e["base"]) if k == 0 else e["gen"](rng)
                    work.append((e, kw, "cvxpy", (vf, kmap)))

    def V(key, what, e, kw, wrapper, variant=None):
        if len(viol) < 12 and not any(v["key"] == key for v in viol):
            viol.append({"key": key, "what": what, "example": e["name"], "kwargs": kw, "wrapper": wrapper, "variant": variant})

    for e, kw, wrapper, variant in work:
        counters["runs"] += 1
        if e.get("cost") == "heavy" and spec["draws"] <= 1 and kw != e["base"]:
            counters["skipped_heavy"] = counters.get("skipped_heavy", 0) + 1
            continue
        scs_judged = False
        try:
            import inspect as _insp
            uses_blocks = variant is None and "declare_block_partition" in _insp.getsource(getattr(importlib.import_module(e["module"]), e["func"]))
        except Exception:
            uses_blocks = False
        if uses_blocks and wrapper == "cvxpy" and e.get("cost") != "heavy":
            # examples that decompose points into blocks: the value must not move when every decomposition written in the example
            # is obtained as P_i(2 p) / 2 and the inequalities become function LMIs.  Clarabel often stops with
            # optimal_inaccurate on these models: then the comparison is made on the PROVEN intervals of the two runs
            try:
                (pA, _tA), stA, _w = call_example(e, kw, wrapper, interval=True)
                ivA = call_example.last_interval
                (pB, _tB), stB, _w = call_example(e, kw, wrapper, reformulated=True, interval=True)
                ivB = call_example.last_interval
                bothopt = stA and stB and all(is_optimal_status(s_) for s_ in stA + stB)
                if pA is not None and pB is not None and bothopt:
                    counters["reformulations_judged"] = counters.get("reformulations_judged", 0) + 1
                    if abs(pA - pB) > 1e-3 * abs(pA) + 1e-6:
                        V("equivalent_formulation_moves_value:scaled_block_decomposition:%s" % e["name"],
                          "%s(%s): %.8g as shipped, %.8g when every block decomposition is written P_i(2p)/2 and the inequalities as "
                          "function LMIs" % (e["func"], kw, pA, pB), e, kw, wrapper)
                elif None not in ivA and None not in ivB:
                    counters["reformulations_judged_on_proven_intervals"] = counters.get("reformulations_judged_on_proven_intervals", 0) + 1
                    gap = max(ivA[0] - ivB[1], ivB[0] - ivA[1])
                    if gap > 1e-3 * max(abs(ivA[1]), abs(ivB[1])) + 1e-5:
                        V("equivalent_formulation_moves_value:scaled_block_decomposition:%s" % e["name"],
                          "%s(%s): the optimum is proven in [%.8g, %.8g] as shipped and in [%.8g, %.8g] when every block decomposition "
                          "is written P_i(2p)/2 and the inequalities as function LMIs (statuses %s / %s)"
                          % (e["func"], kw, ivA[0], ivA[1], ivB[0], ivB[1], stA, stB), e, kw, wrapper)
                else:
                    counters["reformulations_undecidable"] = counters.get("reformulations_undecidable", 0) + 1
            except Exception as ex:
                counters["reformulation_exceptions:" + type(ex).__name__] = counters.get("reformulation_exceptions:" + type(ex).__name__, 0) + 1
        try:
            (pepit, theory), statuses, wall = call_example(e, kw, wrapper)
        except Exception as ex:
            name = type(ex).__name__
            counters["example_exceptions:" + name] = counters.get("example_exceptions:" + name, 0) + 1
            if name not in ("SolverError",) and len(notes) < 8:
                notes.append("%s %r raised %r" % (e["name"], kw, ex))
            statuses = []
            if name != "SolverError":
                continue
        if not statuses or not all(is_optimal_status(s) for s in statuses):
            # (a second opinion from SCS was tried and withdrawn: on these ill-conditioned settings SCS reports "optimal" with
            #  values that are off by orders of magnitude - DESIGN Appendix B16)
            counters["skipped_not_optimal"] = counters.get("skipped_not_optimal", 0) + 1
            continue
        if variant is None:
            ok = ET.holds(e, pepit, theory, rtol=max(1e-3, e.get("rtol_hint") or 0.0))
            defect = abs(pepit - theory) if (pepit is not None and theory is not None) else 0.0
            if ok is None:
                counters["runs_without_reference"] = counters.get("runs_without_reference", 0) + 1
                seen.add(e["name"])
                continue
            counters["runs_judged"] += 1
            counters["judged:" + e["kind"]] = counters.get("judged:" + e["kind"], 0) + 1
            seen.add(e["name"])
            sigs.add("%s|%s|%s" % (e["name"], bucket(kw), wrapper))
            if len(samples) < 3:
                samples.append({"example": e["name"], "kwargs": kw, "wrapper": wrapper, "pepit": pepit, "theory": theory, "kind": e["kind"]})
            # the value must not move under an equivalent formulation (inequalities as 1x1 LMIs on a function)
            if ok and not scs_judged and wrapper == "cvxpy" and e.get("cost") != "heavy" and \
                    (not uses_blocks and random.Random(repr(sorted(kw.items()))).random() < 0.35):
                try:
                    (p2, t2), st2, _w = call_example(e, kw, wrapper, reformulated=True)
                    if st2 and all(is_optimal_status(s_) for s_ in st2) and p2 is not None:
                        counters["reformulations_judged"] = counters.get("reformulations_judged", 0) + 1
                        if abs(p2 - pepit) > 1e-3 * abs(pepit) + 1e-6:
                            V("equivalent_formulation_moves_value:inequalities_as_function_lmis:%s" % e["name"],
                              "%s(%s): %.8g as shipped, %.8g when the problem-level inequalities are moved to a function (1x1 LMIs / its own scalar constraints)"
                              % (e["func"], kw, pepit, p2), e, kw, wrapper)
                    elif p2 is None and st2:
                        V("equivalent_formulation_moves_value:inequalities_as_function_lmis:%s" % e["name"],
                          "%s(%s): %.8g as shipped, no finite value when the problem-level inequalities are moved to a function (1x1 LMIs / its own scalar constraints) "
                          "(statuses %s)" % (e["func"], kw, pepit, st2), e, kw, wrapper)
                except Exception as ex:
                    counters["reformulation_exceptions:" + type(ex).__name__] = counters.get("reformulation_exceptions:" + type(ex).__name__, 0) + 1
            # irrelevant input: a schedule (list parameter) longer than the n iterations that use it - neither the computed
            # value nor the documented reference value may depend on the unused trailing entries
            longer = [k_ for k_, v_ in kw.items() if isinstance(v_, (list, tuple)) and isinstance(kw.get("n"), int) and len(v_) > kw["n"]]
            if longer and wrapper == "cvxpy":
                kw2 = dict(kw)
                for k_ in longer:
                    kw2[k_] = list(kw[k_])[:kw["n"]]
                try:
                    (p3, t3), st3, _w = call_example(e, kw2, wrapper)
                    if st3 and all(is_optimal_status(s_) for s_ in st3) and p3 is not None:
                        counters["unused_trailing_entries_compared"] = counters.get("unused_trailing_entries_compared", 0) + 1
                        if abs(p3 - pepit) > 1e-3 * abs(pepit) + 1e-6:
                            V("value_depends_on_unused_schedule_entries:%s" % e["name"],
                              "%s(%s): computed %.8g, but %.8g when the unused entries beyond n = %d of %s are dropped"
                              % (e["func"], kw, pepit, p3, kw["n"], longer), e, kw, wrapper)
                        if theory is not None and t3 is not None and abs(t3 - theory) > 1e-9 * (1 + abs(theory)):
                            V("reference_value_depends_on_unused_schedule_entries:%s" % e["name"],
                              "%s(%s): documented reference value %.8g, but %.8g when the unused entries beyond n = %d of %s are dropped"
                              % (e["func"], kw, theory, t3, kw["n"], longer), e, kw, wrapper)
                except Exception as ex:
                    counters["truncation_exceptions:" + type(ex).__name__] = counters.get("truncation_exceptions:" + type(ex).__name__, 0) + 1
            if not ok:
                V("example_disagrees_with_documented_rate:%s" % e["name"],
                  "%s(%s) [%s]: computed %.8g, documented %s value %.8g (relative gap %.2e)"
                  % (e["func"], kw, wrapper, pepit, e["kind"], theory, defect / max(abs(theory), 1e-12)), e, kw, wrapper)
        else:
            vf, kmap = variant
            import tests.additional_complexified_examples_tests as T
            vkw = {}
            import inspect
            sigp = inspect.signature(getattr(T, vf)).parameters
            for k_, v_ in kw.items():
                k2 = kmap.get(k_, k_)
                if k2 in sigp:
                    vkw[k2] = v_
            if any(p not in vkw and sigp[p].default is inspect._empty for p in sigp):
                counters["variant_signature_mismatch"] = counters.get("variant_signature_mismatch", 0) + 1
                continue
            from pv import driver
            bd = driver.boundary()
            n0 = len(bd.records)
            try:
                with contextlib.redirect_stdout(io.StringIO()), warnings.catch_warnings():
                    warnings.simplefilter("ignore")
                    vout = getattr(T, vf)(**vkw, verbose=-1)
            except Exception as ex:
                counters["variant_exceptions:" + type(ex).__name__] = counters.get("variant_exceptions:" + type(ex).__name__, 0) + 1
                continue
            st2 = [str(x["status"]).lower() for r in bd.records[n0:] for x in r["inner"]]
            if not st2 or not all(is_optimal_status(s) for s in st2):
                counters["skipped_not_optimal"] = counters.get("skipped_not_optimal", 0) + 1
                continue
            counters["runs_judged"] += 1
            counters["variants_judged"] = counters.get("variants_judged", 0) + 1
            sigs.add("%s|%s|variant" % (vf, bucket(kw)))
            if abs(vout[0] - pepit) > 1e-3 * abs(pepit) + 1e-7:
                V("equivalent_formulation_moves_value:%s" % vf,
                  "%s(%s) returns %.8g, its base example %s returns %.8g" % (vf, vkw, vout[0], e["func"], pepit), e, kw, wrapper, vf)
    return {"counters": counters, "signatures": sorted(sigs), "samples": samples, "violations": viol,
            "observations": notes, "extra": {"shard_wall_s": round(time.time() - t0, 1), "examples": sorted(seen)}}
