"""C01 - returned upper bound is backed by a complete, checkable dual certificate."""
import os

from pv import oracles, driver
from pv.checks import _solvebase as sb

LEVEL = "exploration"
RULE = ("generated DSL programs (families method/operator/linear/soup over all 24 classes, steps, user constraints, "
        "symmetric and non-symmetric LMIs, 1-3 metrics) solved under random configurations; a case counts when the "
        "back-end status is exactly optimal and a finite value is returned; distinct = distinct signature "
        "(family, classes, steps, features, #constraints, #metrics, wrapper/solver/mode/dimred)")
ASSUMPTIONS = ["pv/canon.py denotation layer", "numerical thresholds of DESIGN 2.8 (violated > 1e-4*scale with "
               "Clarabel, 5e-3*scale with SCS)", "back-end status 'optimal' means the solver converged"]
DECIDING_COUNTER = "decided"
MIN_DECIDED = {"quick": 60, "thorough": 1000}


STANDINS = os.path.join(os.path.dirname(os.path.dirname(os.path.abspath(__file__))), "standins")


def plan(tier, seed):
    return sb.plan(tier, seed, per_shard_quick=24, per_shard_thorough=1200, extra={"extra_path": [STANDINS]})


def config_fn(rng):
    cfg = driver.random_config(rng)
    if rng.random() < 0.2:
        cfg["wrapper"] = "mosek"       # the MOSEK back-end through the stand-in (DESIGN 2.6)
        cfg["solver"] = "CLARABEL"
    if rng.random() < 0.08:
        cfg["verbose"] = 2
    return cfg


def judge(acc, case, prog, cfg, rng):
    rec = case.rec
    findings, info = oracles.certificate_check(rec, case.outcome[1], cfg.get("mode", "dual"))
    acc.count("multipliers_checked", info.get("n_ineq", 0) + info.get("n_eq", 0) + info.get("n_lmi", 0))
    acc.count("nonzero_multipliers", info.get("nonzero_multipliers", 0))
    acc.count("lmis_checked", info.get("n_lmi", 0))
    for k in info.get("lmi_kinds", []):
        acc.count("lmi_" + k)
    # primal <= dual + tol (also part of C02; cheap here)
    prim = rec["inner"][0]["value"]
    tau = info.get("tau_identity")
    if prim is not None and tau is not None:
        held, viol = oracles.TOL[info["solver"]]
        sc = info["scale"]
        if prim - tau > viol * sc and not any(f["key"].startswith("identity") for f in findings):
            findings.append({"key": "primal_exceeds_dual", "what": "primal %.9g > identity constant %.9g" % (prim, tau),
                             "defect": prim - tau, "scale": sc, "grade": "violated"})
    # the certificate must also be the one of the LATEST solve when the same object is solved again after an edit
    if not any(f["grade"] == "violated" and not f["key"].startswith("identity_open") for f in findings) and rng.random() < 0.3:
        try:
            r2 = sb.resolve_after_edit(case, cfg, rng)
        except Exception:
            r2 = None
        if r2 is not None:
            rec2, out2 = r2
            acc.count("resolves_judged")
            f2, info2 = oracles.certificate_check(rec2, out2[1], cfg.get("mode", "dual"))
            for f in f2:
                if f["key"] not in oracles.C01_KNOWN_KEYS:
                    findings.append(dict(f, key="after_resolve:" + f["key"], what="second solve of the same object: " + f["what"]))
    return findings


def judge_record(acc, rec, value, mode):
    findings, info = oracles.certificate_check(rec, value, mode)
    acc.count("multipliers_checked", info.get("n_ineq", 0) + info.get("n_eq", 0) + info.get("n_lmi", 0))
    return findings


def run_shard(spec):
    res = sb.run_generic(spec, judge, config_fn=config_fn)
    if "replay" not in spec:
        acc = sb.Acc()
        sb.run_examples_under_monitor(spec, acc, judge_record, draws=0 if spec.get("tier") == "quick" else 6)
        r2 = acc.result()
        for k, v in r2["counters"].items():
            res["counters"][k] = res["counters"].get(k, 0) + v
        res["signatures"] = sorted(set(res["signatures"]) | set(r2["signatures"]))
        res["violations"] += r2["violations"]
        res["observations"] += r2["observations"]
    return res
