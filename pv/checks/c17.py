"""C17 - dual tables report each multiplier at the pair of points it belongs to."""
import re

import numpy as np

from pv.checks import _solvebase as sb

LEVEL = "exploration"
RULE = ("generated models over all 24 classes (named and unnamed points and functions, repeated evaluations, stationary "
        "points declared first or later) are solved; for every leaf function the tables of constraints and "
        "get_class_constraints_duals() are compared with the reference conditions (pv/ref/conditions.py): one table per "
        "documented condition, one row/column per recorded sample with the documented labels, entry (i,j) is the "
        "constraint whose canonical functional is the reference functional of the ordered pair (i,j) or 0 where the "
        "reference has none, the dual table entry equals that constraint's eval_dual() exactly, and every class "
        "constraint's name parses back to (function, condition, point ids) consistent with its position. "
        "distinct = distinct (class, #samples, naming pattern)")
ASSUMPTIONS = ["pv/ref/conditions.py condition names = the table names PEPit documents", "pv/canon.py"]
DECIDING_COUNTER = "functions_judged"
MIN_DECIDED = {"quick": 150, "thorough": 4000}
REQUIRED_COUNTERS = {"quick": {"classes_covered": 22}, "thorough": {"classes_covered": 24}}


def post_merge(counters, extra):
    counters["classes_covered"] = len(extra.get("classes", []))


def plan(tier, seed):
    return sb.plan(tier, seed, per_shard_quick=25, per_shard_thorough=1500)


def config_fn(rng):
    # the multipliers belong to the solve whatever value it is asked to return
    return {"wrapper": "cvxpy", "solver": "CLARABEL", "verbose": rng.choice([0, 0, 1]), "mode": rng.choice(["dual", "dual", "primal"])}


NAME_RE = re.compile(r"^IC_(?P<fid>.+?)_(?P<cond>[a-z_0-9]+)\((?P<pts>.*)\)$")


def judge_function(f, acc, label):
    """Returns findings for one leaf function after a finite solve."""
    import pandas as pd
    from PEPit.constraint import Constraint
    from pv.ref.conditions import reference
    from pv.ref.sym import E
    cls = type(f).__name__
    findings = []

    def F(key, what):
        findings.append({"key": "%s:%s" % (key, cls), "what": "%s: %s" % (cls, what), "grade": "violated"})

    conds, lmis = reference(f)
    n = len(f.list_of_points)
    by_name = {}
    for c in conds:
        by_name.setdefault(c["name"], []).append(c)
    if not conds:
        return findings
    tables = f.tables_of_constraints
    fid = f.get_name() or "Function_%s" % f.counter
    pt_names = [x.get_name() or "Point_%d" % i for i, (x, g, v) in enumerate(f.list_of_points)]
    try:
        duals = f.get_class_constraints_duals()
    except Exception as e:
        F("dual_table_accessor_raises", "get_class_constraints_duals() raised %s: %s" % (type(e).__name__, str(e)[:100]))
        duals = None
    lab = label
    current_ids = {id(c) for c in f.list_of_class_constraints}
    for cname, cl in by_name.items():
        acc.count("tables_expected")
        T = tables.get(cname)
        if T is None:
            F("dual_table_missing", "no table for the documented condition '%s' (%d constraints of that condition expected)" % (cname, len(cl)))
            continue
        if not isinstance(T, pd.DataFrame):
            F("table_not_a_dataframe", "table '%s' is a %s" % (cname, type(T).__name__))
            continue
        one_list = len(cl[0]["pair"]) == 1
        rows_idx = sorted(set(c["pair"][0] for c in cl)) if not one_list else [0]
        # expected shape: one-list (1, n); two lists (rows, n) with rows = n except stationary-based conditions
        if one_list:
            exp_shape = (1, n)
        elif cls in ("ConvexQGFunction", "RsiEbFunction") and cname in ("qg_convexity", "rsi", "eb"):
            exp_shape = (len(f.list_of_stationary_points), n)
        elif cls == "LinearOperator":
            exp_shape = (n, len(f.T.list_of_points))
        else:
            exp_shape = (n, n)
        if T.shape != exp_shape:
            F("table_shape", "table '%s' has shape %r, expected %r for %d samples" % (cname, T.shape, exp_shape, n))
            continue
        col_names = pt_names if cls != "LinearOperator" else [u.get_name() or "Point_%d" % j for j, (u, v, h) in enumerate(f.T.list_of_points)]
        if list(T.columns) != col_names:
            F("table_labels", "table '%s' columns %r, expected %r" % (cname, list(T.columns)[:6], col_names[:6]))
        ref_at = {}
        for c in cl:
            if one_list:
                ref_at[(0, c["pair"][0])] = c
            else:
                r = c["pair"][0]
                if exp_shape[0] != n and cls != "LinearOperator":
                    # row index among the stationary samples
                    st = [t for t in f.list_of_stationary_points]
                    r = [k for k, t in enumerate(st) if t is f.list_of_points[c["pair"][0]]][0]
                ref_at[(r, c["pair"][1])] = c
        D = duals.get(cname) if isinstance(duals, dict) else None
        if duals is not None and (D is None or not isinstance(D, pd.DataFrame) or D.shape != T.shape):
            F("dual_table_shape", "dual table '%s' missing or of another shape than the table of constraints" % cname)
            D = None
        for i in range(T.shape[0]):
            for j in range(T.shape[1]):
                acc.count("table_entries_checked")
                el = T.iloc[i, j]
                rc = ref_at.get((i, j))
                # symmetric conditions: the reference lists (i,j) with i<j only; PEPit may hold it at either
                if rc is None and not one_list and (j, i) in ref_at and cls != "LinearOperator" and exp_shape == (n, n) \
                        and isinstance(el, Constraint):
                    rc = ref_at[(j, i)]
                    sym_ok = E.of(el.expression).key(el.equality_or_inequality, lab) == rc["expr"].key(rc["sense"], lab)
                    if not sym_ok:
                        F("table_entry_wrong_constraint", "table '%s' entry (%d,%d) holds a constraint that is not the one of that pair" % (cname, i, j))
                    continue
                if isinstance(el, Constraint) and id(el) not in current_ids:
                    F("table_holds_constraint_of_an_earlier_solve", "table '%s' entry (%d,%d) holds a constraint that is not among the class "
                      "constraints generated for (and sent at) the latest solve" % (cname, i, j))
                    continue
                if isinstance(el, Constraint):
                    if rc is None:
                        F("table_entry_unexpected_constraint", "table '%s' entry (%d,%d) holds a constraint, the documented condition has none there" % (cname, i, j))
                        continue
                    k1 = E.of(el.expression).key(el.equality_or_inequality, lab)
                    k2 = rc["expr"].key(rc["sense"], lab)
                    if k1 != k2:
                        F("table_entry_wrong_constraint", "table '%s' entry (%d,%d) holds a constraint that is not the one of that ordered pair" % (cname, i, j))
                    # name
                    nm = el.get_name()
                    m = NAME_RE.match(nm or "")
                    want_pts = [pt_names[p] for p in rc["pair"]] if cls != "LinearOperator" else None
                    if m is None:
                        F("class_constraint_name_unparsable", "class constraint name %r does not identify function, condition and points" % nm)
                    else:
                        got_pts = [s.strip() for s in m.group("pts").split(",")]
                        full = "IC_%s_%s" % (fid, cname)
                        if not nm.startswith(full + "("):
                            F("class_constraint_name_wrong", "name %r, expected prefix %r" % (nm, full))
                        elif want_pts is not None and got_pts != want_pts:
                            F("class_constraint_name_wrong_points", "name %r at table position (%d,%d), expected points %r" % (nm, i, j, want_pts))
                    if D is not None:
                        dv = D.iloc[i, j]
                        try:
                            ev = el.eval_dual()
                        except Exception as e:
                            F("dual_missing_after_solve", "eval_dual raised %r on a class constraint after a finite solve" % (e,))
                            continue
                        acc.count("dual_entries_checked")
                        if not (float(dv) == float(ev)):
                            F("dual_table_entry_wrong", "dual table '%s' entry (%d,%d) = %r, the constraint's multiplier is %r" % (cname, i, j, dv, ev))
                else:
                    if rc is not None and rc["expr"].key(rc["sense"], lab) is not None:
                        # a pair for which the documented condition exists must hold its constraint
                        if not (not one_list and exp_shape == (n, n) and (j, i) in ref_at and i > j):
                            F("table_entry_missing_constraint%s" % (":diagonal" if (not one_list and i == j) else ""),
                              "table '%s' entry (%d,%d) is %r although a constraint exists for that pair" % (cname, i, j, el))
                    if D is not None and float(D.iloc[i, j]) != 0.0:
                        F("dual_table_entry_wrong", "dual table '%s' entry (%d,%d) = %r where no constraint exists" % (cname, i, j, D.iloc[i, j]))
    extra_tables = set()
    for tn, tb in tables.items():
        if tn in by_name:
            continue
        # a table of a documented condition that has no instance for these samples (a single sample, no
        # stationary point ...) holds no constraint: only tables holding constraints nobody documents are flagged
        try:
            holds = any(isinstance(el, Constraint) for el in np.asarray(tb).ravel())
        except Exception:
            holds = True
        if holds:
            extra_tables.add(tn)
    if extra_tables:
        F("undocumented_table", "tables %r do not correspond to a documented condition" % sorted(extra_tables))
    # every class constraint must be named
    for c in f.list_of_class_constraints:
        if c.get_name() is None:
            F("class_constraint_unnamed", "a class constraint has no name")
            break
    return findings


def judge(acc, case, prog, cfg, rng):
    findings = judge_all(acc, case, rng)
    # the tables must follow a second solve of the same object (no new sample recorded in between)
    if not findings and rng.random() < 0.6:
        import contextlib
        import io
        from pv import driver
        from pv.monitors import is_optimal_status
        pep = case.machine.pep
        ret = case.outcome[1]
        try:
            met = pep.list_of_performance_metrics[0]
            pep.add_constraint(met <= (0.5 * ret if ret > 1e-6 else ret - 0.5))
            bd = driver.boundary()
            n0 = len(bd.records)
            with contextlib.redirect_stdout(io.StringIO()):
                out = case.machine.do_solve(driver.solve_kwargs(cfg))
            rec = bd.records[n0]
            sts = [str(x["status"]).lower() for x in rec["inner"]]
            if out[0] == "ok" and out[1] is not None and all(is_optimal_status(s) for s in sts):
                acc.count("resolves_judged")
                for f in judge_all(acc, case, rng):
                    findings.append(dict(f, key="after_resolve:" + f["key"], what="after a second solve: " + f["what"]))
        except Exception as e:
            acc.count("resolve_errors")
    return findings


def judge_all(acc, case, rng):
    from PEPit.function import Function
    from pv import canon
    label, idx = canon.sym_label_factory()
    findings = []
    # the identifier that prefixes constraint names and labels the tables identifies ONE function (the name the user gave, a
    # default one otherwise - which default is the library's business): two functions share one only if the user named them alike
    given = getattr(case.machine, "user_function_names", {})
    by_id = {}
    for f in Function.list_of_functions:
        if not f.get_is_leaf() or type(f).__name__ == "Function" or id(f) not in given:
            continue
        acc.count("function_identifiers_checked")
        fid_ = f.get_name() or "Function_%s" % f.counter
        by_id.setdefault(fid_, []).append(f)
    for fid_, fs_ in by_id.items():
        if len(fs_) > 1 and len({given[id(f)] for f in fs_}) > 1 or (len(fs_) > 1 and all(given[id(f)] is None for f in fs_)):
            findings.append({"key": "two_functions_share_one_identifier", "grade": "violated",
                             "what": "%d functions (%s) are all identified as %r in constraint names and dual tables"
                                     % (len(fs_), ", ".join(type(f).__name__ for f in fs_), fid_)})
    for f in Function.list_of_functions:
        if not f.get_is_leaf() or type(f).__name__ == "Function":
            continue
        if not f.list_of_points:
            continue
        acc.count("functions_judged")
        acc.extra.setdefault("classes", [])
        if type(f).__name__ not in acc.extra["classes"]:
            acc.extra["classes"].append(type(f).__name__)
        named = sum(1 for (x, g, v) in f.list_of_points if x.get_name())
        acc.signatures.add("%s|%d|%s|%s" % (type(f).__name__, len(f.list_of_points), "fn" if f.get_name() else "anon",
                                            "all" if named == len(f.list_of_points) else ("some" if named else "none")))
        try:
            ff = judge_function(f, acc, label)
        except Exception as e:
            import traceback
            acc.count("oracle_errors")
            acc.observations.append("c17 oracle error on %s: %s" % (type(f).__name__, traceback.format_exc()[-400:]))
            continue
        seen = set()
        for x in ff:
            if x["key"] not in seen:
                seen.add(x["key"])
                findings.append(x)
    return findings


def run_shard(spec):
    return sb.run_generic(spec, judge, config_fn=config_fn, max_viol=12)
