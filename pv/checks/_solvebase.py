"""Common plan / shard loop for the checks that observe real solves of generated programs (C01, C02, C17...)."""
import time
import traceback

from pv import gen, driver
from pv.classes import CLASSES, FUNCTION_CLASSES, OPERATOR_CLASSES

NSHARDS = 16


def directed_cases():
    """Deterministic directed core: each class through a suitable family, each step kind, LMIs, multi-metric."""
    cases = []
    for cls in CLASSES:
        if cls == "LinearOperator":
            cases.append(("linear", {}, "d:%s" % cls))
        elif CLASSES[cls][0] == "operator":
            cases.append(("operator", {"cls": cls}, "d:%s" % cls))
            cases.append(("soup", {"cls": cls}, "d:soup:%s" % cls))
        else:
            if cls in gen.SMOOTHISH + ["RsiEbFunction", "BlockSmoothConvexFunction", "ConvexQGFunction",
                                       "ConvexLipschitzFunction"]:
                cases.append(("method", {"cls": cls, "mode": "single"}, "d:%s" % cls))
            else:
                cases.append(("method", {"cls": "SmoothStronglyConvexFunction", "cls2": cls, "mode": "sum"}, "d:sum:%s" % cls))
            cases.append(("soup", {"cls": cls}, "d:soup:%s" % cls))
    for k in range(10):
        cases.append(("method", {"cls": "SmoothStronglyConvexFunction", "mode": "single", "box": True}, "d:ssc%d" % k))
    # the same models in other units: a constraint multiplied by 1e9 / 1e6 / 1e-4 (multipliers of 1e-9 ... 1e4)
    for k, sc in enumerate([1e9, 1e9, 1e6, 1e-4, 1e9, 1e3]):
        cases.append(("method", {"cls": ["SmoothStronglyConvexFunction", "SmoothConvexFunction", "ConvexLipschitzFunction"][k % 3],
                                 "mode": "single", "ic_scale": sc, "ic": "dist"}, "d:scaled%d" % k))
    # ... and with the configuration pinned (dual mode, accurate solver): the multiplier of the rescaled constraint is ~1e-9
    for k, sc in enumerate([1e9, 1e9, 1e9, 1e10, 1e8, 1e9]):
        cases.append(("method", {"cls": ["SmoothStronglyConvexFunction", "SmoothConvexFunction", "ConvexLipschitzFunction"][k % 3],
                                 "mode": "single", "ic_scale": sc, "ic": "dist",
                                 "cfg": {"mode": "dual", "solver": "CLARABEL", "wrapper": "cvxpy", "dimred": None}}, "d:scaled_dual%d" % k))
    for k in range(12):
        cases.append(("soup", {"same_name_lmis": True,
                               "cfg": {"mode": "dual", "solver": "CLARABEL", "wrapper": "cvxpy", "dimred": None} if k % 3 else None},
                      "d:same_name_lmis%d" % k))
    cases.append(("big", {"N": 11}, "d:big"))
    for cls in CLASSES:
        for variant in (0, 1):
            cases.append(("classcover", {"cls": cls, "variant": variant}, "d:cover:%s:%d" % (cls, variant)))
    return cases


def plan(tier, seed, per_shard_quick, per_shard_thorough, extra=None):
    n = per_shard_quick if tier == "quick" else per_shard_thorough
    specs = []
    dc = directed_cases()
    for s in range(NSHARDS):
        spec = {"name": "s%d" % s, "shard": s, "seed": seed, "n_random": n, "tier": tier,
                "directed": [i for i in range(len(dc)) if i % NSHARDS == s]}
        if extra:
            spec.update(extra)
        specs.append(spec)
    return specs


def resolve_after_edit(case, cfg, rng):
    """Edit the solved model so that its optimum moves (bound the first metric below the value found) and solve the
    same object again.  Returns (record, outcome) of the second solve, or None when it is not decidable."""
    import contextlib
    import io
    from pv.monitors import is_optimal_status
    pep = case.machine.pep
    ret = case.outcome[1]
    if not pep.list_of_performance_metrics:
        return None
    met = pep.list_of_performance_metrics[0]
    if rng.random() < 0.4:
        # one more performance metric, smaller than the others: the objective of the next solve is the minimum of all of them
        pep.set_performance_metric(0.5 * met if ret > 1e-6 else met - 0.5)
    else:
        pep.add_constraint(met <= (0.5 * ret if ret > 1e-6 else ret - 0.5))
    bd = driver.boundary()
    n0 = len(bd.records)
    with contextlib.redirect_stdout(io.StringIO()):
        out = case.machine.do_solve(driver.solve_kwargs(cfg))
    if len(bd.records) <= n0:
        return None
    rec = bd.records[n0]
    sts = [str(x["status"]).lower() for x in rec["inner"]]
    if out[0] == "ok" and out[1] is not None and sts and all(is_optimal_status(s) for s in sts):
        return rec, out
    return None


class Acc(object):
    def __init__(self):
        self.counters = {}
        self.signatures = set()
        self.samples = []
        self.violations = []
        self.observations = []
        self.extra = {}

    def count(self, k, n=1):
        self.counters[k] = self.counters.get(k, 0) + n

    def result(self):
        return {"counters": self.counters, "signatures": sorted(self.signatures), "samples": self.samples,
                "violations": self.violations, "observations": self.observations, "extra": self.extra}


def iter_cases(spec):
    """Yield (tag, rng, prog) for the directed core of this shard then the seeded part."""
    import random
    dc = directed_cases()
    for i in spec.get("directed", []):
        fam, opts, tag = dc[i]
        opts = dict(opts)
        force = opts.pop("cfg", None)
        rng = random.Random("directed/%s" % tag)
        prog = gen.gen_program(rng, fam, opts)
        if force:
            prog["force_cfg"] = force
        yield tag, rng, prog
    for i in range(spec["n_random"]):
        rng = driver.case_rng(spec["seed"], spec["name"], i)
        yield "r%d" % i, rng, gen.gen_program(rng)


def run_examples_under_monitor(spec, acc, judge_record, draws=0):
    """The shipped examples (realistic model shapes) run with the boundary monitor on; the record of the LAST solve of
    each call is handed to judge_record(acc, rec, value, mode) while the model is still the live one."""
    import contextlib
    import importlib
    import inspect
    import io
    import random
    import warnings
    from pv.monitors import is_optimal_status
    from pv.ref import examples_table as ET
    bd = driver.boundary()
    bd.default_solver = "CLARABEL"
    try:
        for i, e in enumerate(ET.EXAMPLES):
            if i % NSHARDS != spec.get("shard", 0):
                continue
            for k in range(draws + 1):
                rng = random.Random("exmon/%d/%s/%d" % (spec.get("seed", 0), e["name"], k))
                kw = dict(e["base"]) if k == 0 else e["gen"](rng)
                fn = getattr(importlib.import_module(e["module"]), e["func"])
                params = inspect.signature(fn).parameters
                extra = {a: b for a, b in (("wrapper", "cvxpy"), ("solver", "CLARABEL"), ("verbose", -1)) if a in params}
                n0 = len(bd.records)
                try:
                    with contextlib.redirect_stdout(io.StringIO()), warnings.catch_warnings():
                        warnings.simplefilter("ignore")
                        fn(**kw, **extra)
                except Exception as ex:
                    acc.count("example_exceptions:" + type(ex).__name__)
                    continue
                recs = bd.records[n0:]
                if not recs:
                    continue
                rec = recs[-1]
                sts = [str(x["status"]).lower() for x in rec["inner"]]
                if "ret" not in rec or rec["ret"] is None or not sts or not all(is_optimal_status(s_) for s_ in sts):
                    acc.count("examples_skipped_not_optimal")
                    continue
                mode = rec["opts"].get("return_primal_or_dual", "dual")
                try:
                    findings = judge_record(acc, rec, rec["ret"], mode)
                except Exception as ex:
                    acc.count("oracle_errors")
                    acc.observations.append("example %s: oracle error %r" % (e["name"], ex))
                    continue
                acc.count("examples_judged")
                acc.count("decided")
                acc.signatures.add("example|%s|%d" % (e["name"], k))
                for f in findings:
                    if f["grade"] == "violated":
                        acc.count("violated_items")
                        if len(acc.violations) < 12:
                            acc.violations.append({"key": f["key"], "what": "example %s(%s): %s" % (e["func"], kw, f["what"]),
                                                   "example": e["name"], "kwargs": kw, "finding": f})
                    else:
                        acc.count("marginal_items")
    finally:
        bd.default_solver = None


def run_generic(spec, judge, config_fn=None, max_viol=8, on_undecidable=None):
    """judge(acc, case, prog, cfg, rng) -> list of findings (dict with key/what/grade)."""
    acc = Acc()
    if "replay" in spec:
        w = spec["replay"]
        items = [("replay", __import__("random").Random(0), w["program"], w["config"])]
    else:
        items = None
    t0 = time.time()

    def handle(tag, rng, prog, cfg):
        acc.count("programs")
        try:
            case = driver.run_case_with_fallback(prog, cfg)
        except Exception as e:
            acc.count("harness_errors")
            acc.observations.append("harness error %r in %s" % (e, tag))
            return
        cfg = case.cfg
        if case.outcome[0] == "build_exc":
            acc.count("build_exceptions")
            acc.observations.append("build exception %r (%s)" % (case.outcome[1], prog["meta"]))
            return
        if on_undecidable is not None and not case.decidable and case.rec is not None:
            for f in on_undecidable(acc, case, prog, cfg) or []:
                acc.count("violated_items")
                if len(acc.violations) < max_viol:
                    acc.violations.append(driver.strip_witness(prog, cfg, f))
        if case.outcome[0] == "exc":
            acc.count("solve_exceptions:" + type(case.outcome[1]).__name__)
            return
        if case.outcome[1] is None:
            acc.count("no_value:%s" % case.status)
            return
        acc.count("finite")
        if case.fell_back:
            acc.count("fell_back_to_scs")
        if not case.decidable:
            acc.count("skipped_not_optimal:%s" % case.status)
            return
        try:
            findings = judge(acc, case, prog, cfg, rng)
        except Exception as e:
            acc.count("oracle_errors")
            acc.observations.append("oracle error %s in %s: %s" % (repr(e)[:200], tag, traceback.format_exc()[-600:]))
            return
        acc.count("decided")
        acc.count("decided:" + cfg.get("solver", "?") + ":" + cfg.get("wrapper", "?"))
        sig = gen.signature(prog) + "|" + "/".join(str(cfg.get(k)) for k in ("wrapper", "solver", "mode", "dimred"))
        acc.signatures.add(sig)
        if len(acc.samples) < 2:
            acc.samples.append({"tag": tag, "meta": prog["meta"], "config": cfg, "n_ops": len(prog["ops"]),
                                "returned": case.outcome[1], "n_sent": len(case.rec["sent"]),
                                "ops_head": prog["ops"][:12]})
        for f in findings:
            if f["grade"] == "violated":
                if len(acc.violations) < max_viol:
                    acc.violations.append(driver.strip_witness(prog, cfg, f))
                acc.count("violated_items")
            else:
                acc.count("marginal_items")

    if items is not None:
        for tag, rng, prog, cfg in items:
            handle(tag, rng, prog, cfg)
    else:
        for tag, rng, prog in iter_cases(spec):
            cfg = (config_fn or driver.random_config)(rng)
            for k_, v_ in (prog.pop("force_cfg", None) or {}).items():
                if v_ is None:
                    cfg.pop(k_, None)
                else:
                    cfg[k_] = v_
            handle(tag, rng, prog, cfg)
    bd = driver.boundary()
    acc.extra["monitor_events"] = dict(bd.counts)
    acc.extra["shard_wall_s"] = round(time.time() - t0, 1)
    return acc.result()
