"""C13 - solving again gives fresh, consistent answers."""
import contextlib
import io
import json
import os
import random
import subprocess
import sys
import tempfile
import time
import warnings

import numpy as np
from collections import Counter

LEVEL = "exploration"
RULE = ("schedules on ONE problem object: 2-5 solves interleaved with edits (replace the initial condition, add a "
        "metric with new oracle calls, add/remove a constraint, add an LMI, make the model unbounded and restore it), "
        "option changes (primal/dual, verbosity, solver, dimension reduction), injected solver failures and evaluations of "
        "held objects; after each finite solve the C02 oracle (held objects vs latest leaves, feasibility) and the C01 "
        "oracle (certificate of the latest solve) run; the multiset of functionals/LMIs crossing the wrapper boundary "
        "and the returned value are compared with those of a freshly built equivalent model run in another process; "
        "after a solve without value the accessors must raise. distinct = distinct (program signature, edit kinds)")
ASSUMPTIONS = ["pv/canon.py", "thresholds of DESIGN 2.8", "fresh equivalent = same declarations and edits replayed "
               "without the earlier solves, in a new interpreter"]
DECIDING_COUNTER = "resolves_judged"
MIN_DECIDED = {"quick": 60, "thorough": 2000}
REQUIRED_COUNTERS = {"quick": {"fresh_comparisons": 30, "no_value_solves_judged": 5},
                     "thorough": {"fresh_comparisons": 1000, "no_value_solves_judged": 100}}
NSHARDS = 16
HERE = os.path.dirname(os.path.abspath(__file__))


def plan(tier, seed):
    n = 7 if tier == "quick" else 300
    return [{"name": "s%d" % i, "seed": seed, "shard": i, "n": n} for i in range(NSHARDS)]


def fresh_run(prog, cfg, schedule):
    from pv import main as pvmain
    d = tempfile.mkdtemp(prefix="c13_", dir=pvmain.SCRATCH if os.path.isdir(pvmain.SCRATCH) else None)
    try:
        inp, outp = os.path.join(d, "in.json"), os.path.join(d, "out.json")
        with open(inp, "w") as f:
            json.dump({"program": prog, "config": cfg, "schedule": schedule}, f)
        r = subprocess.run([sys.executable, "-B", os.path.join(os.path.dirname(HERE), "fresh.py"), inp, outp],
                           env=pvmain.shard_env(), capture_output=True, text=True, timeout=600)
        if r.returncode != 0 or not os.path.exists(outp):
            return None, (r.stderr or "")[-400:]
        with open(outp) as f:
            return json.load(f), None
    finally:
        import shutil
        shutil.rmtree(d, ignore_errors=True)


def base_program(rng):
    from pv import gen
    r = rng.random()
    if r < 0.2:
        return gen.gen_program(rng, "method", {"cls": "SmoothStronglyConvexQuadraticFunction", "mode": "single"})
    if r < 0.4:
        return gen.gen_program(rng, "method", {"cls": "BlockSmoothConvexFunction", "mode": "single"})
    if r < 0.5:
        return gen.gen_program(rng, "operator", {"cls": rng.choice(["SymmetricLinearOperator", "SkewSymmetricLinearOperator"])})
    if r < 0.58:
        return gen.gen_program(rng, "linear")
    return gen.gen_program(rng, rng.choice(["method", "method", "operator", "soup"]))


def make_schedule(rng, prog):
    """List of ops (edits, faults, evals, solves) + list of edit kinds."""
    regs = prog["meta"]["regs"]
    n = [regs["n"] + 1000]

    def nm(p):
        n[0] += 1
        return "%s%d" % (p, n[0])

    points = list(regs["points"])
    exprs = list(regs["exprs"])
    funcs = [f for f in regs["funcs"]]
    init_cons = [o["out"] for o in prog["ops"] if o["op"] == "cons" and o.get("initial")]
    init_lhs = {o["out"]: o["lhs"] for o in prog["ops"] if o["op"] == "cons" and o.get("initial")}
    sched, kinds = [], []
    nsolves = rng.randint(2, 4)

    def solve_opts():
        o = {"verbose": rng.choice([0, 0, 1]), "solver": rng.choice(["CLARABEL", "CLARABEL", "CLARABEL", "SCS"]),
             "return_primal_or_dual": rng.choice(["dual", "primal"])}
        if rng.random() < 0.15:
            o["dimension_reduction_heuristic"] = rng.choice(["trace", "logdet1"])
        if rng.random() < 0.3:
            # a solver-specific keyword (documented: "additional solver-specific arguments"), generous enough to change nothing
            if o["solver"] == "SCS":
                o["max_iters"] = rng.choice([20000, 50000])
            else:
                o["max_iter"] = rng.choice([300, 500])
        return o

    sched.append({"op": "solve", "opts": solve_opts()})
    unbounded_pending = None
    for s in range(1, nsolves):
        if unbounded_pending is not None:
            # restore the initial condition dropped before the previous solve
            lhs, rad = unbounded_pending
            k = nm("k")
            sched.append({"op": "cons", "out": k, "lhs": lhs, "rel": "<=", "rhs": rad, "owner": "pep", "initial": True})
            init_cons.append(k)
            init_lhs[k] = lhs
            unbounded_pending = None
            kinds.append("restore_initial_condition")
        else:
            kind = rng.choice(["none", "replace_ic", "add_metric", "add_cons", "add_lmi", "more_samples", "fault_none", "more_samples",
                               "make_unbounded", "eval_only", "drop_cons"])
            if kind == "replace_ic" and init_cons:
                k = init_cons.pop(rng.randrange(len(init_cons)))
                sched.append({"op": "drop_cons", "k": k})
                k2 = nm("k")
                sched.append({"op": "cons", "out": k2, "lhs": init_lhs[k], "rel": "<=", "rhs": rng.choice([4.0, 0.25, 2.0]),
                              "owner": "pep", "initial": True})
                init_cons.append(k2)
                init_lhs[k2] = init_lhs[k]
            elif kind == "make_unbounded" and init_cons:
                k = init_cons.pop(rng.randrange(len(init_cons)))
                sched.append({"op": "drop_cons", "k": k})
                unbounded_pending = (init_lhs[k], rng.choice([1.0, 2.0]))
            elif kind == "add_metric" and exprs:
                e = nm("e")
                sched.append({"op": "expr", "out": e, "terms": [[1.0, "e", rng.choice(exprs)], [0.5, "sq", rng.choice(points)]]})
                sched.append({"op": "metric", "e": e})
                exprs.append(e)
            elif kind == "add_cons" and points:
                e = nm("e")
                sched.append({"op": "expr", "out": e, "terms": [[1.0, "sq", rng.choice(points)]]})
                sched.append({"op": "cons", "out": nm("k"), "lhs": e, "rel": "<=", "rhs": rng.choice([0.5, 1.0, 3.0]), "owner": "pep"})
            elif kind == "drop_cons":
                ks = [o["out"] for o in prog["ops"] if o["op"] == "cons" and o.get("owner") == "pep" and not o.get("initial")]
                if ks:
                    sched.append({"op": "drop_cons", "k": rng.choice(ks)})
                else:
                    kind = "none"
            elif kind == "add_lmi" and points:
                p, q = rng.choice(points), rng.choice(points)
                d1, o1, d2 = nm("e"), nm("e"), nm("e")
                sched.append({"op": "expr", "out": d1, "terms": [[1.0, "sq", p], [1.0, "const"]]})
                sched.append({"op": "expr", "out": o1, "terms": [[0.5, "ip", p, q]]})
                sched.append({"op": "expr", "out": d2, "terms": [[2.0, "const"]]})
                sched.append({"op": "lmi", "out": nm("m"), "rows": [[d1, o1], [o1, d2]], "owner": "pep"})
            elif kind == "more_samples" and funcs and points:
                f = rng.choice(funcs)
                if f[1] != "LinearOperator":
                    g, v = nm("g"), nm("v")
                    sched.append({"op": "oracle", "f": f[0], "x": rng.choice(points), "g": g, "v": v})
                    points.append(g)
                    e = nm("e")
                    sched.append({"op": "expr", "out": e, "terms": [[1.0, "sq", g]]})
                    sched.append({"op": "cons", "out": nm("k"), "lhs": e, "rel": "<=", "rhs": 9.0, "owner": "pep"})
            elif kind == "fault_none":
                sched.append({"op": "fault", "kind": "none"})
            elif kind == "eval_only":
                sched.append({"op": "evalall"})
            kinds.append(kind)
        sched.append({"op": "solve", "opts": solve_opts()})
    return sched, kinds


def run_shard(spec):
    from pv import gen, driver, oracles, canon
    from pv.fresh import sent_keys
    from pv.monitors import is_optimal_status
    from pv.checks.c16 import judge_accessors, reachable_objects
    t0 = time.time()
    counters = {"resolves_judged": 0, "fresh_comparisons": 0, "no_value_solves_judged": 0, "schedules": 0}
    sigs, viol, samples, notes = set(), [], [], []
    bd = driver.boundary()
    seeds = [spec["replay"]["rng"]] if "replay" in spec else \
        ["c13/%d/%d/%d" % (spec["seed"], spec["shard"], i) for i in range(spec["n"])]

    def V(key, what, **kw):
        d = {"key": key, "what": what}
        d.update(kw)
        if len(viol) < 12:
            viol.append(d)

    for sd in seeds:
        rng = random.Random(sd)
        prog = base_program(rng)
        sched, kinds = make_schedule(rng, prog)
        m = gen.Machine()
        buf = io.StringIO()
        try:
            with contextlib.redirect_stdout(buf), warnings.catch_warnings():
                warnings.simplefilter("ignore")
                m.run(prog["ops"])
        except Exception as e:
            counters["build_exceptions"] = counters.get("build_exceptions", 0) + 1
            continue
        counters["schedules"] += 1
        executed = []       # edit ops executed so far (for the fresh equivalent)
        k_solve = 0
        fault = {"next": None}
        bd.fault = lambda rec, idx: fault["next"] if idx == 0 else None
        wit = {"rng": sd, "edit_kinds": kinds, "program_meta": prog["meta"].get("classes")}
        abort = False
        for op in sched:
            if abort:
                break
            if op["op"] == "fault":
                fault["next"] = op["kind"]
                continue
            if op["op"] == "evalall":
                from PEPit.constraint import Constraint as _C
                from PEPit.psd_matrix import PSDMatrix as _M
                for o in driver.held_objects(m) + [v_ for v_ in m.regs.values() if isinstance(v_, (_C, _M))]:
                    try:
                        o.eval()
                    except Exception:
                        pass
                continue
            if op["op"] != "solve":
                try:
                    with contextlib.redirect_stdout(buf):
                        m.step(op)
                    executed.append(op)
                except Exception as e:
                    counters["edit_exceptions:" + type(e).__name__] = counters.get("edit_exceptions:" + type(e).__name__, 0) + 1
                    abort = True
                continue
            # ---- a solve
            n0 = len(bd.records)
            injected = fault["next"]
            with contextlib.redirect_stdout(buf), warnings.catch_warnings():
                warnings.simplefilter("ignore")
                out = m.do_solve(dict(op["opts"]))
            fault["next"] = None
            k_solve += 1
            if len(bd.records) <= n0:
                abort = True
                continue
            rec = bd.records[n0]
            if out[0] == "exc":
                counters["solve_exceptions:" + type(out[1]).__name__] = counters.get("solve_exceptions:" + type(out[1]).__name__, 0) + 1
                if type(out[1]).__name__ not in ("SolverError",):
                    # a solve that raises on a re-solve although it is a plain model
                    notes.append("solve %d raised %r (%s)" % (k_solve, out[1], kinds))
                abort = True
                continue
            sts = [str(x["status"]).lower() for x in rec["inner"]]
            mode = op["opts"].get("return_primal_or_dual", "dual")
            # the solver-specific keywords of THIS call, and nothing remembered from an earlier call, are what reaches the solver
            named = ("wrapper", "return_primal_or_dual", "verbose", "dimension_reduction_heuristic", "eig_regularization",
                     "tol_dimension_reduction")
            want_kw = {k_: v_ for k_, v_ in op["opts"].items() if k_ not in named}
            for x in rec["inner"]:
                if "kw" in x and rec.get("wrapper_cls") in (None, "CvxpyWrapper"):
                    counters["solver_keywords_compared"] = counters.get("solver_keywords_compared", 0) + 1
                    if x["kw"] != want_kw and k_solve > 1:
                        V("solver_options_of_an_earlier_solve_reach_the_solver", "solve #%d was called with the solver keywords %r, the solver "
                          "received %r" % (k_solve, want_kw, x["kw"]), solve_index=k_solve, **wit)
                        break
            if out[1] is None:
                # (d) accessors behave as on a never-solved model
                if k_solve > 1:
                    counters["no_value_solves_judged"] += 1
                    acc, sg, vv = {}, set(), []
                    # objects still part of the model (a constraint removed by an edit keeps its old multiplier:
                    # it is no longer in the model, so it is outside the statement)
                    from PEPit.constraint import Constraint
                    from PEPit.psd_matrix import PSDMatrix
                    objs = [(src, o) for (src, o) in reachable_objects(m)
                            if not (src == "reg" and isinstance(o, (Constraint, PSDMatrix)))]
                    judge_accessors(objs, "after_resolve_without_value", acc, sg, vv, None)
                    counters["accessor_calls_after_no_value"] = counters.get("accessor_calls_after_no_value", 0) + acc.get("accessor_calls_judged", 0)
                    for v in vv[:2]:
                        V("stale_solution_after_failed_resolve:" + v["key"].split(":")[1], v["what"] + " (injected=%s)" % injected, **wit)
                continue
            if not all(is_optimal_status(s) for s in sts):
                counters["skipped_not_optimal"] = counters.get("skipped_not_optimal", 0) + 1
                continue
            if k_solve == 1:
                counters["first_solves"] = counters.get("first_solves", 0) + 1
            else:
                counters["resolves_judged"] += 1
            # (a) held objects + feasibility against the latest solution; certificate of the latest solve
            try:
                pf, pinfo = oracles.primal_check(rec, out[1], mode, held_objects=driver.held_objects(m))
                cf, cinfo = oracles.certificate_check(rec, out[1], mode)
            except Exception as e:
                counters["oracle_errors"] = counters.get("oracle_errors", 0) + 1
                notes.append("oracle error %r" % (e,))
                continue
            for f in pf + cf:
                if f["key"] in oracles.C01_KNOWN_KEYS:
                    # the C01 known finding (LMI not symmetric as written) is not specific to re-solving
                    counters["c01_known_mechanism_seen"] = counters.get("c01_known_mechanism_seen", 0) + 1
                    continue
                if f["grade"] == "violated" and k_solve > 1:
                    V("after_resolve:" + f["key"], "solve #%d: %s" % (k_solve, f["what"]), solve_index=k_solve, **wit)
                elif f["grade"] == "violated":
                    counters["first_solve_findings(other properties)"] = counters.get("first_solve_findings(other properties)", 0) + 1
            # constraints / LMIs the user holds - also those an edit removed from the model, or that were never added to it -
            # evaluate to the LATEST solution: their leaves are leaves of this model
            if k_solve > 1:
                from PEPit.constraint import Constraint as _C
                from PEPit.psd_matrix import PSDMatrix as _M
                from PEPit.point import Point as _P
                from PEPit.expression import Expression as _E
                from pv import canon as _canon
                try:
                    pv_ = {id(p_): np.asarray(p_.eval(), dtype=float) for p_ in _P.list_of_leaf_points}
                    ev_ = {id(e_): float(e_.eval()) for e_ in _E.list_of_leaf_expressions}
                except Exception:
                    pv_ = None
                fam_ = oracles.solver_family(rec)
                sc_ = 1.0 + max([float(np.max(np.abs(v_), initial=0.0)) ** 2 for v_ in pv_.values()] + [abs(x_) for x_ in ev_.values()] + [0.0]) if pv_ is not None else 1.0
                for nm_, o_ in (list(m.regs.items()) if pv_ is not None else []):
                    try:
                        if isinstance(o_, _C):
                            got_ = float(o_.eval())
                            want_ = _canon.expr_value_assign(o_.expression, pv_, ev_)
                            counters["held_constraints_evaluated_after_resolve"] = counters.get("held_constraints_evaluated_after_resolve", 0) + 1
                            if oracles._grade(abs(got_ - want_), sc_ * (1.0 + abs(want_)), fam_) == "violated":
                                V("after_resolve:held_constraint_eval_stale", "solve #%d: a held constraint evaluates to %.9g, the latest "
                                  "solution gives %.9g" % (k_solve, got_, want_), solve_index=k_solve, **wit)
                        elif isinstance(o_, _M):
                            got_ = np.asarray(o_.eval(), dtype=float)
                            want_ = np.array([[_canon.expr_value_assign(o_[i_, j_], pv_, ev_) for j_ in range(o_.shape[1])] for i_ in range(o_.shape[0])])
                            counters["held_lmis_evaluated_after_resolve"] = counters.get("held_lmis_evaluated_after_resolve", 0) + 1
                            d_ = float(np.max(np.abs(got_ - want_), initial=0.0))
                            if oracles._grade(d_, sc_ * (1.0 + float(np.max(np.abs(want_), initial=0.0))), fam_) == "violated":
                                V("after_resolve:held_lmi_eval_stale", "solve #%d: a held LMI evaluates %.3e away from the latest solution"
                                  % (k_solve, d_), solve_index=k_solve, **wit)
                    except _canon.CanonError:
                        pass
                    except KeyError:
                        pass
                    except ValueError:
                        pass
            # the per-function dual tables (the user's view of the certificate) must refer to the constraints of THIS solve
            if k_solve > 1:
                import pandas as pd
                from PEPit.function import Function
                from PEPit.constraint import Constraint
                for fn in Function.list_of_functions:
                    if not fn.get_is_leaf():
                        continue
                    cur = {id(c) for c in fn.list_of_class_constraints}
                    stale = 0
                    for tname, tb in fn.tables_of_constraints.items():
                        if isinstance(tb, pd.DataFrame):
                            stale += sum(1 for el in tb.to_numpy().ravel() if isinstance(el, Constraint) and id(el) not in cur)
                    counters["dual_table_entries_checked_after_resolve"] = counters.get("dual_table_entries_checked_after_resolve", 0) + len(cur)
                    if stale:
                        V("dual_tables_refer_to_an_earlier_solve:" + type(fn).__name__,
                          "solve #%d: %d entries of the tables of constraints of a %s are constraints of an earlier solve (their multipliers are "
                          "not those of the latest certificate)" % (k_solve, stale, type(fn).__name__), solve_index=k_solve, **wit)
                        break
            # (b)(c) compare with a freshly built equivalent model (last solve always, others sometimes)
            is_last = op is sched[-1]
            if k_solve > 1 and (is_last or rng.random() < 0.35) and injected is None:
                keys = sent_keys(m, rec)
                cfg = {"keys": True}
                fresh, err = fresh_run(prog, cfg, executed + [{"op": "solve", "opts": op["opts"]}])
                if fresh is None or not fresh.get("solves") or "keys" not in fresh["solves"][-1]:
                    counters["fresh_failed"] = counters.get("fresh_failed", 0) + 1
                    notes.append("fresh run failed: %s" % (err or fresh))
                    continue
                fs = fresh["solves"][-1]
                counters["fresh_comparisons"] += 1
                ca, cb = Counter(keys), Counter(fs["keys"])
                if ca != cb:
                    more = sum((ca - cb).values())
                    less = sum((cb - ca).values())
                    key = "sent_data_grows_with_solves" if more and not less else \
                        ("sent_data_missing_on_resolve" if less and not more else "sent_data_differs_from_fresh_equivalent")
                    V(key, "solve #%d sends %d objects, a freshly built equivalent model sends %d (%d extra, %d missing) after edits %s"
                      % (k_solve, len(keys), len(fs["keys"]), more, less, kinds), solve_index=k_solve, **wit)
                # what the back-end itself ends up holding must not grow either (constraints / variables kept from earlier solves)
                try:
                    w_ = rec.get("wrapper")
                    if type(w_).__name__ == "CvxpyWrapper" and fs.get("solver_problem_size") and w_.prob is not None:
                        # (the vector of function values has one entry per leaf expression ever created on the object, objective
                        #  leaves of earlier solves included: those idle entries are left out of the comparison)
                        mine = {"constraints": len(w_.prob.constraints),
                                "scalar_variables": int(sum(v_.size for v_ in w_.prob.variables())) - int(rec.get("n_exprs") or 0)}
                        theirs = dict(fs["solver_problem_size"])
                        theirs["scalar_variables"] = theirs["scalar_variables"] - int(fs.get("n_exprs") or 0)
                        counters["solver_problem_sizes_compared"] = counters.get("solver_problem_sizes_compared", 0) + 1
                        if mine != theirs and ca == cb:
                            V("solver_problem_grows_with_solves", "solve #%d: the cvxpy problem holds %s, the one of a freshly built equivalent "
                              "model holds %s (function-value entries not counted)" % (k_solve, mine, theirs), solve_index=k_solve, **wit)
                except Exception:
                    pass
                if rec.get("n_points") != fs.get("n_points"):
                    V("gram_size_differs_from_fresh_equivalent", "Gram size %s vs %s in the fresh equivalent" % (rec.get("n_points"), fs.get("n_points")),
                      solve_index=k_solve, **wit)
                fv = fs["results"].get("value_float")
                primal_after_heuristic = bool(op["opts"].get("dimension_reduction_heuristic")) and mode == "primal"
                if primal_after_heuristic:
                    # the primal value after a heuristic is only determined up to the heuristic tolerance and the
                    # (solution-size relative) accuracy of the solver: judged by C14's band, not compared here
                    counters["value_not_compared(primal after heuristic)"] = counters.get("value_not_compared(primal after heuristic)", 0) + 1
                elif fv is not None and all(is_optimal_status(s) for s in fs["inner_status"]):
                    fam = oracles.solver_family(rec)
                    held, vio = oracles.TOL[fam]
                    # DESIGN 2.8: the scale of a solve includes the size of its solution (Gram entries of 1e7 next to a value of
                    # 4e5: two runs of the same data in another order differ by 2 %, Appendix B25), not only the value
                    sc = max(1 + abs(fv), float(pinfo.get("scale", 1.0)), float(cinfo.get("scale", 1.0)))
                    if abs(fv - out[1]) > vio * sc * 10:
                        V("value_differs_from_fresh_equivalent", "solve #%d returned %.9g, a freshly built equivalent model returns %.9g (edits %s)"
                          % (k_solve, out[1], fv, kinds), solve_index=k_solve, **wit)
                elif fv is None and fs["results"].get("outcome") == "ok":
                    V("value_differs_from_fresh_equivalent", "solve #%d returned %.9g, a freshly built equivalent model returns None" % (k_solve, out[1]),
                      solve_index=k_solve, **wit)
        bd.fault = None
        sigs.add(gen.signature(prog) + "#" + ",".join(kinds))
        if len(samples) < 2:
            samples.append({"rng": sd, "edit_kinds": kinds, "meta": prog["meta"].get("classes"),
                            "schedule": [o["op"] + (":" + json.dumps(o.get("opts")) if o["op"] == "solve" else "") for o in sched],
                            "returned": [None if s[1][0] != "ok" else s[1][1] for s in m.solves]})
    return {"counters": counters, "signatures": sorted(sigs), "samples": samples, "violations": viol,
            "observations": notes[:8], "extra": {"shard_wall_s": round(time.time() - t0, 1)}}
