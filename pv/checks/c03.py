"""C03 - class constraints never exclude a real member of the class."""
import contextlib
import io
import math
import random
import time

import numpy as np

LEVEL = "exploration"
RULE = ("for each of the 24 classes, random admissible parameters (incl. boundary regimes) and a real member of the "
        "class (pv/ref/members.py: quadratics with prescribed spectrum incl. the extremes, Huber, log-sum-exp, "
        "cos-sums, max-of-affine, norms, indicators of balls/boxes with normal-cone elements, support functions of "
        "polytopes/balls, max of squares, linear maps built to specification, subdifferentials, translations), "
        "concrete samples are registered through the real API in random order (oracle at leaf and combination points, "
        "repeated subgradient selections, stationary and fixed points, proximal steps, transposes, block "
        "decompositions), every leaf is bound to its concrete value, set_class_constraints() is called and every "
        "generated scalar constraint and LMI is evaluated with the independent evaluator. distinct = distinct "
        "(class, member family, parameter regime, #samples, event kinds)")
ASSUMPTIONS = ["members are real members of their class: each one passes a self-test of the class's DEFINING property "
               "before being used (a failing member is a harness error, not a verdict)", "pv/canon.py",
               "tolerance 1e-8 relative to the magnitude of the terms of each constraint"]
DECIDING_COUNTER = "constraints_evaluated"
MIN_DECIDED = {"quick": 15000, "thorough": 1000000}
REQUIRED_COUNTERS = {"quick": {"classes_covered": 24}, "thorough": {"classes_covered": 24}}
NSHARDS = 16


def post_merge(counters, extra):
    counters["classes_covered"] = len(extra.get("classes", []))


def plan(tier, seed):
    n = 200 if tier == "quick" else 6000
    return [{"name": "s%d" % i, "seed": seed, "shard": i, "n_per_class": n} for i in range(NSHARDS)]


class Session(object):
    """Registers concrete samples of a member through the real API and binds every leaf to its concrete value."""

    def __init__(self, cls, params, rng, dim=None, member_params=None):
        from PEPit import PEP
        from pv.classes import get_class
        from pv.ref import members
        self.rng = rng
        self.pep = PEP()
        self.cls = cls
        self.pvals, self.evals = {}, {}
        self.events = []
        kw = dict(params)
        self.blocks = None
        if cls == "BlockSmoothConvexFunction":
            d = len(params["L"])
            self.partition = self.pep.declare_block_partition(d=d)
            kw["partition"] = self.partition
            n = rng.randint(d, d + 3)
            assign = [k if k < d else rng.randrange(d) for k in range(n)]
            rng.shuffle(assign)
            self.blocks = [[i for i, a in enumerate(assign) if a == k] for k in range(d)]
            self.member = members.make_member(cls, params, rng, partition_blocks=self.blocks)
            # every block handed out (to the method or to the class itself) is bound when it is handed out, through the
            # public call only: block k of a point is the point restricted to the coordinates of block k
            orig_get_block = self.partition.get_block
            masks = []
            for b_ in self.blocks:
                m_ = np.zeros(sum(len(x_) for x_ in self.blocks))
                m_[np.array(b_, dtype=int)] = 1.0
                masks.append(m_)

            def get_block(point, block_number, _orig=orig_get_block):
                out = _orig(point, block_number)
                try:
                    pv_ = self.pvalue(point)
                except Exception:
                    return out
                for kk in range(d - 1):
                    blk = _orig(point, kk)
                    if blk.get_is_leaf() and id(blk) not in self.pvals:
                        self.bind_point(blk, pv_ * masks[kk])
                return out
            self.partition.get_block = get_block
        else:
            mp = dict(member_params if member_params is not None else params)
            self.with_v = cls == "NonexpansiveOperator" and rng.random() < 0.3
            if self.with_v:
                mp["with_v"] = True
            self.member = members.make_member(cls, mp, rng, dim=dim)
        self.dim = self.member.dim
        self.f = self.pep.declare_function(get_class(cls), **kw)
        if cls == "SmoothStronglyConvexQuadraticFunction":
            xs, gs, fs = self.f.list_of_stationary_points[0]
            self.bind_point(xs, self.member.stationary())
            self.evals[id(fs)] = self.member.value(self.member.stationary())
        if cls == "NonexpansiveOperator" and getattr(self, "with_v", False):
            from PEPit import Point
            v = Point()
            self.f.v = v
            self.bind_point(v, self.member.displacement())

    def bind_point(self, leaf, vec):
        self.pvals[id(leaf)] = np.array(vec, dtype=float)

    def pvalue(self, point):
        from pv import canon
        return canon.point_value_assign(point, self.pvals, self.dim)

    def new_point(self, vec):
        # names are free-form labels: iterates are often all called "x" (or after the block just updated)
        x = self.pep.set_initial_point(name=self.rng.choice([None, None, None, "x", "x", "y", "Point_1"]))
        self.bind_point(x, vec)
        return x

    def oracle(self, x):
        """f.oracle at a Point already bound; binds the new leaves."""
        g, v = self.f.oracle(x)
        xv = self.pvalue(x)
        greal = self.member.grad(xv, self.rng)          # the (sub)gradient the real run picks: ANY admissible one
        if g.get_is_leaf() and id(g) not in self.pvals:
            self.bind_point(g, greal)
        elif not self.f.reuse_gradient:
            # a function that is not declared differentiable answered with an object that is already tied to values: the
            # model then cannot represent the admissible subgradient the real run picked here
            try:
                gv = self.pvalue(g)
                self.n_requery = getattr(self, "n_requery", 0) + 1
                if float(np.max(np.abs(gv - greal), initial=0.0)) > 1e-9 * (1.0 + float(np.max(np.abs(greal), initial=0.0))):
                    self.unrepresentable = getattr(self, "unrepresentable", []) + [
                        "not declared differentiable, yet the subgradient answered at an already evaluated point is tied to %s; the real run picked the admissible %s"
                        % (np.round(gv, 6).tolist(), np.round(greal, 6).tolist())]
            except KeyError:
                pass
        elif not getattr(self.member, "multivalued", False):
            # a differentiable function answered with objects that are already tied to values (a sample it holds): they must
            # be THE gradient and value of the member at the point asked, i.e. the point asked must be the sampled one
            try:
                gv = self.pvalue(g)
                self.n_reuse = getattr(self, "n_reuse", 0) + 1
                sz = float(np.max(np.abs(greal), initial=0.0)) + float(np.max(np.abs(gv), initial=0.0))
                if float(np.max(np.abs(gv - greal), initial=0.0)) > 1e-4 * (1.0 + sz):      # harness minimisers / resolvents are approximate
                    self.unrepresentable = getattr(self, "unrepresentable", []) + [
                        "the gradient answered at the point %s is the one of another sample: it is worth %s, the member's gradient there is %s"
                        % (np.round(xv, 6).tolist(), np.round(gv, 6).tolist(), np.round(greal, 6).tolist())]
            except KeyError:
                pass
        if v.get_is_leaf() and id(v) not in self.evals:
            self.evals[id(v)] = self.member.value(xv)
        return g, v

    def oracle_through_sum(self, x, pts):
        from PEPit.functions import SmoothConvexFunction
        if getattr(self, "aux", None) is None:
            self.aux = self.pep.declare_function(SmoothConvexFunction, L=2.0)
            self.aux_Q = 2.0 * np.diag([self.rng.uniform(0.0, 1.0) for _ in range(self.dim)])      # f_aux(x) = x'Qx/2, spectrum in [0, 2]
            self.sum = self.aux + self.f
        if x not in pts:
            pts.append(x)
        xv = self.pvalue(x)
        n_aux = len(self.aux.list_of_points)
        n_f = len(self.f.list_of_points)
        G, V = self.sum.oracle(x)
        # the real run: ONE (sub)gradient of f at x is picked, f_aux answers its gradient, the sum answers their sum; which of
        # the three objects are fresh leaves and which are written as the remainder of the others is the library's business:
        # every fresh leaf is bound to its real value, the others follow
        g_real = self.member.grad(xv, self.rng)
        for (px, pg, pv) in self.aux.list_of_points[n_aux:]:
            if pg.get_is_leaf() and id(pg) not in self.pvals:
                self.bind_point(pg, self.aux_Q @ self.pvalue(px))
            if pv.get_is_leaf() and id(pv) not in self.evals:
                self.evals[id(pv)] = 0.5 * float(self.pvalue(px) @ self.aux_Q @ self.pvalue(px))
        if len(self.f.list_of_points) == n_f:
            # f already held a sample at x (differentiable: reused): the sum is determined by its terms
            return
        for (px, pg, pv) in self.f.list_of_points[n_f:]:
            if pg.get_is_leaf() and id(pg) not in self.pvals:
                self.bind_point(pg, g_real)
            if pv.get_is_leaf() and id(pv) not in self.evals:
                self.evals[id(pv)] = self.member.value(xv)
        if G.get_is_leaf() and id(G) not in self.pvals:
            self.bind_point(G, self.aux_Q @ xv + g_real)
        if V.get_is_leaf() and id(V) not in self.evals:
            self.evals[id(V)] = 0.5 * float(xv @ self.aux_Q @ xv) + self.member.value(xv)
        self._bind_new()

    def run_events(self, n_events):
        rng, m = self.rng, self.member
        pts = []
        kinds = []
        scale = rng.choice([1.0, 1.0, 0.1, 5.0])
        st = m.stationary()
        st_all = list(m.stationary_list()) if hasattr(m, "stationary_list") else ([st] if st is not None else [])
        n_stat = 0
        n_fix = 0
        fp_all = []
        if m.kind == "operator":
            fp_all = list(m.fixed_point_list()) if hasattr(m, "fixed_point_list") else ([m.fixed_point()] if m.fixed_point() is not None else [])
        for _ in range(n_events):
            r = rng.random()
            if r < 0.45 or not pts:
                strat = rng.choice(["random", "random", "cluster", "minimizer", "far"])
                if strat == "cluster" and pts and not m.restricted_domain:
                    base = self.pvalue(rng.choice(pts))
                    xv = base + 1e-3 * np.array([rng.gauss(0, 1) for _ in range(self.dim)])
                elif strat == "minimizer" and st is not None:
                    xv = st.copy()
                elif strat == "far":
                    xv = m.domain_point(rng, 10 * scale)
                else:
                    xv = m.domain_point(rng, scale)
                x = self.new_point(xv)
                pts.append(x)
                self.oracle(x)
                kinds.append("eval:" + strat)
            elif r < 0.6 and not m.restricted_domain:
                # evaluation at a combination of existing points and gradients
                a, b = rng.choice(pts), rng.choice(pts)
                steps = [0.5, 1.0, 0.1]
                Lp = getattr(self.f, "L", None)
                if isinstance(Lp, (int, float)) and 0 < Lp < float("inf"):
                    steps += [1.0 / Lp, 1.0 / Lp]           # the textbook step (1e-9 on a badly scaled class)
                if rng.random() < 0.12:
                    # a tiny multiple of a point that is very far away (never evaluated itself): x differs from a by O(1)
                    # although its coefficients differ from those of a by 1e-9 only
                    far = self.new_point(1e9 * rng.choice([1.0, 10.0]) * np.array([rng.gauss(0, 1) for _ in range(self.dim)]))
                    x = a - 1e-9 * far
                    pts.append(x)
                    self.oracle(x)
                    kinds.append("eval:tiny_multiple_of_far_point")
                    continue
                x = a - rng.choice(steps) * (self.f.gradient(b) if rng.random() < 0.6 else b)
                self._bind_new()
                pts.append(x)
                self.oracle(x)
                kinds.append("eval:combination")
            elif r < 0.66 and self.cls == "BlockSmoothConvexFunction":
                # a coordinate-block step from an existing point, written "project then scale" or "scale then project"
                b = rng.choice(pts)
                g = self.f.gradient(b)
                self._bind_new()
                k = rng.randrange(len(self.blocks))
                Lk = float(self.f.L[k])
                gam = rng.choice([1.0 / Lk, 1.0 / Lk, 0.5, 2.0])
                if rng.random() < 0.5:
                    x = b - gam * self.partition.get_block(g, k)
                    kinds.append("block_step:project_then_scale")
                else:
                    x = b - self.partition.get_block(gam * g, k)
                    kinds.append("block_step:scale_then_project")
                pts.append(x)
                self.oracle(x)
            elif r < 0.66 and m.kind == "function" and not m.restricted_domain and self.cls != "BlockSmoothConvexFunction":
                # the sample arrives through a sum  F = f_aux + f  evaluated as a whole (f receives what is left of F's sample
                # once f_aux has answered): it is still an ordinary sample of f
                self.oracle_through_sum(rng.choice(pts) if rng.random() < 0.4 else self.new_point(m.domain_point(rng, scale)), pts)
                kinds.append("eval:through_sum")
            elif r < 0.72:
                x = rng.choice(pts)
                self.oracle(x)          # repeated: reuse for differentiable classes, a new subgradient otherwise
                kinds.append("eval:repeat")
            elif r < 0.82 and st is not None and self.cls != "SmoothStronglyConvexQuadraticFunction":
                xs, gs, fs = self.f.stationary_point(return_gradient_and_function_value=True)
                st_k = st_all[n_stat % len(st_all)]      # a non-convex member has stationary points with different values
                n_stat += 1
                if id(fs) in self.evals and abs(self.evals[id(fs)] - m.value(st_k)) > 1e-9 * (1 + abs(m.value(st_k))):
                    self.unrepresentable = getattr(self, "unrepresentable", []) + [
                        "the value handed out for a new stationary point is tied to %.6g, the real function has %.6g there"
                        % (self.evals[id(fs)], m.value(st_k))]
                self.bind_point(xs, st_k)
                self.evals.setdefault(id(fs), m.value(st_k))
                st = st_k
                pts.append(xs)
                kinds.append("stationary")
                if rng.random() < 0.5:
                    self.oracle(xs)     # the method may well start at (or come back to) the optimum: another subgradient there
                    kinds.append("eval:at_stationary")
            elif r < 0.88 and m.kind == "operator" and fp_all:
                xf, _, ff = self.f.fixed_point()
                fp_k = fp_all[n_fix % len(fp_all)]        # an operator may have several fixed points (identity, projections)
                n_fix += 1
                if id(xf) in self.pvals and float(np.max(np.abs(self.pvals[id(xf)] - fp_k))) > 1e-9 * (1 + float(np.max(np.abs(fp_k)))):
                    self.unrepresentable = getattr(self, "unrepresentable", []) + [
                        "the point handed out for a new fixed point is tied to %s, the real operator also has the fixed point %s"
                        % (np.round(self.pvals[id(xf)], 6).tolist(), np.round(fp_k, 6).tolist())]
                else:
                    self.bind_point(xf, fp_k)
                self.evals[id(ff)] = 0.0
                pts.append(xf)
                kinds.append("fixed_point")
            elif r < 0.96 and self.cls not in ("LinearOperator",):
                from PEPit.primitive_steps import proximal_step
                x0 = rng.choice(pts)
                gam = rng.choice([1.0, 0.3, 2.0])
                pv = m.prox(self.pvalue(x0), gam)
                if pv is None:
                    continue
                xn, gx, fx = proximal_step(x0, self.f, gam)
                self.bind_point(gx, (self.pvalue(x0) - pv) / gam)
                self.evals[id(fx)] = m.value(pv)
                pts.append(xn)
                kinds.append("prox")
            elif self.cls == "LinearOperator":
                u = rng.choice(pts) if rng.random() < 0.5 else self.new_point(m.domain_point(rng, scale))
                v = self.f.T.gradient(u)
                if v.get_is_leaf() and id(v) not in self.pvals:
                    self.bind_point(v, m.tgrad(self.pvalue(u)))
                kinds.append("transpose_eval")
        if self.cls == "LinearOperator" and not self.f.T.list_of_points:
            u = rng.choice(pts)
            v = self.f.T.gradient(u)
            self.bind_point(v, m.tgrad(self.pvalue(u)))
            kinds.append("transpose_eval")
        self.events = kinds
        return kinds

    def _bind_new(self):
        """gradient() on a differentiable function may have created leaves: bind any unbound sample leaf."""
        for (x, g, v) in self.f.list_of_points:
            if g.get_is_leaf() and id(g) not in self.pvals:
                self.bind_point(g, self.member.grad(self.pvalue(x), self.rng))
            if v.get_is_leaf() and id(v) not in self.evals:
                self.evals[id(v)] = self.member.value(self.pvalue(x))

    def finish(self):
        """Generate the class constraints and bind the leaves created at that time."""
        from PEPit.point import Point
        self._bind_new()
        self.f.set_class_constraints()
        m = self.member
        if self.cls in ("ConvexQGFunction", "RsiEbFunction"):
            for (xs, gs, fs) in self.f.list_of_stationary_points:
                if id(xs) not in self.pvals:
                    st = m.stationary()
                    if st is None:
                        raise RuntimeError("member without stationary point for a class that needs one")
                    self.bind_point(xs, st)
                    self.evals[id(fs)] = m.value(st)

    def evaluate(self):
        """Yield (kind, name, violation, magnitude) for every generated constraint / LMI."""
        from pv import canon
        out = []
        # cancellation INSIDE a sample point (x - g / L = 0 as the difference of two vectors of norm 78, Appendix B28): the
        # library merges the coefficients of such a point into its constraints, where a contribution of size c |x|^2 can be left
        # as 1e-16 c |x|^2 with no large term in sight; the size of what was cancelled is added to the size of every constraint
        cancelled = 0.0
        for smp in self.f.list_of_points:
            for pt in smp[:2]:
                if pt.get_is_leaf():
                    continue
                try:
                    a_ = sum(abs(float(c_)) * float(np.linalg.norm(self.pvals[id(k_)])) for k_, c_ in pt.decomposition_dict.items())
                    cancelled = max(cancelled, a_ ** 2 - float(np.dot(self.pvalue(pt), self.pvalue(pt))))
                except Exception:
                    pass
        for c in self.f.list_of_class_constraints:
            G, F, c0 = canon.expr_coeffs(c.expression)
            val, mag = c0, abs(c0)
            if cancelled > 0 and G:
                mag += max(1.0, max(abs(w_) for w_ in G.values())) * cancelled
            for (p, q), w in G.items():
                t = w * float(np.dot(self.pvals[id(p)], self.pvals[id(q)]))
                val += t
                # size of what is summed, cancellation INSIDE the inner product included (<x, A^3 x> = 0 with products of 1e8)
                mag += abs(w) * float(np.dot(np.abs(self.pvals[id(p)]), np.abs(self.pvals[id(q)])))
            for e, w in F.items():
                t = w * self.evals[id(e)]
                val += t
                mag += abs(t)
            viol = val if c.equality_or_inequality == "inequality" else abs(val)
            out.append(("scalar", c.get_name(), viol, mag))
        for Mx in self.f.list_of_class_psd:
            n = Mx.shape[0]
            if n == 0:
                continue
            V = np.zeros((n, n))
            mag = 0.0
            for i in range(n):
                for j in range(n):
                    G, F, c0 = canon.expr_coeffs(Mx[i, j])
                    val, mg = c0, abs(c0)
                    for (p, q), w in G.items():
                        t = w * float(np.dot(self.pvals[id(p)], self.pvals[id(q)]))
                        val += t
                        mg += abs(w) * float(np.dot(np.abs(self.pvals[id(p)]), np.abs(self.pvals[id(q)])))
                    for e, w in F.items():
                        t = w * self.evals[id(e)]
                        val += t
                        mg += abs(t)
                    V[i, j] = val
                    mag = max(mag, mg)
            asym = float(np.max(np.abs(V - V.T)))
            out.append(("lmi_symmetry", "LMI entries T_ij = T_ji", asym, mag))
            ev = np.linalg.eigvalsh((V + V.T) / 2)
            out.append(("lmi_psd", "LMI", float(-ev.min()), mag))
        return out


def generic_member_test(m, rng, n=10):
    """Defining property of the class on random pairs (independent of PEPit's conditions)."""
    p = m.params
    if m.kind != "function" or m.cls == "ConvexIndicatorFunction":
        return True, ""
    convex = m.cls not in ("SmoothFunction", "RsiEbFunction")
    for _ in range(n):
        x, y = m.domain_point(rng, 2.0), m.domain_point(rng, 2.0)
        gx, gy = m.grad(x, rng), m.grad(y, rng)
        d = float(np.linalg.norm(x - y))
        if convex:
            mu = p.get("mu", 0.0) if m.cls in ("SmoothStronglyConvexFunction", "StronglyConvexFunction", "SmoothStronglyConvexQuadraticFunction") else 0.0
            if m.value(y) < m.value(x) + gx @ (y - x) + 0.5 * mu * d * d - 1e-8 * (1 + abs(m.value(y))):
                return False, "convexity / strong convexity fails"
        L = p.get("L") if m.cls in ("SmoothConvexFunction", "SmoothFunction", "SmoothStronglyConvexFunction",
                                    "SmoothConvexLipschitzFunction", "SmoothStronglyConvexQuadraticFunction") else None
        if L is not None and L < float("inf") and np.linalg.norm(gx - gy) > L * d * (1 + 1e-8) + 1e-10:
            return False, "gradient not L-Lipschitz"
        M = p.get("M") if m.cls in ("ConvexLipschitzFunction", "SmoothConvexLipschitzFunction", "ConvexSupportFunction") else None
        if M is not None and M < float("inf") and np.linalg.norm(gx) > M * (1 + 1e-8) + 1e-10:
            return False, "subgradient larger than M"
    return True, ""


def regime(params):
    out = []
    for k, v in sorted(params.items()):
        if isinstance(v, list):
            out.append("%s=list%d" % (k, len(v)))
        elif v == float("inf"):
            out.append("%s=inf" % k)
        else:
            out.append("%s=%.3g" % (k, v))
    return ",".join(out)


def edge_params(cls, rng, base):
    """boundary regimes on top of the table's samplers"""
    p = dict(base)
    r = rng.random()
    if p.get("L") == float("inf"):
        return p                     # the limit value itself is the edge
    if "mu" in p and "L" in p and isinstance(p["L"], float) and r < 0.15 and cls != "SymmetricLinearOperator":
        p["mu"] = p["L"] * 0.999
    elif "mu" in p and r < 0.3 and cls not in ("SymmetricLinearOperator", "CocoerciveStronglyMonotoneOperator"):
        p["mu"] = p["mu"] * 1e-3
    elif "L" in p and isinstance(p["L"], float) and r < 0.45:
        p["L"] = p["L"] * rng.choice([100.0, 0.01])
        if "mu" in p and cls != "SymmetricLinearOperator":
            p["mu"] = min(p["mu"], p["L"] * 0.5)
        if cls == "SymmetricLinearOperator":
            p["mu"] = min(p["mu"], p["L"])
    elif "beta" in p and r < 0.3:
        p["beta"] = p["beta"] * rng.choice([10.0, 0.05])
        if "mu" in p:
            p["mu"] = min(p["mu"], 0.5 / p["beta"])
    elif "rho" in p and r < 0.3:
        p["rho"] = p["rho"] * rng.choice([10.0, 0.01])
    return p


def run_shard(spec):
    from pv.classes import CLASSES, real_params
    t0 = time.time()
    counters = {"constraints_evaluated": 0, "sessions": 0, "lmis_evaluated": 0, "tight_constraints": 0}
    sigs, viol, samples, notes = set(), [], [], []
    classes_seen = set()
    todo = []
    if "replay" in spec:
        w = spec["replay"]
        todo = [(w["cls"], w["rng"])]
    else:
        for cls in sorted(CLASSES):
            for k in range(spec["n_per_class"]):
                todo.append((cls, "c03/%d/%s/%d/%d" % (spec["seed"], cls, spec["shard"], k)))
    for cls, sd in todo:
        rng = random.Random(sd)
        kind, diff, sampler = CLASSES[cls]
        if cls == "BlockSmoothConvexFunction":
            d = rng.choice([1, 2, 3])
            params = {"L": [rng.choice([1.0, 2.0, 0.5, 10.0]) for _ in range(d)]}
            if rng.random() < 0.25:
                params = {"L": [rng.choice([1, 2, 4, 10]) for _ in range(d)]}      # integers, as in the class docstring's example
        else:
            params = edge_params(cls, rng, real_params(sampler(rng)))
            if rng.random() < 0.15:
                # python ints where the value is integral (L=1, mu=0, M=2 ...): a documented way of writing the parameters
                params = {k_: (int(v_) if isinstance(v_, float) and abs(v_) < 1e6 and v_ == int(v_) else v_) for k_, v_ in params.items()}
        # the class parameters are documented attributes: a user may update them after the declaration (before the first
        # solve, or between two solves of a parameter sweep); the constraints must be those of the CURRENT parameters
        stricter = None
        if cls != "BlockSmoothConvexFunction" and rng.random() < 0.15:
            stricter = dict(params)
            if params.get("L", float("inf")) < float("inf"):
                stricter["L"] = params["L"] / 4.0
                if "mu" in stricter and cls != "SymmetricLinearOperator":
                    stricter["mu"] = min(stricter["mu"], 0.5 * stricter["L"])
                elif "mu" in stricter:
                    stricter["mu"] = min(stricter["mu"], stricter["L"])
            elif "mu" in params and "beta" not in params:
                stricter["mu"] = params["mu"] * 4.0 + 0.1
            elif params.get("M", float("inf")) < float("inf"):
                stricter["M"] = params["M"] / 4.0
            elif "beta" in params and "mu" not in params:
                stricter["beta"] = params["beta"] * 4.0
            elif "rho" in params:
                stricter["rho"] = params["rho"] / 4.0
            elif params.get("D", float("inf")) < float("inf"):
                stricter["D"] = params["D"] / 4.0
            else:
                stricter = None
        try:
            with contextlib.redirect_stdout(io.StringIO()):
                s = Session(cls, stricter if stricter is not None else params, rng, member_params=params if stricter is not None else None)
                s.param_update = None
                if stricter is not None:
                    s.param_update = "before_first_build" if (rng.random() < 0.5 or cls in ("ConvexQGFunction", "RsiEbFunction")) else "between_builds"
                ok, why = s.member.self_test(rng)
                ok2, why2 = generic_member_test(s.member, rng)
                if not (ok and ok2):
                    counters["member_selftest_failed(harness)"] = counters.get("member_selftest_failed(harness)", 0) + 1
                    notes.append("self-test failed: %s %s %s %s" % (cls, type(s.member).__name__, why, why2))
                    continue
                kinds = s.run_events(rng.randint(1, 7))
                if s.param_update == "between_builds":
                    s._bind_new()
                    s.f.set_class_constraints()          # constraints of the declared (stricter) parameters: never judged
                if s.param_update:
                    for k_, v_ in params.items():
                        setattr(s.f, k_, v_)             # the documented attributes now hold the parameters the member has
                    kinds = kinds + ["parameters_updated:" + s.param_update]
                    counters["parameter_update_sessions"] = counters.get("parameter_update_sessions", 0) + 1
                s.finish()
                res = s.evaluate()
        except Exception as e:
            import traceback
            counters["session_exceptions:" + type(e).__name__] = counters.get("session_exceptions:" + type(e).__name__, 0) + 1
            if len(notes) < 6:
                notes.append("%s: %s" % (cls, traceback.format_exc()[-500:]))
            continue
        counters["sessions"] += 1
        classes_seen.add(cls)
        fam = type(s.member).__name__
        sigs.add("%s|%s|%s|%d|%s" % (cls, fam, regime(params), len(s.f.list_of_points), ",".join(sorted(set(kinds)))))
        worst = None
        for k, name, v, mag in res:
            counters["constraints_evaluated"] += 1
            if k != "scalar":
                counters["lmis_evaluated"] += 1
            tol = 1e-8 * (1.0 + mag)
            if abs(v) <= tol:
                counters["tight_constraints"] += 1
            if v > tol and (worst is None or v / (1 + mag) > worst[2] / (1 + worst[3])):
                worst = (k, name, v, mag)
        if worst is not None:
            k, name, v, mag = worst
            key = "member_excluded:%s:%s" % (cls, {"scalar": (name or "?").split("(")[0].split("_", 2)[-1] if name else "unnamed",
                                                       "lmi_psd": "lmi", "lmi_symmetry": "lmi_symmetry"}[k])
            if len(viol) < 12 and not any(x["key"] == key for x in viol):
                viol.append({"key": key, "cls": cls, "rng": sd,
                             "what": "%s: a real member (%s, %s) violates the generated %s '%s' by %.3e (terms of size %.3g); "
                                     "%d samples, events %s" % (cls, fam, regime(params), k, name, v, mag, len(s.f.list_of_points), kinds),
                             "params": {a: (b if b != float("inf") else "inf") for a, b in params.items()}, "member": fam, "events": kinds})
        counters["requeries_of_nondifferentiable"] = counters.get("requeries_of_nondifferentiable", 0) + getattr(s, "n_requery", 0)
        counters["reused_samples_compared_with_member"] = counters.get("reused_samples_compared_with_member", 0) + getattr(s, "n_reuse", 0)
        if getattr(s, "unrepresentable", None):
            key = "real_sample_not_representable:%s" % cls
            if len(viol) < 12 and not any(x["key"] == key for x in viol):
                viol.append({"key": key, "cls": cls, "rng": sd, "member": fam, "events": kinds,
                             "params": {a: (b if b != float("inf") else "inf") for a, b in params.items()},
                             "what": "%s, real member %s: %s; events %s" % (cls, fam, s.unrepresentable[0], kinds)})
        if len(samples) < 2:
            samples.append({"rng": sd, "cls": cls, "member": s.member.describe(), "params": regime(params), "events": kinds,
                            "n_samples": len(s.f.list_of_points), "n_constraints": len(res),
                            "max_violation": max([r[2] for r in res] or [0.0])})
    return {"counters": counters, "signatures": sorted(sigs), "samples": samples, "violations": viol,
            "observations": notes[:8], "extra": {"shard_wall_s": round(time.time() - t0, 1), "classes": sorted(classes_seen)}}
