"""C09 - no real run of a modelled method on a real function beats the returned bound."""
import contextlib
import importlib
import io
import random
import time
import warnings

LEVEL = "exploration"
RULE = ("for each shipped example the numeric API of pv/numeric.py is swapped into the example module, so that the "
        "example's own method code RUNS NUMERICALLY on real members of the declared classes (pv/ref/members.py) with "
        "real primitive steps (exact prox / resolvent, exact line search, linear minimisation oracle, admissible "
        "inexact gradients), from starting points scaled so that the initial condition is active; for random admissible "
        "parameters the performance of many such runs (random members incl. the extreme ones, dimensions 1-4, random "
        "directions) is compared with the value PEPit returns (Clarabel, status optimal): performance <= bound*(1+1e-4) "
        "+ 1e-7. Examples the numeric side cannot execute (free leaf variables, Bregman / inexact-prox steps, LMIs, "
        "dual-value post-processing) are listed as not simulated. distinct = distinct (example, parameter bucket, "
        "member families)")
ASSUMPTIONS = ["pv/ref/members.py members are real members (self-tested)", "pv/numeric.py executes the example's own method code",
               "sampling of members/starting points: a bound that is too small by less than the gap between the best sampled "
               "run and the true worst case is invisible (evidence reports best ratio per example)"]
DECIDING_COUNTER = "numeric_runs_compared"
MIN_DECIDED = {"quick": 1500, "thorough": 60000}
REQUIRED_COUNTERS = {"quick": {"examples_simulated": 25}, "thorough": {"examples_simulated": 30}}
NSHARDS = 16


def post_merge(counters, extra):
    counters["examples_simulated"] = len(extra.get("simulated", []))
    br = extra.get("best_ratio", {})
    # best_ratio values were summed by the merger: keep only max semantics through the list form
    extra.pop("best_ratio", None)


def plan(tier, seed):
    return [{"name": "s%d" % i, "seed": seed, "shard": i, "draws": 2 if tier == "quick" else 10,
             "trials": 30 if tier == "quick" else 150, "budget_s": 3.0 if tier == "quick" else 15.0,
             "es_s": 6.0 if tier == "quick" else 30.0} for i in range(NSHARDS)]


def pep_bound(entry, kwargs):
    """(value, decided, relative slack).  Clarabel with status optimal: slack 1e-4.  Any other status (optimal_inaccurate):
    the value is used only if the certificate exposed by the library is itself valid (C01 oracle: identity closes, signs,
    PSD residual - then the value IS an upper bound whatever the solver thinks of its own accuracy), with slack 1e-3.
    (SCS as a second opinion was tried and withdrawn: it reports "optimal" with values off by orders of magnitude on
    ill-conditioned settings - DESIGN Appendix B16.)"""
    from pv import driver, oracles
    from pv.monitors import is_optimal_status
    from pv.ref import examples_table as ET
    bd = driver.boundary()
    n0 = len(bd.records)
    with contextlib.redirect_stdout(io.StringIO()), warnings.catch_warnings():
        warnings.simplefilter("ignore")
        out = ET.call(entry, kwargs, solver="CLARABEL", wrapper="cvxpy", verbose=-1)
    recs = bd.records[n0:]
    statuses = [str(x["status"]).lower() for r in recs for x in r["inner"]]
    if bool(statuses) and all(is_optimal_status(s) for s in statuses):
        return out[0], True, 1e-4
    if len(recs) == 1 and out[0] is not None and recs[0].get("ret") is not None and \
            recs[0]["opts"].get("return_primal_or_dual", "dual") == "dual" and abs(recs[0]["ret"] - out[0]) < 1e-12:
        try:
            findings, _info = oracles.certificate_check(recs[0], recs[0]["ret"], "dual")
        except Exception:
            return out[0], False, None
        if not findings:
            # the identity closes to 1e-6 * scale (multipliers, residual): that is also the accuracy of the bound on runs of
            # unit size, hence an absolute allowance of 1e-4 * scale folded into the relative slack
            sc = float(_info.get("scale", 1.0))
            return out[0], True, 1e-3 + 1e-4 * sc / max(abs(out[0]), 1e-300)
    return out[0], False, None


from pv.ref.draws import generic_draws  # noqa: E402


def _adv_from_state(state):
    """JSON state {thetas: {i: [..]}, dirs: {k: [..]}, units: {k: [..]}, levels: {k: t}} -> adversary dict"""
    import numpy as np
    g = lambda name: {int(k): v for k, v in (state.get(name) or {}).items()}
    adv = {"thetas": g("thetas"), "dirs": {k: np.array(v, dtype=float) for k, v in g("dirs").items()},
           "units": {k: np.array(v, dtype=float) for k, v in g("units").items()}, "levels": g("levels")}
    if state.get("common_centre"):
        adv["common_centre"] = True
    return adv


def es_search(e, kw, dim, seed_tag, deadline, on_run):
    """(1+1) evolution strategy over the members' parameters (pv/ref/hard.py: inside the class by construction), the
    starting directions and the choices made inside inexact steps.  on_run(result, state) is called for every real run."""
    import numpy as np
    from pv import numeric
    from pv.ref import hard
    rng = random.Random("c09es/%s" % seed_tag)

    def unit(d):
        u = np.array([rng.gauss(0, 1) for _ in range(d)])
        return (u / max(np.linalg.norm(u), 1e-12)).tolist()

    def run(state):
        try:
            with warnings.catch_warnings():
                warnings.simplefilter("ignore")
                r = numeric.run_numeric(e["module"], e["func"], kw, "es", "es/%s" % seed_tag, dim, adversary=_adv_from_state(state))
        except (numeric.Unsupported, numeric.InvalidRun):
            return None
        on_run(r, state)
        return r

    starts = []
    cs = hard.corners(rng, 24)
    for common in (False, True):
        for i, c in enumerate(cs):
            if time.time() > deadline or (common and i >= 12):
                break
            c2 = cs[(i * 5 + 3) % len(cs)]
            st = {"thetas": {0: list(c), 1: list(c2 if i % 2 else c), 2: list(cs[(i + 1) % len(cs)]), 3: list(c)},
                  "dirs": {0: unit(dim), 1: unit(dim), 2: unit(dim)}, "units": {}, "levels": {k: 0.0 for k in range(24)},
                  "common_centre": common}
            r = run(st)
            if r is not None:
                starts.append((r["perf"], i, st, r))
        if starts:
            break
    if not starts:
        return 0
    starts.sort(key=lambda t: -t[0])
    n_acc = 0
    for rank, (perf, _i, st, r) in enumerate(starts[:3]):
        sigma = 0.3
        cur, cur_perf, meta = st, perf, r
        stall = 0
        t_end = time.time() + (deadline - time.time()) / (3 - rank)
        while time.time() < t_end and stall < 120:
            trial = {k: ({kk: (list(vv) if isinstance(vv, list) else vv) for kk, vv in v.items()} if isinstance(v, dict) else v)
                     for k, v in cur.items()}
            groups = ["theta"] * 4 + ["dir"] * 3
            if meta.get("n_unit"):
                groups += ["unit"] * 2
            if meta.get("n_level"):
                groups += ["level"] * 2
            g = rng.choice(groups)
            if g == "theta":
                i = rng.randrange(max(1, min(4, meta.get("n_decl", 1))))
                th = trial["thetas"][i]
                for j in range(len(th)):
                    if rng.random() < 0.4:
                        th[j] = min(1.0, max(0.0, th[j] + sigma * rng.gauss(0, 1)))
                if rng.random() < 0.15:
                    th[rng.randrange(1, 6)] = rng.choice([0.0, 1.0])
            elif g == "dir":
                k = rng.randrange(max(1, min(3, meta.get("n_init", 1))))
                u = np.array(trial["dirs"][k]) + sigma * np.array([rng.gauss(0, 1) for _ in range(dim)])
                trial["dirs"][k] = (u / max(np.linalg.norm(u), 1e-12)).tolist()
            elif g == "unit":
                k = rng.randrange(min(24, meta["n_unit"]))
                base = trial["units"].get(k)
                u = (np.array(base) if base is not None else np.array(unit(dim))) + sigma * np.array([rng.gauss(0, 1) for _ in range(dim)])
                trial["units"][k] = (u / max(np.linalg.norm(u), 1e-12)).tolist()
            else:
                k = rng.randrange(min(24, meta["n_level"]))
                trial["levels"][k] = min(1.0, max(0.0, trial["levels"].get(k, 0.0) + sigma * rng.gauss(0, 1)))
            r2 = run(trial)
            if r2 is not None and r2["perf"] > cur_perf:
                cur, cur_perf, meta = trial, r2["perf"], r2
                n_acc += 1
                stall = 0
                sigma = min(0.5, sigma * 1.3)
            else:
                stall += 1
                sigma = max(0.01, sigma * 0.93)
    return n_acc


def run_shard(spec):
    from pv import numeric
    from pv.ref import examples_table as ET
    t0 = time.time()
    counters = {"numeric_runs_compared": 0, "draws": 0}
    sigs, viol, samples, notes = set(), [], [], []
    simulated, not_simulated, best, best_run = set(), {}, {}, {}
    common_centre_needed = set()
    smooth_needed = set()
    transcribed = set()
    entries = ET.EXAMPLES
    work = []
    replay_state = None
    if "replay" in spec:
        w = spec["replay"]
        e = [x for x in entries if x["name"] == w["example"]][0]
        work = [(e, w["kwargs"], [(w.get("member_seed", "es"), w.get("dir_seed", "es/%s" % w.get("seed_tag")), w["dim"])])]
        replay_state = w.get("state")
    else:
        for i, e in enumerate(entries):
            if (i % NSHARDS != spec["shard"]) if not spec.get("only") else (e["name"] not in spec["only"]):
                continue
            work.append((e, dict(e["base"]), None))
            for kw in generic_draws(e, spec["seed"], spec["draws"]):
                work.append((e, kw, None))
    for e, kw, forced in work:
        name = e["name"]
        if name in not_simulated and not_simulated[name] >= 2:
            continue
        # can the numeric side execute this example at all?
        probe_err = None
        trials = forced
        if trials is None:
            trials = []
            for t in range(spec["trials"]):
                trials.append(("m%d/%s/%d" % (spec["seed"], name, t // 3), "d%d/%s/%d" % (spec["seed"], name, t), 1 + (t % 4)))
        try:
            bound, ok, slack = pep_bound(e, kw)
        except Exception as ex:
            counters["pep_exceptions:" + type(ex).__name__] = counters.get("pep_exceptions:" + type(ex).__name__, 0) + 1
            continue
        if not ok or bound is None:
            counters["skipped_not_optimal"] = counters.get("skipped_not_optimal", 0) + 1
            continue
        counters["draws"] += 1
        tstart = time.time()
        best_run.pop(name, None)
        nrun = 0
        families = set()
        for (ms, ds, dim) in trials:
            if time.time() - tstart > spec.get("budget_s", 8.0) and forced is None:
                break
            try:
                with warnings.catch_warnings():
                    warnings.simplefilter("ignore")
                    adv = {"common_centre": True} if (hash(ds) % 4 == 0 or name in common_centre_needed) else None
                    if replay_state is not None:
                        adv = _adv_from_state(replay_state)
                    elif forced is not None and w.get("direction") is not None:
                        adv = {"dirs": {0: w["direction"]}}
                    if name in smooth_needed:
                        adv = dict(adv or {}, smooth_only=True)
                    try:
                        r = numeric.run_numeric(e["module"], e["func"], kw, ms, ds, dim, adversary=adv)
                    except numeric.InvalidRun:
                        if adv is None:
                            r = numeric.run_numeric(e["module"], e["func"], kw, ms, ds, dim, adversary={"common_centre": True})
                            common_centre_needed.add(name)
                        else:
                            raise
            except numeric.Unsupported as ex:
                probe_err = str(ex)[:80]
                if "non-smooth" in str(ex):
                    smooth_needed.add(name)
                counters["unsupported_runs"] = counters.get("unsupported_runs", 0) + 1
                continue
            except numeric.InvalidRun:
                counters["invalid_runs"] = counters.get("invalid_runs", 0) + 1
                continue
            except Exception as ex:
                counters["numeric_errors:" + type(ex).__name__] = counters.get("numeric_errors:" + type(ex).__name__, 0) + 1
                if len(notes) < 6:
                    import traceback
                    notes.append("%s: %s" % (name, traceback.format_exc()[-300:]))
                probe_err = type(ex).__name__
                continue
            nrun += 1
            counters["numeric_runs_compared"] += 1
            perf = r["perf"]
            for mdesc in r["members"]:
                families.add(mdesc.split("(")[0])
            ratio = perf / bound if bound > 1e-9 else (0.0 if perf <= bound + 1e-7 else 1e9)
            if name not in best or ratio > best[name]:
                best[name] = ratio
            if name not in best_run or perf > best_run[name][3]:
                best_run[name] = (ms, ds, dim, perf)
            if perf > bound + slack * abs(bound) + 1e-7:
                if len(viol) < 10 and not any(v["key"] == "real_run_beats_bound:" + name for v in viol):
                    viol.append({"key": "real_run_beats_bound:" + name, "example": name, "kwargs": kw,
                                 "member_seed": ms, "dir_seed": ds, "dim": dim,
                                 "what": "%s(%s): a real run on %s achieves %.8g, the library returns %.8g (ratio %.4f)"
                                         % (e["func"], kw, r["members"], perf, bound, ratio)})
        # the method the docstring documents, transcribed independently (pv/ref/methods.py), on the same functions and starts:
        # same performance as the example's own body, and not above the bound
        try:
            from pv.ref import methods as MT
        except Exception:
            MT = None
        if MT is not None and name in MT.METHODS and forced is None:
            from pv.ref import hard
            trng = random.Random("c09t/%d/%s/%r" % (spec["seed"], name, sorted(kw.items(), key=str)))
            cs = hard.corners(trng, 24)
            for k in range(8):
                th = {i: cs[(k * 3 + i) % len(cs)] for i in range(4)}
                try:
                    with warnings.catch_warnings():
                        warnings.simplefilter("ignore")
                        pa, pb, r = MT.compare(name, kw, "t%d" % k, "t%d/%d" % (spec["seed"], k), 1 + k % 3,
                                               adversary={"thetas": th, "smooth_only": True})
                except Exception:
                    counters["transcription_runs_not_possible"] = counters.get("transcription_runs_not_possible", 0) + 1
                    continue
                counters["transcription_runs_compared"] = counters.get("transcription_runs_compared", 0) + 1
                transcribed.add(name)
                if abs(pa - pb) > 1e-6 * max(abs(pa), abs(pb)) + 1e-11 and not any(v["key"] == "example_body_is_not_the_documented_method:" + name for v in viol):
                    viol.append({"key": "example_body_is_not_the_documented_method:" + name, "example": name, "kwargs": kw,
                                 "member_seed": "t%d" % k, "dir_seed": "t%d/%d" % (spec["seed"], k), "dim": 1 + k % 3,
                                 "state": {"thetas": {str(i): list(v_) for i, v_ in th.items()}}, "transcription": True,
                                 "what": "%s(%s): on %s from the same start, the example's body gives %.10g, the method its docstring "
                                         "documents (independent transcription) gives %.10g: the example does not model the documented "
                                         "method" % (e["func"], kw, r["members"], pa, pb)})
                if pb > bound + slack * abs(bound) + 1e-7 and not any(v["key"] == "real_run_beats_bound:" + name for v in viol):
                    viol.append({"key": "real_run_beats_bound:" + name, "example": name, "kwargs": kw,
                                 "member_seed": "t%d" % k, "dir_seed": "t%d/%d" % (spec["seed"], k), "dim": 1 + k % 3,
                                 "state": {"thetas": {str(i): list(v_) for i, v_ in th.items()}}, "transcription": True,
                                 "what": "%s(%s): the documented method (independent transcription) on %s achieves %.8g, the library "
                                         "returns %.8g" % (e["func"], kw, r["members"], pb, bound)})
        # hill-climb on the starting direction from the best run found (time-boxed)
        if nrun and forced is None and best_run.get(name) is not None and time.time() - tstart < spec.get("budget_s", 8.0) * 1.5:
            import numpy as np
            ms, ds, dim, perf0 = best_run[name]
            hrng = random.Random("c09h/%s/%s" % (name, ds))
            base_dirs = {}

            def mk_hook(dirs):
                def hook(k, u, ctx):
                    return dirs.get(k, u) if k in dirs else u
                return hook
            cur = {}
            cur_perf = perf0
            for it in range(40):
                if time.time() - tstart > spec.get("budget_s", 8.0) * 1.5:
                    break
                k = 0
                u0 = cur.get(k)
                if u0 is None:
                    r_ = random.Random("%s/init/%d" % (ds, k))
                    u0 = np.array([r_.gauss(0, 1) for _ in range(dim)])
                    u0 = u0 / max(np.linalg.norm(u0), 1e-12)
                cand = u0 + 0.3 * np.array([hrng.gauss(0, 1) for _ in range(dim)])
                cand = cand / max(np.linalg.norm(cand), 1e-12)
                trial = dict(cur)
                trial[k] = cand
                try:
                    with warnings.catch_warnings():
                        warnings.simplefilter("ignore")
                        r = numeric.run_numeric(e["module"], e["func"], kw, ms, ds, dim, adversary={"direction": mk_hook(trial)})
                except (numeric.Unsupported, numeric.InvalidRun):
                    continue
                except Exception:
                    break
                counters["numeric_runs_compared"] += 1
                counters["hill_climb_runs"] = counters.get("hill_climb_runs", 0) + 1
                if r["perf"] > cur_perf:
                    cur, cur_perf = trial, r["perf"]
                    ratio = cur_perf / bound if bound > 1e-9 else (0.0 if cur_perf <= bound + 1e-7 else 1e9)
                    best[name] = max(best.get(name, 0.0), ratio)
                    if cur_perf > bound + slack * abs(bound) + 1e-7 and len(viol) < 10:
                        viol.append({"key": "real_run_beats_bound:" + name, "example": name, "kwargs": kw, "member_seed": ms, "dir_seed": ds,
                                     "dim": dim, "direction": [float(x) for x in cand],
                                     "what": "%s(%s): a real run (hill-climbed start) achieves %.8g, the library returns %.8g"
                                             % (e["func"], kw, cur_perf, bound)})
        # evolution strategy over member parameters / directions / inexactness choices (time-boxed)
        if forced is None and spec.get("es_s", 0) > 0:
            es_before = counters.get("es_runs", 0)
            def on_run(r, state, _name=name, _bound=bound, _kw=kw, _e=e, _slack=slack):
                counters["numeric_runs_compared"] += 1
                counters["es_runs"] = counters.get("es_runs", 0) + 1
                perf = r["perf"]
                ratio = perf / _bound if _bound > 1e-9 else (0.0 if perf <= _bound + 1e-7 else 1e9)
                if ratio > best.get(_name, -1e9):
                    best[_name] = ratio
                for mdesc in r["members"]:
                    families.add("es:" + mdesc.split("(")[0])
                if perf > _bound + _slack * abs(_bound) + 1e-7 and len(viol) < 10 and \
                        not any(v["key"] == "real_run_beats_bound:" + _name and "state" in v for v in viol):
                    viol.append({"key": "real_run_beats_bound:" + _name, "example": _name, "kwargs": _kw, "dim": es_dim,
                                 "state": state, "seed_tag": es_tag,
                                 "what": "%s(%s): a real run on %s (searched member parameters) achieves %.8g, the library returns %.8g "
                                         "(ratio %.4f)" % (_e["func"], _kw, r["members"], perf, _bound, ratio)})
            for es_dim in ((2, 1) if (spec["shard"] + len(sigs)) % 2 else (2, 3)):
                es_tag = "%d/%s/%d" % (spec["seed"], name, es_dim)
                acc = es_search(e, kw, es_dim, es_tag, time.time() + spec["es_s"] / 2.0, on_run)
                counters["es_improvements"] = counters.get("es_improvements", 0) + acc
            nrun += counters.get("es_runs", 0) - es_before
        if nrun:
            simulated.add(name)
            sigs.add("%s|%s|%s" % (name, ",".join("%s=%s" % (k, (round(v, 3) if isinstance(v, float) else v)) for k, v in sorted(kw.items()) if not isinstance(v, (list, dict))),
                                   ",".join(sorted(families))))
            if len(samples) < 3:
                samples.append({"example": name, "kwargs": kw, "bound": bound, "numeric_runs": nrun, "best_ratio_so_far": best.get(name)})
        else:
            not_simulated[name] = not_simulated.get(name, 0) + 1
            if probe_err:
                notes.append("not simulated: %s (%s)" % (name, probe_err))
    return {"counters": counters, "signatures": sorted(sigs), "samples": samples, "violations": viol,
            "observations": notes[:10],
            "extra": {"shard_wall_s": round(time.time() - t0, 1), "simulated": sorted(simulated),
                      "best_ratio_list": ["%s:%.4f" % (k, v) for k, v in sorted(best.items())],
                      "not_simulated": sorted(set(not_simulated) - simulated), "transcribed_methods_compared": sorted(transcribed)}}
