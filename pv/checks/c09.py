"""C09 - no real run of a modelled method on a real function beats the returned bound."""
import contextlib
import importlib
import io
import random
import time
import warnings

LEVEL = "exploration"
RULE = ("for each shipped example the numeric API of pv/numeric.py is swapped into the example module, so that the "
        "example's own method code RUNS NUMERICALLY on real members of the declared classes (pv/ref/members.py) with "
        "real primitive steps (exact prox / resolvent, exact line search, linear minimisation oracle, admissible "
        "inexact gradients), from starting points scaled so that the initial condition is active; for random admissible "
        "parameters the performance of many such runs (random members incl. the extreme ones, dimensions 1-4, random "
        "directions) is compared with the value PEPit returns (Clarabel, status optimal): performance <= bound*(1+1e-4) "
        "+ 1e-7. Examples the numeric side cannot execute (free leaf variables, Bregman / inexact-prox steps, LMIs, "
        "dual-value post-processing) are listed as not simulated. distinct = distinct (example, parameter bucket, "
        "member families)")
ASSUMPTIONS = ["pv/ref/members.py members are real members (self-tested)", "pv/numeric.py executes the example's own method code",
               "sampling of members/starting points: a bound that is too small by less than the gap between the best sampled "
               "run and the true worst case is invisible (evidence reports best ratio per example)"]
DECIDING_COUNTER = "numeric_runs_compared"
MIN_DECIDED = {"quick": 1500, "thorough": 60000}
REQUIRED_COUNTERS = {"quick": {"examples_simulated": 25}, "thorough": {"examples_simulated": 30}}
NSHARDS = 16


def post_merge(counters, extra):
    counters["examples_simulated"] = len(extra.get("simulated", []))
    br = extra.get("best_ratio", {})
    # best_ratio values were summed by the merger: keep only max semantics through the list form
    extra.pop("best_ratio", None)


def plan(tier, seed):
    return [{"name": "s%d" % i, "seed": seed, "shard": i, "draws": 1 if tier == "quick" else 25,
             "trials": 30 if tier == "quick" else 150, "budget_s": 4.5 if tier == "quick" else 40.0} for i in range(NSHARDS)]


def pep_bound(entry, kwargs):
    from pv import driver
    from pv.monitors import is_optimal_status
    bd = driver.boundary()
    mod = importlib.import_module(entry["module"])
    fn = getattr(mod, entry["func"])
    n0 = len(bd.records)
    with contextlib.redirect_stdout(io.StringIO()), warnings.catch_warnings():
        warnings.simplefilter("ignore")
        out = fn(**kwargs, wrapper="cvxpy", solver="CLARABEL", verbose=-1)
    statuses = [str(x["status"]).lower() for r in bd.records[n0:] for x in r["inner"]]
    ok = bool(statuses) and all(is_optimal_status(s) for s in statuses)
    return out[0], ok


def run_shard(spec):
    from pv import numeric
    from pv.ref import examples_table as ET
    t0 = time.time()
    counters = {"numeric_runs_compared": 0, "draws": 0}
    sigs, viol, samples, notes = set(), [], [], []
    simulated, not_simulated, best, best_run = set(), {}, {}, {}
    common_centre_needed = set()
    smooth_needed = set()
    entries = ET.EXAMPLES
    work = []
    if "replay" in spec:
        w = spec["replay"]
        e = [x for x in entries if x["name"] == w["example"]][0]
        work = [(e, w["kwargs"], [(w["member_seed"], w["dir_seed"], w["dim"])])]
    else:
        for i, e in enumerate(entries):
            if i % NSHARDS != spec["shard"]:
                continue
            for k in range(spec["draws"] + 1):
                rng = random.Random("c09/%d/%s/%d" % (spec["seed"], e["name"], k))
                kw = dict(e["base"]) if k == 0 else e["gen"](rng)
                work.append((e, kw, None))
    for e, kw, forced in work:
        name = e["name"]
        if name in not_simulated and not_simulated[name] >= 2:
            continue
        # can the numeric side execute this example at all?
        probe_err = None
        trials = forced
        if trials is None:
            trials = []
            for t in range(spec["trials"]):
                trials.append(("m%d/%s/%d" % (spec["seed"], name, t // 3), "d%d/%s/%d" % (spec["seed"], name, t), 1 + (t % 4)))
        try:
            bound, ok = pep_bound(e, kw)
        except Exception as ex:
            counters["pep_exceptions:" + type(ex).__name__] = counters.get("pep_exceptions:" + type(ex).__name__, 0) + 1
            continue
        if not ok or bound is None:
            counters["skipped_not_optimal"] = counters.get("skipped_not_optimal", 0) + 1
            continue
        counters["draws"] += 1
        tstart = time.time()
        best_run.pop(name, None)
        nrun = 0
        families = set()
        for (ms, ds, dim) in trials:
            if time.time() - tstart > spec.get("budget_s", 8.0) and forced is None:
                break
            try:
                with warnings.catch_warnings():
                    warnings.simplefilter("ignore")
                    adv = {"common_centre": True} if (hash(ds) % 4 == 0 or name in common_centre_needed) else None
                    if name in smooth_needed:
                        adv = dict(adv or {}, smooth_only=True)
                    try:
                        r = numeric.run_numeric(e["module"], e["func"], kw, ms, ds, dim, adversary=adv)
                    except numeric.InvalidRun:
                        if adv is None:
                            r = numeric.run_numeric(e["module"], e["func"], kw, ms, ds, dim, adversary={"common_centre": True})
                            common_centre_needed.add(name)
                        else:
                            raise
            except numeric.Unsupported as ex:
                probe_err = str(ex)[:80]
                if "non-smooth" in str(ex):
                    smooth_needed.add(name)
                counters["unsupported_runs"] = counters.get("unsupported_runs", 0) + 1
                continue
            except numeric.InvalidRun:
                counters["invalid_runs"] = counters.get("invalid_runs", 0) + 1
                continue
            except Exception as ex:
                counters["numeric_errors:" + type(ex).__name__] = counters.get("numeric_errors:" + type(ex).__name__, 0) + 1
                if len(notes) < 6:
                    import traceback
                    notes.append("%s: %s" % (name, traceback.format_exc()[-300:]))
                probe_err = type(ex).__name__
                continue
            nrun += 1
            counters["numeric_runs_compared"] += 1
            perf = r["perf"]
            for mdesc in r["members"]:
                families.add(mdesc.split("(")[0])
            ratio = perf / bound if bound > 1e-9 else (0.0 if perf <= bound + 1e-7 else 1e9)
            if name not in best or ratio > best[name]:
                best[name] = ratio
            if name not in best_run or perf > best_run[name][3]:
                best_run[name] = (ms, ds, dim, perf)
            if perf > bound + 1e-4 * abs(bound) + 1e-7:
                if len(viol) < 10 and not any(v["key"] == "real_run_beats_bound:" + name for v in viol):
                    viol.append({"key": "real_run_beats_bound:" + name, "example": name, "kwargs": kw,
                                 "member_seed": ms, "dir_seed": ds, "dim": dim,
                                 "what": "%s(%s): a real run on %s achieves %.8g, the library returns %.8g (ratio %.4f)"
                                         % (e["func"], kw, r["members"], perf, bound, ratio)})
        # hill-climb on the starting direction from the best run found (time-boxed)
        if nrun and forced is None and best_run.get(name) is not None and time.time() - tstart < spec.get("budget_s", 8.0) * 1.5:
            import numpy as np
            ms, ds, dim, perf0 = best_run[name]
            hrng = random.Random("c09h/%s/%s" % (name, ds))
            base_dirs = {}

            def mk_hook(dirs):
                def hook(k, u, ctx):
                    return dirs.get(k, u) if k in dirs else u
                return hook
            cur = {}
            cur_perf = perf0
            for it in range(40):
                if time.time() - tstart > spec.get("budget_s", 8.0) * 1.5:
                    break
                k = 0
                u0 = cur.get(k)
                if u0 is None:
                    r_ = random.Random("%s/init/%d" % (ds, k))
                    u0 = np.array([r_.gauss(0, 1) for _ in range(dim)])
                    u0 = u0 / max(np.linalg.norm(u0), 1e-12)
                cand = u0 + 0.3 * np.array([hrng.gauss(0, 1) for _ in range(dim)])
                cand = cand / max(np.linalg.norm(cand), 1e-12)
                trial = dict(cur)
                trial[k] = cand
                try:
                    with warnings.catch_warnings():
                        warnings.simplefilter("ignore")
                        r = numeric.run_numeric(e["module"], e["func"], kw, ms, ds, dim, adversary={"direction": mk_hook(trial)})
                except (numeric.Unsupported, numeric.InvalidRun):
                    continue
                except Exception:
                    break
                counters["numeric_runs_compared"] += 1
                counters["hill_climb_runs"] = counters.get("hill_climb_runs", 0) + 1
                if r["perf"] > cur_perf:
                    cur, cur_perf = trial, r["perf"]
                    ratio = cur_perf / bound if bound > 1e-9 else (0.0 if cur_perf <= bound + 1e-7 else 1e9)
                    best[name] = max(best.get(name, 0.0), ratio)
                    if cur_perf > bound + 1e-4 * abs(bound) + 1e-7 and len(viol) < 10:
                        viol.append({"key": "real_run_beats_bound:" + name, "example": name, "kwargs": kw, "member_seed": ms, "dir_seed": ds,
                                     "dim": dim, "direction": [float(x) for x in cand],
                                     "what": "%s(%s): a real run (hill-climbed start) achieves %.8g, the library returns %.8g"
                                             % (e["func"], kw, cur_perf, bound)})
        if nrun:
            simulated.add(name)
            sigs.add("%s|%s|%s" % (name, ",".join("%s=%s" % (k, (round(v, 3) if isinstance(v, float) else v)) for k, v in sorted(kw.items()) if not isinstance(v, (list, dict))),
                                   ",".join(sorted(families))))
            if len(samples) < 3:
                samples.append({"example": name, "kwargs": kw, "bound": bound, "numeric_runs": nrun, "best_ratio_so_far": best.get(name)})
        else:
            not_simulated[name] = not_simulated.get(name, 0) + 1
            if probe_err:
                notes.append("not simulated: %s (%s)" % (name, probe_err))
    return {"counters": counters, "signatures": sorted(sigs), "samples": samples, "violations": viol,
            "observations": notes[:10],
            "extra": {"shard_wall_s": round(time.time() - t0, 1), "simulated": sorted(simulated),
                      "best_ratio_list": ["%s:%.4f" % (k, v) for k, v in sorted(best.items())],
                      "not_simulated": sorted(set(not_simulated) - simulated)}}
