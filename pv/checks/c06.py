"""C06 - point / expression algebra is a faithful vector-space and inner-product calculus."""
import random

import numpy as np
import time
import warnings

LEVEL = "exploration"
RULE = ("every application of a DSL operator on Point/Expression (random expression trees of depth<=8 with zero, "
        "negative, repeated, cancelling, mirrored operands and int/float/bool scalars; plus the operator applications "
        "made while building generated PEP programs) is checked by a contract wrapped around the real dunder method: "
        "denotation under a random leaf assignment, operands unchanged, new result object, sense of comparisons; "
        "bad operand kinds must raise. distinct = distinct (operator, operand kinds, operand-shape buckets: #terms, "
        "zero coefficient present, mirrored keys, diagonal, constant, leaf)")
ASSUMPTIONS = ["pv/canon.py reads decomposition dictionaries correctly", "random-assignment identity testing in R^5 "
               "(a wrong non-zero polynomial vanishes at a random point with probability 0)"]
DECIDING_COUNTER = "operator_applications"
MIN_DECIDED = {"quick": 20000, "thorough": 1000000}
REQUIRED_COUNTERS = {"quick": {"negative_tests": 30}, "thorough": {"negative_tests": 30}}
NSHARDS = 16


def plan(tier, seed):
    n = 40000 if tier == "quick" else 1200000
    return [{"name": "s%d" % i, "seed": seed, "shard": i, "n_ops": n, "n_programs": 40 if tier == "quick" else 1000}
            for i in range(NSHARDS)]


SCALARS = [0, 1, -1, 2, 3, -2, 0.5, -0.25, 1.5, 1e-3, 7.0, True, False, 0.0, -0.0, 1e6, 1 / 3, 1e-12, 1e12, -1e-11, 1e-200, 3e-160, 10 ** 10, 4 * 10 ** 9, -(3 * 10 ** 9 + 7)]  # python ints whose products exceed 2**63


def _absmag(o):
    """sum of the absolute values of the terms of a Point / Expression / scalar (cancellation-aware size: rounding of a
    sum scales with its terms, not with its value)"""
    from pv import canon
    from pv.algebra import DIM
    from PEPit import Point, Expression
    if isinstance(o, Point):
        return sum(abs(c) for c in canon.point_coeffs(o).values())
    if isinstance(o, Expression):
        G, F, c = canon.expr_coeffs(o)
        return sum(abs(v) for v in G.values()) * DIM + sum(abs(v) for v in F.values()) + abs(c)
    return abs(float(o))


def tree_workload(rng, n_ops, mon):
    from PEPit import PEP, Point, Expression
    done = 0
    while done < n_ops:
        PEP()
        pts = [Point() for _ in range(rng.randint(1, 4))]
        exs = [Expression() for _ in range(rng.randint(0, 3))]
        for _ in range(rng.randint(20, 150)):
            done += 1
            r = rng.random()
            try:
                with warnings.catch_warnings():
                    warnings.simplefilter("ignore")
                    if r < 0.006 and exs:
                        # a matrix of expressions handed to PSDMatrix as a numpy array with python scalars in it: building the LMI is
                        # an operation too - it must not alter its operand, and must denote the entries as written
                        from PEPit import PSDMatrix
                        n_ = rng.randint(1, 3)
                        arr = np.empty((n_, n_), dtype=object)
                        for i_ in range(n_):
                            for j_ in range(n_):
                                arr[i_, j_] = rng.choice(exs) if rng.random() < 0.6 else rng.choice([1.0, 0, 2, -0.5])
                        before = [(id(arr[i_, j_]), arr[i_, j_] if isinstance(arr[i_, j_], (int, float)) else None) for i_ in range(n_) for j_ in range(n_)]
                        want = [mon.den(arr[i_, j_]) for i_ in range(n_) for j_ in range(n_)]
                        Mx = PSDMatrix(arr)
                        after = [(id(arr[i_, j_]), arr[i_, j_] if isinstance(arr[i_, j_], (int, float)) else None) for i_ in range(n_) for j_ in range(n_)]
                        mon.count += 1
                        mon.by_op["psd_matrix_construction"] = mon.by_op.get("psd_matrix_construction", 0) + 1
                        if before != after:
                            mon._viol("operand_mutated:PSDMatrix", "building a PSDMatrix rewrote entries of the array it was given", "PSDMatrix", arr[0, 0], None)
                        got = [mon.den(Mx[i_, j_]) for i_ in range(n_) for j_ in range(n_)]
                        if any(abs(g_ - w_) > 1e-9 * (1 + abs(w_)) for g_, w_ in zip(got, want) if np.isfinite(g_) and np.isfinite(w_)):
                            mon._viol("wrong_denotation:PSDMatrix", "entries of a PSDMatrix do not denote the entries it was given", "PSDMatrix", arr[0, 0], None)
                    elif r < 0.012:
                        # the documented constructor: a combination given by its decomposition, zero weights included
                        leaves = [p_ for p_ in pts if p_.get_is_leaf()] or pts[:1]
                        dd = {}
                        for p_ in rng.sample(leaves, min(len(leaves), rng.randint(1, 3))):
                            dd[p_] = rng.choice([0, 0.0, 1.0, -2.0, 0.5, 1e-12])
                        pts.append(Point(is_leaf=False, decomposition_dict=dd))
                    elif r < 0.16:
                        pts.append(rng.choice(pts) + rng.choice(pts))
                    elif r < 0.28:
                        pts.append(rng.choice(pts) - rng.choice(pts))
                    elif r < 0.33:
                        pts.append(-rng.choice(pts))
                    elif r < 0.43:
                        c = rng.choice(SCALARS)
                        pts.append(c * rng.choice(pts) if rng.random() < 0.5 else rng.choice(pts) * c)
                    elif r < 0.47:
                        c = rng.choice([x for x in SCALARS if x != 0])
                        pts.append(rng.choice(pts) / c)
                    elif r < 0.57:
                        exs.append(rng.choice(pts) * rng.choice(pts))
                    elif r < 0.62:
                        exs.append(rng.choice(pts) ** 2)
                    elif r < 0.66:
                        # cancellations and mirrored products
                        p, q = rng.choice(pts), rng.choice(pts)
                        exs.append(p * q - q * p if rng.random() < 0.5 else p * q + q * p)
                        pts.append(p - p)
                    elif exs and r < 0.74:
                        a = rng.choice(exs)
                        b = rng.choice(exs) if rng.random() < 0.7 else rng.choice(SCALARS)
                        exs.append(a + b if rng.random() < 0.5 else a - b)
                    elif exs and r < 0.79:
                        c = rng.choice(SCALARS)
                        a = rng.choice(exs)
                        exs.append(rng.choice([lambda: c + a, lambda: c - a, lambda: c * a, lambda: a * c])())
                    elif exs and r < 0.82:
                        exs.append(-rng.choice(exs))
                    elif exs and r < 0.85:
                        exs.append(rng.choice(exs) / rng.choice([x for x in SCALARS if x != 0]))
                    elif r < 0.90:
                        # augmented assignments: must rebind, never alter the object that was bound before
                        if exs and rng.random() < 0.6:
                            old = rng.choice(exs)
                            b = rng.choice(exs) if rng.random() < 0.6 else rng.choice(SCALARS)
                            snap, want = mon.snap(old), mon.den(old) + mon.den(b)
                            new = old
                            new += b
                            mag = 1.0 + _absmag(old) + _absmag(b)      # cancellation: rounding scales with the operands' TERMS
                        else:
                            old = rng.choice(pts)
                            b = rng.choice(pts)
                            snap, want = mon.snap(old), mon.den(old) - mon.den(b)
                            new = old
                            new -= b
                            mag = 1.0 + _absmag(old) + _absmag(b)
                        mon.count += 1
                        mon.by_op["augmented_assignment"] = mon.by_op.get("augmented_assignment", 0) + 1
                        if not mon.same_snap(snap, mon.snap(old)) or new is old:
                            mon._viol("operand_mutated:augmented_assignment", "an augmented assignment (+=, -=) altered the object bound before", "iadd", old, b)
                        elif not (np.all(np.isfinite(mon.den(new))) and np.all(np.isfinite(want)) and np.isfinite(mag)):
                            mon.by_op["skipped_nonfinite"] = mon.by_op.get("skipped_nonfinite", 0) + 1
                        elif not mon._close(mon.den(new), want, mag):
                            mon._viol("wrong_denotation:augmented_assignment", "augmented assignment denotes %r, operands give %r (operand magnitudes %r, %r)"
                                      % (mon.den(new), want, mon.den(old), mon.den(b)), "iadd", old, b)
                        (exs if hasattr(new, "counter") and type(new).__name__ == "Expression" else pts).append(new)
                    elif exs:
                        a = rng.choice(exs)
                        b = rng.choice(exs) if rng.random() < 0.6 else rng.choice(SCALARS)
                        k = rng.randrange(5)
                        if k == 0:
                            a <= b
                        elif k == 1:
                            a >= b
                        elif k == 2:
                            a == b
                        elif k == 3:
                            a < b
                        else:
                            a > b
            except ZeroDivisionError:
                pass
            if len(pts) > 40:
                pts = pts[:4] + rng.sample(pts[4:], 12)
            if len(exs) > 40:
                exs = exs[:3] + rng.sample(exs[3:], 12)
    return done


def negative_tests(acc_viol):
    """Operand kinds outside the documented ones must raise, never return."""
    import numpy as np
    from PEPit import PEP, Point, Expression
    PEP()
    p, q = Point(), Point()
    e, f = Expression(), Expression()
    d = p - q
    g = p * q + e
    bad = {
        "Point+int": lambda: p + 3, "Point+float": lambda: d + 0.5, "Point+Expression": lambda: p + e,
        "Point-Expression": lambda: p - g, "Point+None": lambda: p + None, "Point+str": lambda: p + "a",
        "Point+list": lambda: p + [q], "Point*str": lambda: p * "a", "Point*None": lambda: p * None,
        "Point*Expression": lambda: p * e, "Expression*Point": lambda: e * p, "Point*list": lambda: p * [1.0],
        "Point*complex": lambda: p * 1j, "Point*ndarray": lambda: p.__mul__(np.array([1.0, 2.0])),
        "Point**3": lambda: p ** 3, "Point**0.5": lambda: p ** 0.5, "Point**1": lambda: d ** 1,
        "Point**2.5": lambda: p ** 2.5, "Point**2.999": lambda: d ** 2.999, "Point**np.float64(2.5)": lambda: p ** np.float64(2.5),
        "Point**-2": lambda: p ** -2, "Point**2.0000001": lambda: p ** 2.0000001,
        "Point/Point": lambda: p / q, "Point/Expression": lambda: p / e, "Point/str": lambda: p / "2",
        "Point/None": lambda: p / None,
        "Expression*Expression": lambda: e * f, "Expression*derived": lambda: g * g, "Expression+Point": lambda: e + p,
        "Expression-Point": lambda: g - p, "Expression+None": lambda: e + None, "Expression+str": lambda: e + "1",
        "Expression+list": lambda: e + [1], "Expression*str": lambda: e * "2", "Expression*None": lambda: e * None,
        "Expression*complex": lambda: e * 1j, "Expression/Expression": lambda: e / f, "Expression/Point": lambda: e / p,
        "Expression/str": lambda: e / "2", "Expression<=Point": lambda: e <= p, "Expression>=Point": lambda: e >= p,
        "Expression==Point": lambda: e == p, "Expression<=str": lambda: e <= "a", "Expression==None": lambda: e == None,  # noqa
        "Expression>=list": lambda: g >= [1], "int-Point": lambda: 3 - p, "int+Point": lambda: 3 + p,
        "Expression**2": lambda: e ** 2,
        # fixed-width numpy integers are not python ints: unsigned ones wrap around under negation, narrow ones overflow
        "Expression+np.uint8": lambda: e + np.uint8(3), "Expression-np.uint8": lambda: g - np.uint8(3),
        "Expression<=np.uint8": lambda: e <= np.uint8(3), "Expression==np.uint64": lambda: e == np.uint64(3),
        "Expression*np.uint8": lambda: g * np.uint8(100), "Expression+np.int64": lambda: e + np.int64(2),
        "Expression-np.int32": lambda: e - np.int32(2), "Expression>=np.uint16": lambda: e >= np.uint16(7),
    }
    n = 0
    for name, fn in bad.items():
        n += 1
        try:
            r = fn()
        except Exception:
            continue
        acc_viol.append({"key": "undocumented_operand_accepted:" + name,
                         "what": "%s returned %r instead of raising" % (name, type(r).__name__), "case": name})
    return n


def run_shard(spec):
    from pv.algebra import AlgebraMonitor
    from pv import gen, driver
    t0 = time.time()
    if "replay" in spec:
        w = spec["replay"]
        spec = dict(spec, seed=w.get("seed", 0), shard=w.get("shard", 0), n_ops=w.get("n_ops", 4000),
                    n_programs=w.get("n_programs", 8), name=w.get("shard_name", "s%d" % w.get("shard", 0)))
    rng = random.Random("c06/%d/%d" % (spec["seed"], spec["shard"]))
    mon = AlgebraMonitor(seed=spec["seed"] * 1000 + spec["shard"]).install()
    viol = []
    counters = {}
    tree_workload(rng, spec.get("n_ops", 4000), mon)
    counters["tree_ops_driven"] = spec.get("n_ops", 4000)
    # operator applications made while building realistic models
    nprog = 0
    for i in range(spec.get("n_programs", 8)):
        prng = driver.case_rng(spec["seed"], spec["name"], i)
        prog = gen.gen_program(prng)
        try:
            gen.Machine().run(prog["ops"])
            nprog += 1
        except Exception:
            counters["program_build_exceptions"] = counters.get("program_build_exceptions", 0) + 1
    counters["programs_built_under_monitor"] = nprog
    mon.enabled = False
    nneg = negative_tests(viol) if spec["shard"] == 0 or "replay" in spec else 0
    if spec["shard"] != 0:
        nneg = negative_tests(viol)
    mon.enabled = True
    counters["negative_tests"] = nneg
    counters["operator_applications"] = mon.count
    for v in mon.violations:
        v = dict(v)
        v["rng"] = "c06/%d/%d" % (spec["seed"], spec["shard"])
        v.update({"seed": spec["seed"], "shard": spec["shard"], "n_ops": spec.get("n_ops", 4000),
                  "n_programs": spec.get("n_programs", 8), "shard_name": spec["name"]})
        viol.append(v)
    by_op = dict(mon.by_op)
    return {"counters": counters, "signatures": sorted(repr(s) for s in mon.signatures),
            "samples": [{"by_operator": by_op}], "violations": viol[:10],
            "extra": {"applications_by_operator": by_op, "shard_wall_s": round(time.time() - t0, 1)}}
