"""C12 - a model's result does not depend on what happened earlier in the process."""
import contextlib
import io
import json
import os
import random
import subprocess
import sys
import tempfile
import time
import warnings

LEVEL = "exploration"
RULE = ("pairs (history, B): B is a generated program; its canonical dump (class counters at PEP() time, every object "
        "crossing the wrapper boundary in order with sense/name/counter and float.hex coefficients keyed by leaf "
        "counters, solver used, results) taken FIRST IN A FRESH INTERPRETER must equal bit-for-bit the dump taken in "
        "a process that previously ran a random history: models built/solved/solved repeatedly/never solved/"
        "unbounded/infeasible/abandoned by injected exceptions at random lines (sys.monitoring failpoints)/nested "
        "PEP()/orphan objects created outside any PEP/null-object evaluations/shipped examples, under random verbosity. "
        "distinct = distinct (history kinds, B signature)")
ASSUMPTIONS = ["the solver is deterministic for bit-identical input (results compared at 1e-9 relative, reported bit-for-bit)"]
DECIDING_COUNTER = "pairs_compared"
MIN_DECIDED = {"quick": 40, "thorough": 1000}
REQUIRED_COUNTERS = {"quick": {"history_items": 100, "failpoints_fired": 5},
                     "thorough": {"history_items": 3000, "failpoints_fired": 100}}
NSHARDS = 16
HERE = os.path.dirname(os.path.abspath(__file__))


STANDINS = os.path.join(os.path.dirname(HERE), "standins")


def plan(tier, seed):
    n = 6 if tier == "quick" else 200
    # odd shards have the MOSEK stand-in importable (B may use wrapper="mosek"); even shards do not, so that the
    # library's own default-solver selection (no solver named) is exercised as in the test environment
    return [{"name": "s%d" % i, "seed": seed, "shard": i, "n_pairs": n, "extra_path": [STANDINS] if i % 2 else None}
            for i in range(NSHARDS)]


def _has_standin():
    return any(p.rstrip("/").endswith("standins") for p in sys.path)


def fresh_dump(prog, cfg, pre_orphans=None):
    from pv import main as pvmain
    d = tempfile.mkdtemp(prefix="c12_", dir=pvmain.SCRATCH if os.path.isdir(pvmain.SCRATCH) else None)
    try:
        inp, outp = os.path.join(d, "in.json"), os.path.join(d, "out.json")
        with open(inp, "w") as f:
            json.dump({"program": prog, "config": cfg, "pre_orphans": pre_orphans}, f)
        r = subprocess.run([sys.executable, "-B", os.path.join(os.path.dirname(HERE), "fresh.py"), inp, outp],
                           env=pvmain.shard_env([STANDINS] if _has_standin() else None), capture_output=True, text=True, timeout=600)
        if r.returncode != 0 or not os.path.exists(outp):
            return None, (r.stderr or "")[-400:]
        with open(outp) as f:
            return json.load(f), None
    finally:
        import shutil
        shutil.rmtree(d, ignore_errors=True)


EXAMPLES = [
    ("PEPit.examples.unconstrained_convex_minimization", "wc_gradient_descent", dict(L=1., gamma=1., n=2)),
    ("PEPit.examples.composite_convex_minimization", "wc_proximal_gradient", dict(L=1., mu=.1, gamma=1., n=2)),
    ("PEPit.examples.stochastic_and_randomized_convex_minimization", "wc_randomized_coordinate_descent_smooth_convex",
     dict(L=1., gamma=1., d=2, t0=1.)),
    ("PEPit.examples.unconstrained_convex_minimization", "wc_gradient_descent_quadratics", dict(mu=.1, L=1., gamma=1., n=2)),
    ("PEPit.examples.monotone_inclusions_variational_inequalities", "wc_proximal_point", dict(alpha=2., n=3)),
    ("PEPit.examples.fixed_point_problems", "wc_halpern_iteration", dict(n=3)),
]


def history_item(rng, counters):
    """Run one history item in this process. Returns its kind."""
    from pv import gen, driver
    from pv.failpoints import Failpoint, targets
    from pv.monitors import InjectedFault
    from pv.checks.c16 import nofinite_models
    kind = rng.choice(["solved", "solved", "built_only", "solved_twice", "nofinite", "failpoint", "failpoint",
                       "nested_pep", "orphans", "null_eval", "example", "scs_default", "verbose2", "bad_constructor", "bad_solve_option"])
    buf = io.StringIO()
    with contextlib.redirect_stdout(buf), warnings.catch_warnings():
        warnings.simplefilter("ignore")
        try:
            if kind in ("solved", "built_only", "solved_twice", "scs_default", "verbose2", "null_eval"):
                prog = gen.gen_program(rng)
                m = gen.Machine().run(prog["ops"])
                if kind != "built_only":
                    kw = {"verbose": rng.choice([0, 1]), "solver": "CLARABEL",
                          "return_primal_or_dual": rng.choice(["dual", "primal"])}
                    if kind == "scs_default":
                        if _has_standin():
                            kw["solver"] = "SCS"
                        else:
                            kw.pop("solver")
                    if kind == "verbose2":
                        kw["verbose"] = 2
                    if rng.random() < 0.15:
                        kw["dimension_reduction_heuristic"] = rng.choice(["trace", "logdet1"])
                    m.do_solve(kw)
                    if kind == "solved_twice":
                        m.do_solve(kw)
                        m.do_solve({"verbose": 0, "solver": "CLARABEL"})
                    if kind == "null_eval":
                        from PEPit.point import null_point
                        from PEPit.expression import null_expression
                        try:
                            null_point.eval(); null_expression.eval()
                        except Exception:
                            pass
            elif kind == "nofinite":
                for _k, prog in nofinite_models(rng)[:2]:
                    m = gen.Machine().run(prog["ops"])
                    m.do_solve({"verbose": 0, "solver": "CLARABEL"})
            elif kind == "failpoint":
                prog = gen.gen_program(rng)
                name = rng.choice(sorted(targets()))
                try:
                    with Failpoint(name, rng.randint(1, 40)) as fp:
                        m = gen.Machine().run(prog["ops"])
                        m.do_solve({"verbose": rng.choice([0, 1]), "solver": "CLARABEL"})
                except InjectedFault:
                    pass
                if fp.fired:
                    counters["failpoints_fired"] = counters.get("failpoints_fired", 0) + 1
                    counters["failpoint:" + name] = counters.get("failpoint:" + name, 0) + 1
            elif kind == "nested_pep":
                from PEPit import PEP
                prog = gen.gen_program(rng)
                ops = prog["ops"]
                m = gen.Machine()
                cut = rng.randint(1, len(ops) - 1)
                try:
                    m.run(ops[:cut])
                    PEP()                     # a new problem is created while the first one is half built
                    p2 = gen.gen_program(rng)
                    gen.Machine().run(p2["ops"][:rng.randint(1, len(p2["ops"]))])
                except Exception:
                    pass
            elif kind == "orphans":
                from pv.fresh import make_orphans
                make_orphans(rng)
            elif kind == "bad_constructor":
                # a model abandoned because a constructor refused its arguments (each attempt raises; whatever the constructor
                # had registered before raising stays behind)
                from PEPit import PEP, Point, Expression, PSDMatrix
                from PEPit.function import Function
                from PEPit.functions import SmoothConvexFunction, SmoothStronglyConvexFunction
                from PEPit.operators import LinearOperator
                pep = PEP()
                f1 = pep.declare_function(SmoothConvexFunction, L=1.)
                f2 = pep.declare_function(SmoothConvexFunction, L=2.)
                x = pep.set_initial_point()
                attempts = [lambda: Function(decomposition_dict={f1: 1., f2: 1.}), lambda: Function(is_leaf=False),
                            lambda: Point(decomposition_dict={x: 1.}), lambda: Point(is_leaf=False),
                            lambda: Expression(decomposition_dict={(x, x): 1.}), lambda: Expression(is_leaf=False),
                            lambda: pep.declare_function(SmoothStronglyConvexFunction, L=1.),
                            lambda: pep.declare_function(LinearOperator), lambda: PSDMatrix([[x ** 2, 1.], [1.]]),
                            lambda: pep.declare_block_partition(d=0), lambda: f1.gradient("x"), lambda: f1.add_point((x, x))]
                for k_ in rng.sample(range(len(attempts)), rng.randint(1, 4)):
                    try:
                        attempts[k_]()
                    except Exception:
                        pass
            elif kind == "bad_solve_option":
                prog = gen.gen_program(rng)
                m = gen.Machine().run(prog["ops"])
                m.do_solve(rng.choice([{"verbose": 0, "solver": "NOT_A_SOLVER"}, {"verbose": 0, "solver": "CLARABEL", "return_primal_or_dual": "both"},
                                       {"verbose": 0, "solver": "CLARABEL", "dimension_reduction_heuristic": "foo"}]))
            elif kind == "example":
                import importlib
                mod, fn, kw = rng.choice(EXAMPLES)
                getattr(importlib.import_module(mod), fn)(wrapper="cvxpy", solver="CLARABEL", verbose=rng.choice([-1, 0, 1]), **kw)
        except Exception as e:
            counters["history_exceptions:" + type(e).__name__] = counters.get("history_exceptions:" + type(e).__name__, 0) + 1
    counters["history_items"] = counters.get("history_items", 0) + 1
    counters["history:" + kind] = counters.get("history:" + kind, 0) + 1
    return kind


def small_B(rng):
    from pv import gen
    fam = rng.choice(["method", "method", "operator", "soup", "linear"])
    for _ in range(20):
        prog = gen.gen_program(rng, fam, {"N": rng.randint(1, 2)})
        if len(prog["ops"]) <= 45:
            return prog
    return prog


def results_close(a, b):
    ra, rb = a.get("results", {}), b.get("results", {})
    if ra.get("outcome") != rb.get("outcome"):
        return False, "outcome %s vs %s" % (ra.get("outcome"), rb.get("outcome"))
    va, vb = ra.get("value_float"), rb.get("value_float")
    if (va is None) != (vb is None):
        return False, "value %r vs %r" % (va, vb)
    if va is not None and abs(va - vb) > 1e-9 * (1 + abs(va)):
        return False, "value %.15g vs %.15g" % (va, vb)
    return True, None


def run_shard(spec):
    from pv import gen, driver, dump
    from pv.fresh import run_B
    t0 = time.time()
    counters = {"pairs_compared": 0}
    sigs, viol, samples, obs_notes = set(), [], [], []
    pairs = []
    if "replay" in spec:
        w = spec["replay"]
        pairs = [(w["rng"], w.get("history_len", 4))]
    else:
        for i in range(spec["n_pairs"]):
            pairs.append(("c12/%d/%d/%d" % (spec["seed"], spec["shard"], i), None))
    for sd, hl in pairs:
        rng = random.Random(sd)
        B = small_B(rng)
        cfg = {"wrapper": "cvxpy", "solver": "CLARABEL", "verbose": 0, "mode": rng.choice(["dual", "primal"]),
               "eval_null": True}
        if _has_standin():
            if rng.random() < 0.4:
                cfg["wrapper"] = "mosek"    # MOSEK back-end through the stand-in: the recorded Task calls are compared too
        elif rng.random() < 0.3:
            cfg.pop("solver")           # library default (SCS here): the default must not depend on history either
        if rng.random() < 0.25 and "solver" in cfg:
            cfg["dimred"] = rng.choice(["logdet2", "logdet3", "trace"])    # heuristic weights are part of the solver input
        fresh, err = fresh_dump(B, cfg)
        if fresh is None:
            counters["fresh_failed"] = counters.get("fresh_failed", 0) + 1
            obs_notes.append("fresh run failed: %s" % err)
            continue
        # a history made only of objects created outside any problem, in a process that never created a PEP
        if sd.endswith("/0") or "replay" in spec:
            first, err = fresh_dump(B, cfg, pre_orphans=rng.randint(0, 10 ** 6))
            counters["orphans_first_in_process_pairs"] = counters.get("orphans_first_in_process_pairs", 0) + 1
            if first is not None:
                d0 = dump.first_difference(json.loads(json.dumps(fresh)), first)
                if d0:
                    viol.append({"key": "solver_input_depends_on_history:orphans_before_first_pep",
                                 "what": "objects created before the first PEP() of the process change program B: %s" % d0[:200],
                                 "rng": sd, "history": ["orphans(first in process)"], "program": B, "config": cfg})
        kinds = []
        for _ in range(hl if hl is not None else rng.randint(1, 6)):
            kinds.append(history_item(rng, counters))
        # B's own program abandoned half-way by an injected exception (same sizes as B), then B itself: always three
        # times inside the translator B's back-end uses (a fault there leaves whatever module-level scratch state the
        # translation keeps), and half of the time once more at a random other place
        from pv.failpoints import Failpoint, targets
        from pv.monitors import InjectedFault
        translator = "expression_to_sparse_matrices" if cfg.get("wrapper") == "mosek" else "expression_to_matrices"
        plan_ab = [translator] * 3 + ([rng.choice(sorted(targets()))] if rng.random() < 0.5 else [])
        n_events_cache = {}
        for name in plan_ab:
            buf = io.StringIO()
            # dry run counting the line events of the target while B is built and solved, then abandon B at a
            # uniformly drawn one of them
            if name not in n_events_cache:
                n_events_cache[name] = 0
                try:
                    with contextlib.redirect_stdout(buf), Failpoint(name, 10 ** 9) as fp0:
                        mB = gen.Machine().run(B["ops"])
                        mB.do_solve(driver.solve_kwargs(cfg))
                    n_events_cache[name] = fp0.hits
                except Exception:
                    pass
            n_events = n_events_cache[name]
            try:
                with contextlib.redirect_stdout(buf), Failpoint(name, rng.randint(1, max(1, n_events))) as fp:
                    mB = gen.Machine().run(B["ops"])
                    mB.do_solve(driver.solve_kwargs(cfg))
            except InjectedFault:
                pass
            except Exception:
                pass
            if fp.fired:
                counters["failpoints_fired"] = counters.get("failpoints_fired", 0) + 1
            kinds.append("B_abandoned_at:" + name)
            counters["B_abandoned:%s:%s" % (name, "fired" if fp.fired else "not_reached")] = \
                counters.get("B_abandoned:%s:%s" % (name, "fired" if fp.fired else "not_reached"), 0) + 1
            counters["history_items"] = counters.get("history_items", 0) + 1
        cfg_h = dict(cfg)
        cfg_h["verbose"] = rng.choice([0, 1, 2]) if "solver" in cfg else rng.choice([0, 1])
        try:
            hist, _m = run_B(B, cfg_h)
        except Exception as e:
            counters["B_after_history_exception:" + type(e).__name__] = counters.get("B_after_history_exception:" + type(e).__name__, 0) + 1
            viol.append({"key": "B_raises_after_history:" + type(e).__name__,
                         "what": "program B raised %r after history %s but ran in a fresh interpreter" % (e, kinds),
                         "rng": sd, "history": kinds, "program": B})
            continue
        counters["pairs_compared"] += 1
        sigs.add(",".join(sorted(set(kinds))) + "#" + gen.signature(B))
        # solver input: bit-for-bit
        fi = json.loads(json.dumps(fresh))
        hi = json.loads(json.dumps(hist))
        res_f = [s.pop("results", None) for s in fi.get("solves", [])]
        res_h = [s.pop("results", None) for s in hi.get("solves", [])]
        diff = dump.first_difference(fi, hi)
        if diff:
            loc = diff.split(":")[0]
            key = "solver_input_depends_on_history:" + ("class_state" if "class_state" in loc else
                                                        ("null_objects" if "null_" in loc else
                                                         ("solver_choice" if ".solver" in loc else "constraint_data")))
            viol.append({"key": key, "what": "fresh vs after-history dumps differ at %s (history %s)" % (diff[:200], kinds),
                         "rng": sd, "history": kinds, "program": B, "config": cfg})
        else:
            counters["dumps_identical"] = counters.get("dumps_identical", 0) + 1
            bit = json.dumps(res_f, sort_keys=True) == json.dumps(res_h, sort_keys=True)
            counters["results_bit_identical" if bit else "results_not_bit_identical"] = \
                counters.get("results_bit_identical" if bit else "results_not_bit_identical", 0) + 1
            for a, b in zip(fresh.get("solves", []), hist.get("solves", [])):
                ok, why = results_close(a, b)
                if not ok:
                    viol.append({"key": "result_depends_on_history", "what": "same solver input, different result: %s (history %s)" % (why, kinds),
                                 "rng": sd, "history": kinds, "program": B, "config": cfg})
        if len(samples) < 2:
            samples.append({"rng": sd, "history": kinds, "B_meta": B["meta"], "B_ops": len(B["ops"]),
                            "n_sent": len(fresh["solves"][0]["sent"]) if fresh.get("solves") and "sent" in fresh["solves"][0] else None,
                            "digest": dump.digest(fi)})
    from pv.failpoints import Failpoint
    return {"counters": counters, "signatures": sorted(sigs), "samples": samples, "violations": viol[:10],
            "observations": obs_notes[:5], "extra": {"shard_wall_s": round(time.time() - t0, 1)}}
