"""C04 - class constraints are complete and independent of declaration order."""
import contextlib
import io
import random
import time
import warnings

import numpy as np

LEVEL = "exploration"
RULE = ("for each of the 24 classes and random admissible parameters, one multiset of samples (ordinary evaluations, "
        "repeated subgradients at one point, stationary points, fixed points, samples arriving through proximal steps and "
        "through composite functions) is recorded under several declaration orders through the real API; after "
        "set_class_constraints() the generated constraints/LMIs are turned into canonical functionals with leaves "
        "labelled by role; oracle A: the canonical sets are equal across orders; oracle B: they equal the independent "
        "reference implementation of the documented conditions (pv/ref/conditions.py) - anything unmatched is decided by "
        "an SDP implication test (witness = a (Gram, F) allowed by one side and excluded by the other); thorough tier "
        "also solves a small PEP under permuted declarations; attainment: small PEPs over the 8 function classes that have an "
        "explicit canonical interpolant are solved and the interpolant of the returned samples (pv/interp.py) must pass "
        "through them and satisfy the definition of its class at random points. distinct = distinct (class, #samples, event kinds, "
        "stationary position)")
ASSUMPTIONS = ["pv/ref/conditions.py is a faithful transcription of the documented conditions (DESIGN Appendix A)",
               "pv/canon.py and pv/ref/sym.py", "implication SDPs solved to 'optimal' by Clarabel; otherwise inconclusive for that pair",
               "'attained by a real member' is constructed (pv/interp.py) for the 8 function classes with an explicit canonical "
               "interpolant; for the operator / linear / quadratic / QG / RSI-EB classes the interpolation theorems are trusted as published"]
DECIDING_COUNTER = "histories_judged"
MIN_DECIDED = {"quick": 400, "thorough": 12000}
REQUIRED_COUNTERS = {"quick": {"classes_covered": 24, "interpolants_built": 500},
                     "thorough": {"classes_covered": 24, "interpolants_built": 8000}}
NSHARDS = 16


def post_merge(counters, extra):
    counters["classes_covered"] = len(extra.get("classes", []))


def plan(tier, seed):
    n = 32 if tier == "quick" else 1500
    return [{"name": "s%d" % i, "seed": seed, "shard": i, "n_per_class": n, "solve_permuted": tier == "thorough",
             "n_attain": 16 if tier == "quick" else 400}
            for i in range(NSHARDS)]


# ---- scenario: a multiset of events, executable in any order -------------------------------------------------
def make_scenario(rng, cls):
    from pv.classes import CLASSES
    kind, diff, sampler = CLASSES[cls]
    sc = {"cls": cls, "params": None, "n_points": rng.randint(1, 3), "events": []}
    if cls == "BlockSmoothConvexFunction":
        d = rng.choice([1, 2, 3])
        sc["d"] = d
        sc["params"] = {"L": [rng.choice([1.0, 2.0, 0.5]) for _ in range(d)]}
        if rng.random() < 0.3:
            sc["params"] = {"L": [rng.choice([1, 2, 4, 10]) for _ in range(d)]}     # integers, as in the class docstring's example
    else:
        from pv.classes import json_params
        sc["params"] = json_params(sampler(rng))
        if rng.random() < 0.15:
            sc["params"] = {k_: (int(v_) if isinstance(v_, float) and abs(v_) < 1e6 and v_ == int(v_) else v_) for k_, v_ in sc["params"].items()}
    ev = []
    npts = sc["n_points"]
    for p in range(npts):
        ev.append(["eval", p])
    nondiff = not diff
    if nondiff and rng.random() < 0.6:
        ev.append(["eval", rng.randrange(npts)])           # repeated subgradient at one point
    nstat = rng.choice([0, 1, 1, 1, 2]) if cls != "SmoothStronglyConvexQuadraticFunction" else 0
    if cls in ("ConvexQGFunction", "RsiEbFunction"):
        nstat = rng.choice([1, 1, 2, 0])        # 0: the class creates the minimiser it is defined with by itself
    for _ in range(nstat):
        ev.append(["stat"])
    if kind == "operator" and cls != "LinearOperator" and rng.random() < 0.3:
        ev.append(["fixed"])
    if cls not in ("LinearOperator",) and rng.random() < 0.4:
        ev.append(["prox", rng.randrange(npts), rng.choice([1.0, 0.5])])
    if cls == "LinearOperator":
        for p in range(rng.randint(1, 2)):
            ev.append(["teval", rng.randrange(npts)])
    if cls not in ("LinearOperator", "SmoothStronglyConvexQuadraticFunction", "BlockSmoothConvexFunction") and rng.random() < 0.3:
        ev.append(["comp_eval"])                           # sample arriving through a composite function, at a fresh point
    if cls not in ("LinearOperator", "SmoothStronglyConvexQuadraticFunction", "BlockSmoothConvexFunction") and rng.random() < 0.3:
        ev.append(["comp_stat", rng.choice([2.0, 0.5, 1.0])])   # stationary point declared on a single-leaf scaled composite
    if cls == "NonexpansiveOperator" and rng.random() < 0.6:
        sc["with_v"] = True                                # the documented option: infimal displacement vector
    for i, e in enumerate(ev):
        e.append("r%d" % i)
    sc["events"] = ev
    if rng.random() < 0.35:
        sc["names"] = [rng.choice(["x", "x", "y", None]) for _ in range(npts)]
    if cls != "BlockSmoothConvexFunction" and sc["params"] and rng.random() < 0.15:
        from pv.classes import json_params
        sc["declared_with"] = json_params(sampler(rng))
    if rng.random() < 0.3 and cls not in ("ConvexQGFunction", "RsiEbFunction"):
        sc["intermediate_solve_after"] = rng.randint(1, max(1, len(ev) - 1))
    return sc


def orders(rng, sc, k=3):
    ev = sc["events"]
    base = list(range(len(ev)))
    # natural order: stationary points first
    nat = sorted(base, key=lambda i: (0 if ev[i][0] == "stat" else 1, i))
    out = [nat]
    last = sorted(base, key=lambda i: (1 if ev[i][0] == "stat" else 0, i))
    if last != nat:
        out.append(last)
    for _ in range(k):
        p = base[:]
        rng.shuffle(p)
        if p not in out:
            out.append(p)
    return out[:k + 1]


def execute(sc, order):
    """Run the scenario in the given order through the real API. Returns (pep, f, label) with role labels."""
    from PEPit import PEP, Point, Expression
    from PEPit.primitive_steps import proximal_step
    from PEPit.functions import ConvexFunction
    from PEPit.operators import MonotoneOperator
    from pv.classes import get_class, real_params, CLASSES
    pep = PEP()
    cls = sc["cls"]
    params = real_params(sc["params"])
    if cls == "BlockSmoothConvexFunction":
        part = pep.declare_block_partition(d=sc["d"])
        params["partition"] = part
    labels = {}
    n_before_decl = (len(Point.list_of_leaf_points), len(Expression.list_of_leaf_expressions))
    if sc.get("declared_with"):
        # declared with other parameter values, then the documented attributes are set to the scenario's parameters
        # (a parameter sweep on one object): the conditions are those of the CURRENT values
        f = pep.declare_function(get_class(cls), **real_params(sc["declared_with"]))
        for k_, v_ in params.items():
            setattr(f, k_, v_)
    else:
        f = pep.declare_function(get_class(cls), **params)

    def snapshot():
        return len(Point.list_of_leaf_points), len(Expression.list_of_leaf_expressions)

    def label_new(before, role):
        np0, ne0 = before
        for k, p in enumerate(Point.list_of_leaf_points[np0:]):
            labels[id(p)] = "%s:p%d" % (role, k)
        for k, e in enumerate(Expression.list_of_leaf_expressions[ne0:]):
            labels[id(e)] = "%s:e%d" % (role, k)

    label_new(n_before_decl, "decl")
    if sc.get("with_v"):
        b = snapshot()
        f.v = Point()
        label_new(b, "v")
    b = snapshot()
    # labels are free-form: scenarios may give the same name to different points (sc["names"], fixed per scenario)
    names = sc.get("names") or [None] * sc["n_points"]
    pts = [pep.set_initial_point(name=names[i] if i < len(names) else None) for i in range(sc["n_points"])]
    label_new(b, "init")
    occ = {}
    mid = sc.get("intermediate_solve_after")
    for pos, i in enumerate(order):
        if mid is not None and pos == mid:
            # what an intermediate solve does to the function: the class constraints are generated once already
            b = snapshot()
            f.set_class_constraints()
            label_new(b, "solve_time")
        e = sc["events"][i]
        # interchangeable events (same kind, same arguments) get their role from the execution order among themselves
        rk = repr(e[:-1])
        occ[rk] = occ.get(rk, 0) + 1
        role = "%s#%d" % (rk, occ[rk])
        b = snapshot()
        if e[0] == "eval":
            f.oracle(pts[e[1]])
        elif e[0] == "teval":
            f.T.gradient(pts[e[1]])
        elif e[0] == "stat":
            f.stationary_point()
        elif e[0] == "fixed":
            f.fixed_point()
        elif e[0] == "prox":
            proximal_step(pts[e[1]], f, e[2])
        elif e[0] == "comp_stat":
            F = e[1] * f
            F.stationary_point()
        elif e[0] == "comp_eval":
            other = pep.declare_function(ConvexFunction if CLASSES[cls][0] == "function" else MonotoneOperator)
            F = f + other
            y = Point()
            F.oracle(y)
        label_new(b, role)
    b = snapshot()
    f.set_class_constraints()
    label_new(b, "solve_time")
    # leaves created by block decompositions get their role from the decomposed point and the block number
    if cls == "BlockSmoothConvexFunction":
        from pv import canon

        def plabel(p):
            return repr(sorted((labels.get(id(k), "?"), round(v, 12)) for k, v in canon.point_coeffs(p).items()))
        for x, blocks in f.partition.blocks_dict.items():
            for k, blk in enumerate(blocks[:-1]):
                labels[id(blk)] = "blk(%s,%d)" % (plabel(x), k)
    return pep, f, labels


def observed(f, labels):
    """canonical keys of what PEPit generated: (set of functional keys with multiplicity, list of sym LMI keys)."""
    from pv.ref.sym import E
    lab = lambda leaf: labels.get(id(leaf), "?%d" % id(leaf))
    keys = {}
    for c in f.list_of_class_constraints:
        k = E.of(c.expression).key(c.equality_or_inequality, lab)
        if k is not None:
            keys[k] = keys.get(k, 0) + 1
    lm = []
    for M in f.list_of_class_psd:
        n = M.shape[0]
        ent = [[E.of(M[i, j]) for j in range(n)] for i in range(n)]
        lm.append(lmi_key(ent, lab))
    return keys, sorted(lm)


def lmi_key(ent, lab):
    """key of sym(matrix) up to simultaneous row/column permutation: sorted multiset of entry keys with the
    sorted pair of (row signature, col signature) where the signature of index i is the key of the diagonal entry."""
    from pv.ref.conditions import sym_matrix
    n = len(ent)
    S = sym_matrix(ent)
    diag = [S[i][i].rawkey(lab) for i in range(n)]
    items = []
    for i in range(n):
        for j in range(i, n):
            items.append((tuple(sorted([diag[i], diag[j]], key=repr)), S[i][j].rawkey(lab)))
    return repr(sorted(items, key=repr))


def reference_keys(f, labels):
    from pv.ref.conditions import reference
    lab = lambda leaf: labels.get(id(leaf), "?%d" % id(leaf))
    conds, lmis = reference(f)
    keys = {}
    for c in conds:
        k = c["expr"].key(c["sense"], lab)
        if k is not None:
            keys.setdefault(k, []).append(c)
    lm = sorted(lmi_key(L["matrix"], lab) for L in lmis if len(L["matrix"]) > 0 or True)
    return keys, lm, conds, lmis


# ---- implication test ----------------------------------------------------------------------------------------
def implication_gap(target, sense, side_conds, side_lmis, idx):
    """max of `target` (and of -target for equalities) over {G>=0, tr G<=1, |F|<=1, side constraints}.
    Returns (gap, status): gap > tol means target is NOT implied by the side."""
    import cvxpy as cp
    n, m = idx.n, idx.m
    G = cp.Variable((n, n), symmetric=True)
    F = cp.Variable(m) if m else None

    def aff(e):
        A, a, c = e.num(idx)
        v = cp.sum(cp.multiply(A, G)) + c
        if m and np.any(a != 0):
            v = v + a @ F
        return v

    cons = [G >> 0, cp.trace(G) <= 1]
    if m:
        cons += [F <= 1, F >= -1]
    for e, s in side_conds:
        cons.append(aff(e) <= 0 if s == "inequality" else aff(e) == 0)
    for M in side_lmis:
        k = len(M)
        if k == 0:
            continue
        X = cp.Variable((k, k), symmetric=True)
        cons.append(X >> 0)
        for i in range(k):
            for j in range(k):
                cons.append(X[i, j] == aff(M[i][j]))
    worst = 0.0
    status = "optimal"
    for sgn in ([1.0] if sense == "inequality" else [1.0, -1.0]):
        prob = cp.Problem(cp.Maximize(sgn * aff(target)), cons)
        try:
            with warnings.catch_warnings():
                warnings.simplefilter("ignore")
                prob.solve(solver="CLARABEL")
        except Exception:
            return None, "solver_error"
        if prob.status != "optimal":
            return None, prob.status
        worst = max(worst, float(prob.value))
    return worst, status


ATTAIN_CLASSES = ("ConvexFunction", "StronglyConvexFunction", "SmoothConvexFunction", "SmoothStronglyConvexFunction",
                  "SmoothFunction", "ConvexLipschitzFunction", "ConvexIndicatorFunction", "ConvexSupportFunction")


def attainment_case(rng, cls):
    """A small PEP whose leaf function(s) include one of class cls; solved; returns (problem, value, [(function, cls, params)]).
    The method is chosen so that the problem is bounded for every admissible parameter."""
    from PEPit import PEP
    from PEPit import functions as Fn
    from PEPit.primitive_steps import proximal_step
    problem = PEP()
    N = rng.randint(1, 3)
    L = rng.choice([1.0, 0.5, 3.0, float(rng.uniform(0.3, 5.0))])
    mu = L * rng.choice([0.05, 0.2, 0.6, float(rng.uniform(0.01, 0.9))])
    out = []
    if cls in ("SmoothConvexFunction", "SmoothStronglyConvexFunction"):
        prm = {"L": L} if cls == "SmoothConvexFunction" else {"L": L, "mu": mu}
        f = problem.declare_function(getattr(Fn, cls), **prm)
        xs = f.stationary_point()
        fs = f(xs)
        x = x0 = problem.set_initial_point()
        problem.set_initial_condition((x0 - xs) ** 2 <= 1)
        for _ in range(N):
            x = x - (rng.uniform(0.1, 1.9) / L) * f.gradient(x)
        metric = rng.choice(["f", "g", "x"])
        problem.set_performance_metric({"f": f(x) - fs, "g": f.gradient(x) ** 2, "x": (x - xs) ** 2}[metric])
        out.append((f, cls, prm))
    elif cls == "SmoothFunction":
        prm = {"L": L}
        f = problem.declare_function(Fn.SmoothFunction, **prm)
        x = x0 = problem.set_initial_point()
        g, f0 = f.oracle(x0)
        last_g = g
        for _ in range(N):
            last_g = f.gradient(x)
            x = x - (rng.uniform(0.1, 1.0) / L) * last_g
        problem.set_initial_condition(f0 - f(x) <= 1)
        problem.set_performance_metric(last_g ** 2)
        out.append((f, cls, prm))
    elif cls in ("ConvexFunction", "StronglyConvexFunction", "ConvexLipschitzFunction"):
        M = rng.choice([1.0, 0.4, 2.5])
        prm = {} if cls == "ConvexFunction" else ({"mu": mu} if cls == "StronglyConvexFunction" else {"M": M})
        f = problem.declare_function(getattr(Fn, cls), **prm)
        xs = f.stationary_point()
        fs = f(xs)
        x = x0 = problem.set_initial_point()
        problem.set_initial_condition((x0 - xs) ** 2 <= 1)
        use_subgradient = cls == "ConvexLipschitzFunction" and rng.random() < 0.6
        fx = None
        for _ in range(N):
            if use_subgradient:
                x = x - rng.uniform(0.1, 1.0) * f.gradient(x)
            else:
                x, _g, fx = proximal_step(x, f, rng.uniform(0.2, 3.0))
        if rng.random() < 0.5 and cls == "ConvexLipschitzFunction":
            f.gradient(x0)           # a second subgradient at the first point
        problem.set_performance_metric(f(x) - fs)
        out.append((f, cls, prm))
    else:
        # an indicator / support function as the non-smooth term of a composite problem solved by proximal gradient
        prm1 = {"L": L, "mu": mu}
        f = problem.declare_function(Fn.SmoothStronglyConvexFunction, **prm1)
        if cls == "ConvexIndicatorFunction":
            prm = {"D": rng.choice([float("inf"), float("inf"), 1.0, 2.5])}
        else:
            prm = {"M": rng.choice([float("inf"), 1.0, 0.3])}
        h = problem.declare_function(getattr(Fn, cls), **prm)
        F = f + h
        xs = F.stationary_point()
        x = x0 = problem.set_initial_point()
        problem.set_initial_condition((x0 - xs) ** 2 <= 1)
        if cls == "ConvexIndicatorFunction" and rng.random() < 0.5:
            x0, _g0, _h0 = proximal_step(x0, h, 1.0)     # start inside the set
            x = x0
        for _ in range(N):
            gam = rng.uniform(0.1, 1.9) / L
            x, _g, _hx = proximal_step(x - gam * f.gradient(x), h, gam)
        problem.set_performance_metric((x - xs) ** 2)
        out.append((h, cls, prm))
        out.append((f, "SmoothStronglyConvexFunction", prm1))
    with contextlib.redirect_stdout(io.StringIO()), warnings.catch_warnings():
        warnings.simplefilter("ignore")
        val = problem.solve(verbose=0, solver="CLARABEL", return_primal_or_dual="primal")
    return problem, val, out


def attainment(spec, counters, sigs, viol, n_cases):
    """'a finite primal value is attained by a real member of the class': the explicit canonical interpolant (pv/interp.py)
    of the samples returned by the solver must reproduce them and must satisfy the definition of its class."""
    from pv import interp, oracles
    from pv import driver
    from pv.monitors import is_optimal_status
    bd = driver.boundary()
    for ci, cls in enumerate(ATTAIN_CLASSES):
        for k in range(n_cases):
            if "replay" in spec:
                if spec["replay"].get("attain_cls") != cls or k > 0:
                    continue
                sd = spec["replay"]["rng"]
            else:
                if (ci + k) % NSHARDS != spec["shard"] and n_cases < NSHARDS:
                    continue
                sd = "c04att/%d/%s/%d/%d" % (spec["seed"], cls, spec["shard"], k)
            rng = random.Random(sd)
            n0 = len(bd.records)
            try:
                problem, val, funcs = attainment_case(rng, cls)
            except Exception as ex:
                counters["attainment_exceptions:" + type(ex).__name__] = counters.get("attainment_exceptions:" + type(ex).__name__, 0) + 1
                continue
            recs = bd.records[n0:]
            sts = [str(x["status"]).lower() for r in recs for x in r["inner"]]
            if val is None or not sts or not all(is_optimal_status(s_) for s_ in sts):
                counters["attainment_not_optimal"] = counters.get("attainment_not_optimal", 0) + 1
                continue
            G = np.asarray(problem.G_value, dtype=float)
            Fv = np.asarray(problem.F_value, dtype=float)
            scale = 1.0 + max(float(np.max(np.abs(G))) if G.size else 0.0, float(np.max(np.abs(Fv))) if Fv.size else 0.0)
            for f, fcls, prm in funcs:
                trip = [(np.asarray(p.eval(), dtype=float), np.asarray(g.eval(), dtype=float), float(v.eval()))
                        for (p, g, v) in f.list_of_points]
                it = interp.build(fcls, prm, trip)
                if it is None:
                    continue
                counters["interpolants_built"] = counters.get("interpolants_built", 0) + 1
                counters["interpolant:" + fcls] = counters.get("interpolant:" + fcls, 0) + 1
                try:
                    rep = it.reproduction_defects()
                    mem = it.membership_defects(rng)
                except Exception as ex:
                    counters["interpolant_evaluation_failed"] = counters.get("interpolant_evaluation_failed", 0) + 1
                    continue
                counters["samples_reproduced_checked"] = counters.get("samples_reproduced_checked", 0) + len(rep)
                counters["membership_pairs_checked"] = counters.get("membership_pairs_checked", 0) + len(mem)
                cscale = scale * (1.0 + (prm.get("L", 0.0) if prm.get("L", 0.0) < float("inf") else 0.0))
                sigs.add("attain|%s|%d samples|%s" % (fcls, len(trip), sorted(prm)))
                for what, d in mem:
                    if oracles._grade(d, cscale, "CLARABEL") == "violated":
                        counters["harness_interpolant_not_member"] = counters.get("harness_interpolant_not_member", 0) + 1
                for what, d in rep:
                    if oracles._grade(d, cscale, "CLARABEL") == "violated":
                        key = "primal_instance_not_attained_by_a_real_member:" + fcls
                        if len(viol) < 14 and not any(v["key"] == key for v in viol):
                            viol.append({"key": key, "rng": sd, "attain_cls": cls, "scenario": {"cls": fcls},
                                         "what": "%s%r: the solver's instance (value %.6g, %d samples) satisfies the generated constraints but "
                                                 "the canonical interpolant of its samples does not pass through them: '%s' is off by %.3e "
                                                 "(scale %.3g) - no member of the class has these samples"
                                                 % (fcls, prm, val, len(trip), what, d, cscale)})
                        break
            counters["attainment_cases"] = counters.get("attainment_cases", 0) + 1


def run_shard(spec):
    from pv.classes import CLASSES
    from pv import canon
    from pv.ref.sym import E
    t0 = time.time()
    counters = {"histories_judged": 0, "scenarios": 0, "functionals_compared": 0, "implication_sdps": 0}
    sigs, viol, samples, notes = set(), [], [], []
    classes_seen = set()
    todo = []
    if "replay" in spec:
        w = spec["replay"]
        todo = [(w["scenario"]["cls"], w["rng"])] if not w.get("attain_cls") else []
    else:
        names = sorted(CLASSES)
        for ci, cls in enumerate(names):
            for k in range(spec["n_per_class"]):
                if (ci * 7 + k) % NSHARDS == spec["shard"] or spec["n_per_class"] * len(names) < NSHARDS:
                    todo.append((cls, "c04/%d/%s/%d/%d" % (spec["seed"], cls, spec["shard"], k)))
            if ci % NSHARDS == spec["shard"]:
                todo.append((cls, "c04/%d/%s/single" % (spec["seed"], cls)))
                todo.append((cls, "c04/%d/%s/two" % (spec["seed"], cls)))

    def V(key, what, sc, order, sd):
        if len(viol) < 14 and not any(v["key"] == key and v["scenario"]["cls"] == sc["cls"] for v in viol):
            viol.append({"key": key, "what": what, "scenario": sc, "order": order, "rng": sd})

    for cls, sd in todo:
        rng = random.Random(sd)
        sc = make_scenario(rng, cls) if "replay" not in spec else spec["replay"]["scenario"]
        if "replay" not in spec and sd.endswith("/single"):
            # boundary size: exactly one recorded sample and nothing else (single-sample guards are classic off-by-one sites)
            sc["n_points"] = 1
            sc["events"] = [["eval", 0, "r0"]]
            sc.pop("intermediate_solve_after", None)
        elif "replay" not in spec and sd.endswith("/two"):
            sc["n_points"] = 2
            sc["events"] = [["eval", 0, "r0"], ["eval", 1, "r1"]]
            sc.pop("intermediate_solve_after", None)
        counters["scenarios"] += 1
        base_keys = None
        base_order = None
        ords = orders(rng, sc) if "replay" not in spec else [spec["replay"]["order"]] + orders(rng, sc)
        for order in ords:
            try:
                with contextlib.redirect_stdout(io.StringIO()):
                    pep, f, labels = execute(sc, order)
                got, got_lmi = observed(f, labels)
                ref, ref_lmi, conds, lmis = reference_keys(f, labels)
            except Exception as e:
                import traceback
                counters["exceptions:" + type(e).__name__] = counters.get("exceptions:" + type(e).__name__, 0) + 1
                if len(notes) < 4:
                    notes.append("%s %s: %s" % (cls, sc["events"], traceback.format_exc()[-400:]))
                continue
            counters["histories_judged"] += 1
            classes_seen.add(cls)
            counters["functionals_compared"] += len(got) + len(ref)
            first_stat = [sc["events"][i][0] for i in order].index("stat") if any(sc["events"][i][0] == "stat" for i in order) else -1
            sigs.add("%s|%d|%s|%d" % (cls, len(f.list_of_points), ",".join(sorted(set(e[0] for e in sc["events"]))), min(first_stat, 3)))
            # oracle A: order independence
            gk = (sorted(repr(k) for k in got), got_lmi)
            if base_keys is None:
                base_keys, base_order = gk, order
            elif gk != base_keys:
                V("constraints_depend_on_declaration_order:" + cls,
                  "%s: %d functionals under order %s, %d under order %s (same samples)" % (cls, len(base_keys[0]), base_order, len(gk[0]), order),
                  sc, order, sd)
            # oracle B: equivalence with the reference
            missing = [k for k in ref if k not in got]
            extra = [k for k in got if k not in ref]
            dup = [k for k, n in got.items() if n > 1]
            idx = canon.Index()
            if missing or extra or got_lmi != ref_lmi:
                pep_side = [(E.of(c.expression), c.equality_or_inequality) for c in f.list_of_class_constraints]
                pep_lmis = [[[E.of(M[i, j]) for j in range(M.shape[1])] for i in range(M.shape[0])] for M in f.list_of_class_psd]
                ref_side = [(c["expr"], c["sense"]) for c in conds]
                ref_lm = [L["matrix"] for L in lmis]
                for k in missing[:6]:
                    c = ref[k][0]
                    counters["implication_sdps"] += 1
                    gap, st = implication_gap(c["expr"], c["sense"], pep_side, pep_lmis, idx)
                    if gap is None:
                        counters["implication_inconclusive"] = counters.get("implication_inconclusive", 0) + 1
                    elif gap > 1e-5:
                        V("documented_condition_not_imposed:%s:%s%s" % (cls, c["name"], ":diagonal" if len(c["pair"]) == 2 and c["pair"][0] == c["pair"][1] else ""),
                          "%s: the documented condition '%s' for sample pair %s is neither generated nor implied: a (Gram, F) "
                          "allowed by the generated constraints violates it by %.3g (order %s, %d samples)"
                          % (cls, c["name"], c["pair"], gap, order, len(f.list_of_points)), sc, order, sd)
                    else:
                        counters["unmatched_but_implied"] = counters.get("unmatched_but_implied", 0) + 1
                for k in extra[:6]:
                    tgt = [c for c in f.list_of_class_constraints
                           if E.of(c.expression).key(c.equality_or_inequality, lambda l: labels.get(id(l), "?%d" % id(l))) == k][0]
                    counters["implication_sdps"] += 1
                    gap, st = implication_gap(E.of(tgt.expression), tgt.equality_or_inequality, ref_side, ref_lm, idx)
                    if gap is None:
                        counters["implication_inconclusive"] = counters.get("implication_inconclusive", 0) + 1
                    elif gap > 1e-5:
                        V("generated_condition_stronger_than_documented:%s" % cls,
                          "%s: a generated constraint (%s) is not implied by the documented conditions (gap %.3g)"
                          % (cls, tgt.get_name(), gap), sc, order, sd)
                    else:
                        counters["unmatched_but_implied"] = counters.get("unmatched_but_implied", 0) + 1
                if got_lmi != ref_lmi and not missing and not extra:
                    V("class_lmi_differs_from_documented:" + cls, "%s: generated LMI(s) differ from the documented one(s) after "
                      "symmetrisation (%d vs %d)" % (cls, len(got_lmi), len(ref_lmi)), sc, order, sd)
            if len(samples) < 2:
                samples.append({"rng": sd, "scenario": sc, "order": order, "n_samples": len(f.list_of_points),
                                "n_generated": sum(got.values()), "n_reference": len(ref), "n_lmis": len(got_lmi)})
    if "replay" not in spec or spec["replay"].get("attain_cls"):
        try:
            attainment(spec, counters, sigs, viol, spec.get("n_attain", 2))
        except Exception as ex:
            notes.append("attainment workload failed: %r" % (ex,))
    return {"counters": counters, "signatures": sorted(sigs), "samples": samples, "violations": viol,
            "observations": notes, "extra": {"shard_wall_s": round(time.time() - t0, 1), "classes": sorted(classes_seen)}}
