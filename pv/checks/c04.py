"""C04 - class constraints are complete and independent of declaration order."""
import contextlib
import io
import random
import time
import warnings

import numpy as np

LEVEL = "exploration"
RULE = ("for each of the 24 classes and random admissible parameters, one multiset of samples (ordinary evaluations, "
        "repeated subgradients at one point, stationary points, fixed points, samples arriving through proximal steps and "
        "through composite functions) is recorded under several declaration orders through the real API; after "
        "set_class_constraints() the generated constraints/LMIs are turned into canonical functionals with leaves "
        "labelled by role; oracle A: the canonical sets are equal across orders; oracle B: they equal the independent "
        "reference implementation of the documented conditions (pv/ref/conditions.py) - anything unmatched is decided by "
        "an SDP implication test (witness = a (Gram, F) allowed by one side and excluded by the other); thorough tier "
        "also solves a small PEP under permuted declarations. distinct = distinct (class, #samples, event kinds, "
        "stationary position)")
ASSUMPTIONS = ["pv/ref/conditions.py is a faithful transcription of the documented conditions (DESIGN Appendix A)",
               "pv/canon.py and pv/ref/sym.py", "implication SDPs solved to 'optimal' by Clarabel; otherwise inconclusive for that pair",
               "interpolation theorems trusted as published ('attained by a real member' is not constructed)"]
DECIDING_COUNTER = "histories_judged"
MIN_DECIDED = {"quick": 400, "thorough": 12000}
REQUIRED_COUNTERS = {"quick": {"classes_covered": 24}, "thorough": {"classes_covered": 24}}
NSHARDS = 16


def post_merge(counters, extra):
    counters["classes_covered"] = len(extra.get("classes", []))


def plan(tier, seed):
    n = 16 if tier == "quick" else 500
    return [{"name": "s%d" % i, "seed": seed, "shard": i, "n_per_class": n, "solve_permuted": tier == "thorough"}
            for i in range(NSHARDS)]


# ---- scenario: a multiset of events, executable in any order -------------------------------------------------
def make_scenario(rng, cls):
    from pv.classes import CLASSES
    kind, diff, sampler = CLASSES[cls]
    sc = {"cls": cls, "params": None, "n_points": rng.randint(1, 3), "events": []}
    if cls == "BlockSmoothConvexFunction":
        d = rng.choice([1, 2, 3])
        sc["d"] = d
        sc["params"] = {"L": [rng.choice([1.0, 2.0, 0.5]) for _ in range(d)]}
    else:
        from pv.classes import json_params
        sc["params"] = json_params(sampler(rng))
    ev = []
    npts = sc["n_points"]
    for p in range(npts):
        ev.append(["eval", p])
    nondiff = not diff
    if nondiff and rng.random() < 0.6:
        ev.append(["eval", rng.randrange(npts)])           # repeated subgradient at one point
    nstat = rng.choice([0, 1, 1, 1, 2]) if cls != "SmoothStronglyConvexQuadraticFunction" else 0
    if cls in ("ConvexQGFunction", "RsiEbFunction"):
        nstat = rng.choice([1, 1, 2])
    for _ in range(nstat):
        ev.append(["stat"])
    if kind == "operator" and cls != "LinearOperator" and rng.random() < 0.3:
        ev.append(["fixed"])
    if cls not in ("LinearOperator",) and rng.random() < 0.4:
        ev.append(["prox", rng.randrange(npts), rng.choice([1.0, 0.5])])
    if cls == "LinearOperator":
        for p in range(rng.randint(1, 2)):
            ev.append(["teval", rng.randrange(npts)])
    if cls not in ("LinearOperator", "SmoothStronglyConvexQuadraticFunction", "BlockSmoothConvexFunction") and rng.random() < 0.3:
        ev.append(["comp_eval"])                           # sample arriving through a composite function, at a fresh point
    if cls not in ("LinearOperator", "SmoothStronglyConvexQuadraticFunction", "BlockSmoothConvexFunction") and rng.random() < 0.3:
        ev.append(["comp_stat", rng.choice([2.0, 0.5, 1.0])])   # stationary point declared on a single-leaf scaled composite
    if cls == "NonexpansiveOperator" and rng.random() < 0.6:
        sc["with_v"] = True                                # the documented option: infimal displacement vector
    for i, e in enumerate(ev):
        e.append("r%d" % i)
    sc["events"] = ev
    if rng.random() < 0.3 and cls not in ("ConvexQGFunction", "RsiEbFunction"):
        sc["intermediate_solve_after"] = rng.randint(1, max(1, len(ev) - 1))
    return sc


def orders(rng, sc, k=3):
    ev = sc["events"]
    base = list(range(len(ev)))
    # natural order: stationary points first
    nat = sorted(base, key=lambda i: (0 if ev[i][0] == "stat" else 1, i))
    out = [nat]
    last = sorted(base, key=lambda i: (1 if ev[i][0] == "stat" else 0, i))
    if last != nat:
        out.append(last)
    for _ in range(k):
        p = base[:]
        rng.shuffle(p)
        if p not in out:
            out.append(p)
    return out[:k + 1]


def execute(sc, order):
    """Run the scenario in the given order through the real API. Returns (pep, f, label) with role labels."""
    from PEPit import PEP, Point, Expression
    from PEPit.primitive_steps import proximal_step
    from PEPit.functions import ConvexFunction
    from PEPit.operators import MonotoneOperator
    from pv.classes import get_class, real_params, CLASSES
    pep = PEP()
    cls = sc["cls"]
    params = real_params(sc["params"])
    if cls == "BlockSmoothConvexFunction":
        part = pep.declare_block_partition(d=sc["d"])
        params["partition"] = part
    labels = {}
    n_before_decl = (len(Point.list_of_leaf_points), len(Expression.list_of_leaf_expressions))
    f = pep.declare_function(get_class(cls), **params)

    def snapshot():
        return len(Point.list_of_leaf_points), len(Expression.list_of_leaf_expressions)

    def label_new(before, role):
        np0, ne0 = before
        for k, p in enumerate(Point.list_of_leaf_points[np0:]):
            labels[id(p)] = "%s:p%d" % (role, k)
        for k, e in enumerate(Expression.list_of_leaf_expressions[ne0:]):
            labels[id(e)] = "%s:e%d" % (role, k)

    label_new(n_before_decl, "decl")
    if sc.get("with_v"):
        b = snapshot()
        f.v = Point()
        label_new(b, "v")
    b = snapshot()
    pts = [pep.set_initial_point() for _ in range(sc["n_points"])]
    label_new(b, "init")
    occ = {}
    mid = sc.get("intermediate_solve_after")
    for pos, i in enumerate(order):
        if mid is not None and pos == mid:
            # what an intermediate solve does to the function: the class constraints are generated once already
            b = snapshot()
            f.set_class_constraints()
            label_new(b, "solve_time")
        e = sc["events"][i]
        # interchangeable events (same kind, same arguments) get their role from the execution order among themselves
        rk = repr(e[:-1])
        occ[rk] = occ.get(rk, 0) + 1
        role = "%s#%d" % (rk, occ[rk])
        b = snapshot()
        if e[0] == "eval":
            f.oracle(pts[e[1]])
        elif e[0] == "teval":
            f.T.gradient(pts[e[1]])
        elif e[0] == "stat":
            f.stationary_point()
        elif e[0] == "fixed":
            f.fixed_point()
        elif e[0] == "prox":
            proximal_step(pts[e[1]], f, e[2])
        elif e[0] == "comp_stat":
            F = e[1] * f
            F.stationary_point()
        elif e[0] == "comp_eval":
            other = pep.declare_function(ConvexFunction if CLASSES[cls][0] == "function" else MonotoneOperator)
            F = f + other
            y = Point()
            F.oracle(y)
        label_new(b, role)
    b = snapshot()
    f.set_class_constraints()
    label_new(b, "solve_time")
    # leaves created by block decompositions get their role from the decomposed point and the block number
    if cls == "BlockSmoothConvexFunction":
        from pv import canon

        def plabel(p):
            return repr(sorted((labels.get(id(k), "?"), round(v, 12)) for k, v in canon.point_coeffs(p).items()))
        for x, blocks in f.partition.blocks_dict.items():
            for k, blk in enumerate(blocks[:-1]):
                labels[id(blk)] = "blk(%s,%d)" % (plabel(x), k)
    return pep, f, labels


def observed(f, labels):
    """canonical keys of what PEPit generated: (set of functional keys with multiplicity, list of sym LMI keys)."""
    from pv.ref.sym import E
    lab = lambda leaf: labels.get(id(leaf), "?%d" % id(leaf))
    keys = {}
    for c in f.list_of_class_constraints:
        k = E.of(c.expression).key(c.equality_or_inequality, lab)
        if k is not None:
            keys[k] = keys.get(k, 0) + 1
    lm = []
    for M in f.list_of_class_psd:
        n = M.shape[0]
        ent = [[E.of(M[i, j]) for j in range(n)] for i in range(n)]
        lm.append(lmi_key(ent, lab))
    return keys, sorted(lm)


def lmi_key(ent, lab):
    """key of sym(matrix) up to simultaneous row/column permutation: sorted multiset of entry keys with the
    sorted pair of (row signature, col signature) where the signature of index i is the key of the diagonal entry."""
    from pv.ref.conditions import sym_matrix
    n = len(ent)
    S = sym_matrix(ent)
    diag = [S[i][i].rawkey(lab) for i in range(n)]
    items = []
    for i in range(n):
        for j in range(i, n):
            items.append((tuple(sorted([diag[i], diag[j]], key=repr)), S[i][j].rawkey(lab)))
    return repr(sorted(items, key=repr))


def reference_keys(f, labels):
    from pv.ref.conditions import reference
    lab = lambda leaf: labels.get(id(leaf), "?%d" % id(leaf))
    conds, lmis = reference(f)
    keys = {}
    for c in conds:
        k = c["expr"].key(c["sense"], lab)
        if k is not None:
            keys.setdefault(k, []).append(c)
    lm = sorted(lmi_key(L["matrix"], lab) for L in lmis if len(L["matrix"]) > 0 or True)
    return keys, lm, conds, lmis


# ---- implication test ----------------------------------------------------------------------------------------
def implication_gap(target, sense, side_conds, side_lmis, idx):
    """max of `target` (and of -target for equalities) over {G>=0, tr G<=1, |F|<=1, side constraints}.
    Returns (gap, status): gap > tol means target is NOT implied by the side."""
    import cvxpy as cp
    n, m = idx.n, idx.m
    G = cp.Variable((n, n), symmetric=True)
    F = cp.Variable(m) if m else None

    def aff(e):
        A, a, c = e.num(idx)
        v = cp.sum(cp.multiply(A, G)) + c
        if m and np.any(a != 0):
            v = v + a @ F
        return v

    cons = [G >> 0, cp.trace(G) <= 1]
    if m:
        cons += [F <= 1, F >= -1]
    for e, s in side_conds:
        cons.append(aff(e) <= 0 if s == "inequality" else aff(e) == 0)
    for M in side_lmis:
        k = len(M)
        if k == 0:
            continue
        X = cp.Variable((k, k), symmetric=True)
        cons.append(X >> 0)
        for i in range(k):
            for j in range(k):
                cons.append(X[i, j] == aff(M[i][j]))
    worst = 0.0
    status = "optimal"
    for sgn in ([1.0] if sense == "inequality" else [1.0, -1.0]):
        prob = cp.Problem(cp.Maximize(sgn * aff(target)), cons)
        try:
            with warnings.catch_warnings():
                warnings.simplefilter("ignore")
                prob.solve(solver="CLARABEL")
        except Exception:
            return None, "solver_error"
        if prob.status != "optimal":
            return None, prob.status
        worst = max(worst, float(prob.value))
    return worst, status


def run_shard(spec):
    from pv.classes import CLASSES
    from pv import canon
    from pv.ref.sym import E
    t0 = time.time()
    counters = {"histories_judged": 0, "scenarios": 0, "functionals_compared": 0, "implication_sdps": 0}
    sigs, viol, samples, notes = set(), [], [], []
    classes_seen = set()
    todo = []
    if "replay" in spec:
        w = spec["replay"]
        todo = [(w["scenario"]["cls"], w["rng"])]
    else:
        names = sorted(CLASSES)
        for ci, cls in enumerate(names):
            for k in range(spec["n_per_class"]):
                if (ci * 7 + k) % NSHARDS == spec["shard"] or spec["n_per_class"] * len(names) < NSHARDS:
                    todo.append((cls, "c04/%d/%s/%d/%d" % (spec["seed"], cls, spec["shard"], k)))

    def V(key, what, sc, order, sd):
        if len(viol) < 14 and not any(v["key"] == key and v["scenario"]["cls"] == sc["cls"] for v in viol):
            viol.append({"key": key, "what": what, "scenario": sc, "order": order, "rng": sd})

    for cls, sd in todo:
        rng = random.Random(sd)
        sc = make_scenario(rng, cls) if "replay" not in spec else spec["replay"]["scenario"]
        counters["scenarios"] += 1
        base_keys = None
        base_order = None
        ords = orders(rng, sc) if "replay" not in spec else [spec["replay"]["order"]] + orders(rng, sc)
        for order in ords:
            try:
                with contextlib.redirect_stdout(io.StringIO()):
                    pep, f, labels = execute(sc, order)
                got, got_lmi = observed(f, labels)
                ref, ref_lmi, conds, lmis = reference_keys(f, labels)
            except Exception as e:
                import traceback
                counters["exceptions:" + type(e).__name__] = counters.get("exceptions:" + type(e).__name__, 0) + 1
                if len(notes) < 4:
                    notes.append("%s %s: %s" % (cls, sc["events"], traceback.format_exc()[-400:]))
                continue
            counters["histories_judged"] += 1
            classes_seen.add(cls)
            counters["functionals_compared"] += len(got) + len(ref)
            first_stat = [sc["events"][i][0] for i in order].index("stat") if any(sc["events"][i][0] == "stat" for i in order) else -1
            sigs.add("%s|%d|%s|%d" % (cls, len(f.list_of_points), ",".join(sorted(set(e[0] for e in sc["events"]))), min(first_stat, 3)))
            # oracle A: order independence
            gk = (sorted(repr(k) for k in got), got_lmi)
            if base_keys is None:
                base_keys, base_order = gk, order
            elif gk != base_keys:
                V("constraints_depend_on_declaration_order:" + cls,
                  "%s: %d functionals under order %s, %d under order %s (same samples)" % (cls, len(base_keys[0]), base_order, len(gk[0]), order),
                  sc, order, sd)
            # oracle B: equivalence with the reference
            missing = [k for k in ref if k not in got]
            extra = [k for k in got if k not in ref]
            dup = [k for k, n in got.items() if n > 1]
            idx = canon.Index()
            if missing or extra or got_lmi != ref_lmi:
                pep_side = [(E.of(c.expression), c.equality_or_inequality) for c in f.list_of_class_constraints]
                pep_lmis = [[[E.of(M[i, j]) for j in range(M.shape[1])] for i in range(M.shape[0])] for M in f.list_of_class_psd]
                ref_side = [(c["expr"], c["sense"]) for c in conds]
                ref_lm = [L["matrix"] for L in lmis]
                for k in missing[:6]:
                    c = ref[k][0]
                    counters["implication_sdps"] += 1
                    gap, st = implication_gap(c["expr"], c["sense"], pep_side, pep_lmis, idx)
                    if gap is None:
                        counters["implication_inconclusive"] = counters.get("implication_inconclusive", 0) + 1
                    elif gap > 1e-5:
                        V("documented_condition_not_imposed:%s:%s%s" % (cls, c["name"], ":diagonal" if len(c["pair"]) == 2 and c["pair"][0] == c["pair"][1] else ""),
                          "%s: the documented condition '%s' for sample pair %s is neither generated nor implied: a (Gram, F) "
                          "allowed by the generated constraints violates it by %.3g (order %s, %d samples)"
                          % (cls, c["name"], c["pair"], gap, order, len(f.list_of_points)), sc, order, sd)
                    else:
                        counters["unmatched_but_implied"] = counters.get("unmatched_but_implied", 0) + 1
                for k in extra[:6]:
                    tgt = [c for c in f.list_of_class_constraints
                           if E.of(c.expression).key(c.equality_or_inequality, lambda l: labels.get(id(l), "?%d" % id(l))) == k][0]
                    counters["implication_sdps"] += 1
                    gap, st = implication_gap(E.of(tgt.expression), tgt.equality_or_inequality, ref_side, ref_lm, idx)
                    if gap is None:
                        counters["implication_inconclusive"] = counters.get("implication_inconclusive", 0) + 1
                    elif gap > 1e-5:
                        V("generated_condition_stronger_than_documented:%s" % cls,
                          "%s: a generated constraint (%s) is not implied by the documented conditions (gap %.3g)"
                          % (cls, tgt.get_name(), gap), sc, order, sd)
                    else:
                        counters["unmatched_but_implied"] = counters.get("unmatched_but_implied", 0) + 1
                if got_lmi != ref_lmi and not missing and not extra:
                    V("class_lmi_differs_from_documented:" + cls, "%s: generated LMI(s) differ from the documented one(s) after "
                      "symmetrisation (%d vs %d)" % (cls, len(got_lmi), len(ref_lmi)), sc, order, sd)
            if len(samples) < 2:
                samples.append({"rng": sd, "scenario": sc, "order": order, "n_samples": len(f.list_of_points),
                                "n_generated": sum(got.values()), "n_reference": len(ref), "n_lmis": len(got_lmi)})
    return {"counters": counters, "signatures": sorted(sigs), "samples": samples, "violations": viol,
            "observations": notes, "extra": {"shard_wall_s": round(time.time() - t0, 1), "classes": sorted(classes_seen)}}
