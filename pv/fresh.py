"""Run one program in THIS interpreter and produce its canonical observation (used both in-process after a
history and as `python fresh.py in.json out.json` first thing in a fresh interpreter)."""
import contextlib
import io
import json
import sys


def run_B(prog, cfg, schedule=None):
    """Build prog, solve under cfg (or follow `schedule`, a list of extra ops incl. solves), return observation."""
    from pv import gen, driver, dump
    bd = driver.boundary()
    m = gen.Machine()
    obs = {"solves": []}
    buf = io.StringIO()
    n0 = len(bd.records)
    with contextlib.redirect_stdout(buf):
        m.step(prog["ops"][0])
        obs["class_state_at_pep"] = dump.class_state()
        try:
            m.run(prog["ops"][1:])
        except Exception as e:
            obs["build_exc"] = type(e).__name__
            return obs, m
        ops = schedule if schedule is not None else [{"op": "solve", "opts": driver.solve_kwargs(cfg)}]
        for op in ops:
            k0 = len(bd.records)
            try:
                m.step(op)
            except Exception as e:
                obs["solves"].append({"op_exc": type(e).__name__})
                continue
            if op["op"] == "solve":
                rec = bd.records[k0] if len(bd.records) > k0 else None
                out = m.solves[-1][1]
                if rec is None:
                    obs["solves"].append({"no_record": True, "outcome": out[0]})
                else:
                    d = dump.solve_dump(rec, out)
                    d["class_state_after"] = dump.class_state()
                    obs["solves"].append(d)
    if cfg.get("eval_null"):
        from PEPit.point import null_point
        from PEPit.expression import null_expression
        try:
            v = null_point.eval()
            obs["null_point"] = {"shape": list(v.shape), "max": float(abs(v).max()) if v.size else 0.0}
        except Exception as e:
            obs["null_point"] = {"exc": type(e).__name__}
        try:
            obs["null_expression"] = float(null_expression.eval())
        except Exception as e:
            obs["null_expression"] = {"exc": type(e).__name__}
    return obs, m


def make_orphans(rng):
    """PEPit objects created directly through the classes, outside any PEP, and abandoned."""
    from PEPit import Point, Expression, PSDMatrix
    from PEPit.functions import SmoothConvexFunction, ConvexFunction
    from PEPit.operators import LinearOperator
    from PEPit.block_partition import BlockPartition
    from PEPit.expression import null_expression
    pts = [Point() for _ in range(rng.randint(1, 4))]
    [Expression() for _ in range(rng.randint(0, 3))]
    f = SmoothConvexFunction(L=1.)
    g = ConvexFunction()
    h = f + 2 * g
    h.oracle(pts[0])
    LinearOperator(L=1.)
    BlockPartition(2).get_block(pts[0], 1)
    PSDMatrix([[pts[0] ** 2, 0.], [0., 1.]])
    (pts[0] ** 2 <= 1)
    acc = null_expression
    for p in pts:
        acc += p ** 2
    return acc


def main():
    with open(sys.argv[1]) as f:
        job = json.load(f)
    if job.get("pre_orphans") is not None:
        import random
        make_orphans(random.Random(job["pre_orphans"]))
    obs, _ = run_B(job["program"], job["config"], job.get("schedule"))
    with open(sys.argv[2], "w") as f:
        json.dump(obs, f)


if __name__ == "__main__":
    main()
