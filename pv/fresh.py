"""Run one program in THIS interpreter and produce its canonical observation (used both in-process after a
history and as `python fresh.py in.json out.json` first thing in a fresh interpreter)."""
import contextlib
import io
import json
import sys


def sent_keys(machine, rec):
    """Multiset (sorted list of strings) of canonical functionals / LMIs that crossed the wrapper boundary,
    with leaves labelled by the register they are bound to ('auto' for leaves no register holds)."""
    from pv import canon
    from PEPit.point import Point
    from PEPit.expression import Expression
    names = {}
    for nm in sorted(machine.regs):
        o = machine.regs[nm]
        if isinstance(o, (Point, Expression)) and o.get_is_leaf():
            names.setdefault(id(o), nm)
    obj = rec.get("objective")

    def label(leaf):
        if leaf is obj:
            return "objective"
        return names.get(id(leaf), "auto")

    out = []
    for kind, o, tracked in rec["sent"]:
        if not tracked:
            continue
        if kind == "c":
            k = canon.functional_key(o.expression, o.equality_or_inequality, label)
            out.append(repr(k))
        else:
            ent = []
            for i in range(o.shape[0]):
                for j in range(o.shape[1]):
                    G, F, c = canon.expr_coeffs(o[i, j])
                    t = {}
                    for (p, q), v in G.items():
                        kk = ("G",) + tuple(sorted((label(p), label(q))))
                        t[kk] = t.get(kk, 0.0) + v
                    for e, v in F.items():
                        t[("F", label(e))] = t.get(("F", label(e)), 0.0) + v
                    if c:
                        t[("C",)] = c
                    ent.append(tuple(sorted((kk, float("%.9e" % v)) for kk, v in t.items() if v != 0)))
            out.append(repr(("lmi", tuple(o.shape), tuple(ent))))
    return sorted(out)


def run_B(prog, cfg, schedule=None):
    """Build prog, solve under cfg (or follow `schedule`, a list of extra ops incl. solves), return observation."""
    from pv import gen, driver, dump
    bd = driver.boundary()
    m = gen.Machine()
    obs = {"solves": []}
    buf = io.StringIO()
    n0 = len(bd.records)
    with contextlib.redirect_stdout(buf):
        m.step(prog["ops"][0])
        obs["class_state_at_pep"] = dump.class_state()
        try:
            m.run(prog["ops"][1:])
        except Exception as e:
            obs["build_exc"] = type(e).__name__
            return obs, m
        ops = schedule if schedule is not None else [{"op": "solve", "opts": driver.solve_kwargs(cfg)}]
        for op in ops:
            k0 = len(bd.records)
            try:
                m.step(op)
            except Exception as e:
                obs["solves"].append({"op_exc": type(e).__name__})
                continue
            if op["op"] == "solve":
                rec = bd.records[k0] if len(bd.records) > k0 else None
                out = m.solves[-1][1]
                if rec is None:
                    obs["solves"].append({"no_record": True, "outcome": out[0]})
                else:
                    d = dump.solve_dump(rec, out)
                    d["class_state_after"] = dump.class_state()
                    if cfg.get("keys"):
                        d = {"keys": sent_keys(m, rec), "results": d["results"], "inner_status": d["inner_status"],
                             "n_points": d["n_points"], "n_exprs": d["n_exprs"], "solver_problem_size": d.get("solver_problem_size")}
                    obs["solves"].append(d)
    if cfg.get("eval_null"):
        from PEPit.point import null_point
        from PEPit.expression import null_expression
        try:
            v = null_point.eval()
            obs["null_point"] = {"shape": list(v.shape), "max": float(abs(v).max()) if v.size else 0.0}
        except Exception as e:
            obs["null_point"] = {"exc": type(e).__name__}
        try:
            obs["null_expression"] = float(null_expression.eval())
        except Exception as e:
            obs["null_expression"] = {"exc": type(e).__name__}
    return obs, m


def make_orphans(rng):
    """PEPit objects created directly through the classes, outside any PEP, and abandoned."""
    from PEPit import Point, Expression, PSDMatrix
    from PEPit.functions import SmoothConvexFunction, ConvexFunction
    from PEPit.operators import LinearOperator
    from PEPit.block_partition import BlockPartition
    from PEPit.expression import null_expression
    pts = [Point() for _ in range(rng.randint(1, 4))]
    [Expression() for _ in range(rng.randint(0, 3))]
    f = SmoothConvexFunction(L=1.)
    g = ConvexFunction()
    h = f + 2 * g
    h.oracle(pts[0])
    LinearOperator(L=1.)
    BlockPartition(2).get_block(pts[0], 1)
    PSDMatrix([[pts[0] ** 2, 0.], [0., 1.]])
    (pts[0] ** 2 <= 1)
    acc = null_expression
    for p in pts:
        acc += p ** 2
    return acc


def main():
    with open(sys.argv[1]) as f:
        job = json.load(f)
    if job.get("pre_orphans") is not None:
        import random
        make_orphans(random.Random(job["pre_orphans"]))
    obs, _ = run_B(job["program"], job["config"], job.get("schedule"))
    with open(sys.argv[2], "w") as f:
        json.dump(obs, f)


if __name__ == "__main__":
    main()
