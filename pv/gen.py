"""Workload programs: a JSON list of operations over named registers + the interpreter that executes them
through the real PEPit API, logging what the client declared (client-side history).

A program is the replay artefact: {"ops": [...], "meta": {...}}.
"""
import random

from pv.classes import CLASSES, FUNCTION_CLASSES, OPERATOR_CLASSES, get_class, json_params, real_params

STEP_SIGS = {
    "proximal": (["x0", "f", "gamma"], 3),
    "inexact_gradient": (["x0", "f", "gamma", "epsilon", "notion"], 3),
    "exact_linesearch": (["x0", "f", "directions"], 3),
    "inexact_proximal": (["x0", "f", "gamma", "opt"], 7),
    "bregman_gradient": (["gx0", "sx0", "mirror_map", "gamma"], 3),
    "bregman_proximal": (["sx0", "mirror_map", "min_function", "gamma"], 5),
    "linear_optimization": (["dir", "ind"], 3),
    "epsilon_subgradient": (["x0", "f", "gamma"], 4),
}


class Machine(object):
    """Executes ops against the real library. One live model per process."""

    def __init__(self):
        self.regs = {}
        self.pep = None
        self.declared = []      # client-side log: dicts kind/owner/obj/sense
        self.solves = []        # (opts, result | exception repr)
        self.trace = []         # op-level log (for evidence samples)
        self.on_solved = None   # callback(machine, opts, result) -> None, run after each solve op
        self.solve_fn = None    # override of how to call solve (monitors install themselves here)

    # -- helpers -------------------------------------------------------------------------------------
    def R(self, name):
        return self.regs[name]

    def _num_or_reg(self, v):
        if isinstance(v, str):
            return self.regs[v]
        return v

    def _expr_from_terms(self, terms):
        from PEPit.expression import Expression
        acc = None
        for t in terms:
            c = t[0]
            kind = t[1]
            if kind == "ip":
                term = self.regs[t[2]] * self.regs[t[3]]
            elif kind == "sq":
                term = self.regs[t[2]] ** 2
            elif kind == "e":
                term = self.regs[t[2]]
            elif kind == "const":
                term = None
            else:
                raise ValueError(kind)
            if term is None:
                acc = (Expression(is_leaf=False, decomposition_dict={1: c}) if acc is None else acc + c)
            else:
                part = c * term
                acc = part if acc is None else acc + part
        if acc is None:
            acc = Expression(is_leaf=False, decomposition_dict=dict())
        return acc

    def run(self, ops):
        for op in ops:
            self.step(op)
        return self

    def step(self, op):
        import PEPit
        from PEPit import PEP, Point, Expression, PSDMatrix
        k = op["op"]
        regs = self.regs
        if k == "pep":
            self.pep = PEP()
            self.regs = {}
            self.declared = []
        elif k == "partition":
            regs[op["out"]] = self.pep.declare_block_partition(d=op["d"])
        elif k == "func":
            cls = get_class(op["cls"])
            params = real_params(op.get("params", {}))
            if "partition" in op:
                params["partition"] = regs[op["partition"]]
            kw = {}
            if op.get("reuse") is not None:
                kw["reuse_gradient"] = op["reuse"]
            if op.get("name") is not None:
                kw["name"] = op["name"]
            if op.get("direct"):
                f = cls(**params, **kw)      # the documented other way: the class constructor itself (registers the function too)
            else:
                f = self.pep.declare_function(cls, **params, **kw)
            regs[op["out"]] = f
            self.user_function_names = getattr(self, "user_function_names", {})
            self.user_function_names[id(f)] = op.get("name")
            if op["cls"] == "NonexpansiveOperator" and op.get("v"):
                f.v = regs[op["v"]]
        elif k == "fcomb":
            acc = None
            for c, fn in op["terms"]:
                part = c * regs[fn] if op.get("side", "l") == "l" else regs[fn] * c
                acc = part if acc is None else acc + part
            regs[op["out"]] = acc
        elif k == "init":
            regs[op["out"]] = self.pep.set_initial_point(name=op.get("name"))
        elif k == "pcomb":
            acc = None
            for c, pn in op["terms"]:
                part = regs[pn] * c if c != 1 else regs[pn]
                acc = part if acc is None else acc + part
            regs[op["out"]] = acc
        elif k == "oracle":
            g, v = regs[op["f"]].oracle(regs[op["x"]])
            regs[op["g"]] = g
            regs[op["v"]] = v
        elif k == "grad":
            regs[op["g"]] = regs[op["f"]].gradient(regs[op["x"]])
        elif k == "tgrad":
            regs[op["g"]] = regs[op["f"]].T.gradient(regs[op["x"]])
        elif k == "val":
            regs[op["v"]] = regs[op["f"]].value(regs[op["x"]])
        elif k == "stat":
            x, g, v = regs[op["f"]].stationary_point(return_gradient_and_function_value=True,
                                                      name=op.get("name"))
            regs[op["x"]] = x
            if "g" in op:
                regs[op["g"]] = g
            if "v" in op:
                regs[op["v"]] = v
        elif k == "fixed":
            x, _, v = regs[op["f"]].fixed_point()
            regs[op["x"]] = x
            if "v" in op:
                regs[op["v"]] = v
        elif k == "step":
            import PEPit.primitive_steps as ps
            fn = getattr(ps, op["kind"] + "_step")
            kwargs = {}
            for an, av in op["args"].items():
                if isinstance(av, list):
                    kwargs[an] = [regs[x] for x in av]
                elif isinstance(av, str) and an not in ("notion", "opt"):
                    kwargs[an] = regs[av]
                else:
                    kwargs[an] = av
            # the function the step records its side constraints on, and how many the documentation says it records
            target = kwargs.get("f") or kwargs.get("ind") or kwargs.get("mirror_map")
            expected = {"inexact_gradient": 1, "inexact_proximal": 1, "epsilon_subgradient": 1,
                        "exact_linesearch": 1 + len(kwargs.get("directions", []))}.get(op["kind"], 0)
            n_before = len(target.list_of_constraints) if target is not None else 0
            outs = fn(**kwargs)
            if target is not None and expected:
                self.declared.append({"kind": "step_constraints", "step": op["kind"], "expected": expected,
                                      "added": list(target.list_of_constraints[n_before:]), "op": op})
            for nm, o in zip(op["outs"], outs):
                if nm:
                    regs[nm] = o
        elif k == "block":
            regs[op["out"]] = regs[op["b"]].get_block(regs[op["x"]], op["k"])
        elif k == "expr":
            regs[op["out"]] = self._expr_from_terms(op["terms"])
        elif k == "leafexpr":
            regs[op["out"]] = Expression()
        elif k == "leafpoint":
            regs[op["out"]] = Point()
        elif k == "nullpoint":
            # the library's shared zero point (a module-level object that outlives every model)
            from PEPit.point import null_point as _np0
            regs[op["out"]] = _np0
        elif k == "cons":
            lhs = regs[op["lhs"]]
            rhs = self._num_or_reg(op["rhs"])
            if op.get("scale"):
                # the same constraint written in other units (badly scaled data: tiny or huge multipliers)
                lhs, rhs = op["scale"] * lhs, op["scale"] * rhs
            rel = op["rel"]
            if rel == "<":            # strict comparisons are documented as their non-strict counterparts
                c = lhs < rhs
            elif rel == ">":
                c = lhs > rhs
            elif rel == "r<":         # reflected forms: the scalar / other expression on the left
                c = rhs > lhs
            elif rel == "r>":
                c = rhs < lhs
            else:
                c = (lhs <= rhs) if rel == "<=" else ((lhs >= rhs) if rel == ">=" else (lhs == rhs))
            owner = op.get("owner", "pep")
            if owner == "pep":
                if op.get("initial"):
                    self.pep.set_initial_condition(c, name=op.get("name"))
                else:
                    self.pep.add_constraint(c, name=op.get("name"))
            elif owner is None:
                pass
            else:
                regs[owner].add_constraint(c, name=op.get("name"))
            if op.get("out"):
                regs[op["out"]] = c
            if owner is not None:
                self.declared.append({"kind": "constraint", "owner": owner, "obj": c,
                                      "sense": "equality" if rel == "==" else "inequality", "op": op})
        elif k == "lmi":
            rows = [[self._num_or_reg(x) for x in row] for row in op["rows"]]
            rows_decl = [list(r) for r in rows]
            buf = None
            if op.get("via_numpy"):
                # the user hands over a numpy object array (and may reuse it afterwards)
                import numpy as _np
                buf = _np.empty((len(rows), len(rows[0])), dtype=object)
                for i_, r_ in enumerate(rows):
                    for j_, x_ in enumerate(r_):
                        buf[i_, j_] = x_
                rows = buf
            owner = op.get("owner", "pep")
            if owner == "pep":
                m = self.pep.add_psd_matrix(rows, name=op.get("name"))
            elif owner is None:
                m = PSDMatrix(rows)
            else:
                f = regs[owner]
                before = len(f.list_of_psd)
                f.add_psd_matrix(rows, name=op.get("name"))
                m = f.list_of_psd[before]
            if buf is not None and op.get("clobber"):
                for i_ in range(buf.shape[0]):
                    for j_ in range(buf.shape[1]):
                        # the caller's work array is reused for something else (another well-formed LMI: the identity)
                        buf[i_, j_] = Expression(is_leaf=False, decomposition_dict={1: 1.0 if i_ == j_ else 0.0})
            if op.get("out"):
                regs[op["out"]] = m
            if owner is not None:
                self.declared.append({"kind": "lmi", "owner": owner, "obj": m, "op": op, "rows_decl": rows_decl})
        elif k == "recons":
            # the SAME constraint object registered once more (on the problem or on a function)
            c = regs[op["k"]]
            owner = op.get("owner", "pep")
            if owner == "pep":
                self.pep.add_constraint(c)
            else:
                regs[owner].add_constraint(c)
            self.declared.append({"kind": "constraint", "owner": owner, "obj": c, "sense": c.equality_or_inequality, "op": op})
        elif k == "metric":
            e = regs[op["e"]]
            self.pep.set_performance_metric(e, name=op.get("name"))
            self.declared.append({"kind": "metric", "owner": "pep", "obj": e, "op": op})
        elif k == "drop_cons":
            # edit: remove a pep-level constraint (by register)
            c = regs[op["k"]]
            self.pep.list_of_constraints = [x for x in self.pep.list_of_constraints if x is not c]
            self.declared = [d for d in self.declared if d["obj"] is not c]
        elif k == "drop_metrics":
            self.pep.list_of_performance_metrics = []
            self.declared = [d for d in self.declared if d["kind"] != "metric"]
        elif k == "solve":
            opts = dict(op.get("opts", {}))
            self.do_solve(opts)
        else:
            raise ValueError("unknown op %r" % k)

    def do_solve(self, opts):
        kw = dict(opts)
        try:
            if self.solve_fn is not None:
                res = self.solve_fn(self, kw)
            else:
                res = self.pep.solve(**kw)
            out = ("ok", res)
        except Exception as e:  # recorded, judged by the check
            out = ("exc", e)
        self.solves.append((opts, out))
        if self.on_solved is not None:
            self.on_solved(self, opts, out)
        return out


# ---------------------------------------------------------------------------------------------------------
# generation

class Builder(object):
    def __init__(self, rng):
        self.rng = rng
        self.ops = [{"op": "pep"}]
        self.n = 0
        self.points = []     # names of Point registers
        self.exprs = []      # names of Expression registers (scalar)
        self.values = []     # names of function-value expressions
        self.funcs = []      # (name, clsname, kind, params)
        self.parts = []      # (name, d)
        self.conslist = []
        self.meta = {"classes": [], "steps": [], "features": []}

    def nm(self, p):
        self.n += 1
        return "%s%d" % (p, self.n)

    def pick(self, xs):
        return xs[self.rng.randrange(len(xs))]

    def emit(self, op):
        self.ops.append(op)
        return op

    def feat(self, s):
        if s not in self.meta["features"]:
            self.meta["features"].append(s)

    def partition(self, d):
        n = self.nm("b")
        self.emit({"op": "partition", "out": n, "d": d})
        self.parts.append((n, d))
        return n

    def func(self, cls, params=None, **kw):
        rng = self.rng
        n = self.nm("f")
        op = {"op": "func", "out": n, "cls": cls}
        if cls == "BlockSmoothConvexFunction":
            if not self.parts:
                self.partition(self.pick([1, 2, 2, 3]))
            pn, d = self.pick(self.parts)
            op["partition"] = pn
            op["params"] = {"L": [self.pick([1.0, 2.0, 0.5, 4.0]) for _ in range(d)]}
        else:
            p = params if params is not None else CLASSES[cls][2](rng)
            op["params"] = json_params(p)
        op.update(kw)
        if rng.random() < 0.1:
            op["direct"] = True
            self.feat("function_instantiated_directly")
        self.emit(op)
        self.funcs.append((n, cls, CLASSES[cls][0], op["params"]))
        self.meta["classes"].append(cls)
        return n

    def init(self, name=None):
        n = self.nm("x")
        self.emit({"op": "init", "out": n, "name": name})
        self.points.append(n)
        if self.rng.random() < 0.06 and not getattr(self, "_has_null", False):
            # the origin, written with the library's own null_point: functions get evaluated at it like at any other point
            self._has_null = True
            z = self.nm("z")
            self.emit({"op": "nullpoint", "out": z})
            self.points.append(z)
            self.feat("null_point_used")
        return n

    def pcomb(self, terms):
        n = self.nm("p")
        self.emit({"op": "pcomb", "out": n, "terms": terms})
        self.points.append(n)
        return n

    def oracle(self, f, x):
        g, v = self.nm("g"), self.nm("v")
        self.emit({"op": "oracle", "f": f, "x": x, "g": g, "v": v})
        self.points.append(g)
        self.values.append(v)
        self.exprs.append(v)
        return g, v

    def grad(self, f, x):
        g = self.nm("g")
        self.emit({"op": "grad", "f": f, "x": x, "g": g})
        self.points.append(g)
        return g

    def val(self, f, x):
        v = self.nm("v")
        self.emit({"op": "val", "f": f, "x": x, "v": v})
        self.values.append(v)
        self.exprs.append(v)
        return v

    def stat(self, f, name=None):
        x, g, v = self.nm("xs"), self.nm("gs"), self.nm("vs")
        self.emit({"op": "stat", "f": f, "x": x, "g": g, "v": v, "name": name})
        self.points.append(x)
        self.values.append(v)
        self.exprs.append(v)
        return x, v

    def expr(self, terms):
        n = self.nm("e")
        self.emit({"op": "expr", "out": n, "terms": terms})
        self.exprs.append(n)
        return n

    def sqdist(self, a, b=None):
        if b is None:
            return self.expr([[1.0, "sq", a]])
        d = self.pcomb([[1, a], [-1, b]])
        return self.expr([[1.0, "sq", d]])

    def cons(self, lhs, rel, rhs, owner="pep", **kw):
        n = self.nm("k")
        op = {"op": "cons", "out": n, "lhs": lhs, "rel": rel, "rhs": rhs, "owner": owner}
        op.update(kw)
        self.emit(op)
        self.conslist.append(n)
        return n

    def lmi(self, rows, owner="pep", **kw):
        n = self.nm("m")
        op = {"op": "lmi", "out": n, "rows": rows, "owner": owner}
        op.update(kw)
        self.emit(op)
        return n

    def metric(self, e):
        self.emit({"op": "metric", "e": e})

    def step(self, kind, args, nouts=None):
        nouts = nouts or STEP_SIGS[kind][1]
        outs = [self.nm("s") for _ in range(nouts)]
        self.emit({"op": "step", "kind": kind, "args": args, "outs": outs})
        self.meta["steps"].append(kind + (":" + str(args.get("opt") or args.get("notion")) if (args.get("opt") or args.get("notion")) else ""))
        return outs

    def program(self):
        self.meta["regs"] = {"points": list(self.points), "exprs": list(self.exprs), "values": list(self.values),
                             "funcs": [list(f[:3]) for f in self.funcs], "cons": list(self.conslist),
                             "parts": [list(p) for p in self.parts], "n": self.n}
        return {"ops": self.ops, "meta": self.meta}


def _rand_expr_terms(b, nterms=None, allow_const=True):
    rng = b.rng
    nterms = nterms or rng.randint(1, 4)
    terms = []
    for _ in range(nterms):
        c = b.pick([1.0, -1.0, 0.5, 2.0, -0.25, 3.0])
        r = rng.random()
        if r < 0.55 and b.points:
            p, q = b.pick(b.points), b.pick(b.points)
            terms.append([c, "ip", p, q])
        elif r < 0.85 and b.exprs:
            terms.append([c, "e", b.pick(b.exprs)])
        elif allow_const:
            terms.append([c, "const"])
    if not terms:
        terms.append([1.0, "const"])
    return terms


def _box(b, B=None):
    """Bound every leaf reachable so far: squared norms of all point registers and |value| of expressions."""
    B = B or b.pick([4.0, 10.0, 1.0])
    b.feat("boxed")
    for p in list(b.points):
        e = b.expr([[1.0, "sq", p]])
        b.cons(e, "<=", B)
    for v in list(b.values):
        b.cons(v, "<=", B)
        b.cons(v, ">=", -B)
    return B


SMOOTHISH = ["SmoothConvexFunction", "SmoothStronglyConvexFunction", "SmoothFunction",
             "SmoothConvexLipschitzFunction", "SmoothStronglyConvexQuadraticFunction"]
NONSMOOTH = ["ConvexFunction", "ConvexLipschitzFunction", "StronglyConvexFunction", "ConvexIndicatorFunction",
             "ConvexSupportFunction", "ConvexQGFunction"]


def _lips_of(params, default=1.0):
    L = params.get("L", default)
    if isinstance(L, list):
        L = max(L)
    if L == "inf":
        L = default
    return L


def fam_method(rng, opts=None):
    """A random first-order method on a function class (possibly a sum), natural initial condition + metric."""
    opts = opts or {}
    b = Builder(rng)
    b.meta["family"] = "method"
    mode = opts.get("mode") or b.pick(["single", "single", "sum", "sum_scaled"])
    cls1 = opts.get("cls") or b.pick(SMOOTHISH + ["RsiEbFunction", "BlockSmoothConvexFunction", "ConvexQGFunction",
                                                  "ConvexLipschitzFunction"])
    f1 = b.func(cls1, name=b.pick([None, None, "f"]))
    terms = [(f1, cls1)]
    F = f1
    if mode != "single":
        cls2 = opts.get("cls2") or b.pick(NONSMOOTH + SMOOTHISH)
        f2 = b.func(cls2)
        terms.append((f2, cls2))
        c1, c2 = (1.0, 1.0) if mode == "sum" else (b.pick([2.0, 0.5]), b.pick([1.0, 3.0]))
        F = b.nm("F")
        b.emit({"op": "fcomb", "out": F, "terms": [[c1, f1], [c2, f2]], "side": b.pick(["l", "r"])})
        b.funcs.append((F, "composite", "function", {}))
        b.feat("composite")
    params1 = [x for x in b.funcs if x[0] == f1][0][3]
    L = _lips_of(params1)
    stat_first = rng.random() < 0.7
    if stat_first:
        xs, vs = b.stat(F, name=b.pick([None, "xs"]))
    x0 = b.init(name=b.pick([None, "x0"]))
    if not stat_first:
        b.feat("stat_after_x0")
    x = x0
    N = opts.get("N") or rng.randint(1, 3)
    grads = []
    last_g = None
    for it in range(N):
        kinds = ["gd", "gd", "momentum"]
        if len(terms) > 1:
            kinds = ["proxgrad", "proxgrad", "prox_F", "gd_F"]
        if cls1 in ("SmoothConvexFunction", "SmoothStronglyConvexFunction") and len(terms) == 1:
            kinds += ["inexact_abs", "inexact_rel", "els", "prox", "inexact_prox"]
        if cls1 in ("ConvexLipschitzFunction", "ConvexQGFunction"):
            kinds = ["gd", "prox", "eps_subgrad" if cls1 == "ConvexLipschitzFunction" else "prox"]
        if cls1 == "BlockSmoothConvexFunction":
            kinds = ["block_gd", "gd"]
        kind = b.pick(kinds)
        gamma = b.pick([1.0, 0.5, 1.5, 0.1]) / L
        if kind in ("gd", "gd_F", "momentum"):
            g, v = b.oracle(F if kind != "gd" else F, x)
            grads.append(g)
            tl = [[1, x], [-gamma, g]]
            if kind == "momentum" and len(grads) > 1:
                tl.append([-0.3 * gamma, grads[-2]])
            x = b.pcomb(tl)
            last_g = g
        elif kind == "proxgrad":
            g = b.grad(f1, x)
            y = b.pcomb([[1, x], [-gamma, g]])
            outs = b.step("proximal", {"x0": y, "f": terms[1][0], "gamma": gamma})
            x = outs[0]
            b.points.extend(outs[:2]); b.values.append(outs[2]); b.exprs.append(outs[2])
        elif kind in ("prox", "prox_F"):
            outs = b.step("proximal", {"x0": x, "f": F, "gamma": b.pick([1.0, 0.3, 2.0])})
            x = outs[0]
            b.points.extend(outs[:2]); b.values.append(outs[2]); b.exprs.append(outs[2])
        elif kind in ("inexact_abs", "inexact_rel"):
            eps = b.pick([0.1, 0.3, 0.0])
            outs = b.step("inexact_gradient", {"x0": x, "f": F, "gamma": gamma, "epsilon": eps,
                                               "notion": "absolute" if kind == "inexact_abs" else "relative"})
            x = outs[0]
            b.points.extend(outs[:2]); b.values.append(outs[2]); b.exprs.append(outs[2])
        elif kind == "els":
            g = b.grad(F, x)
            outs = b.step("exact_linesearch", {"x0": x, "f": F, "directions": [g]})
            x = outs[0]
            b.points.extend(outs[:2]); b.values.append(outs[2]); b.exprs.append(outs[2])
        elif kind == "inexact_prox":
            opt = b.pick(["PD_gapI", "PD_gapII", "PD_gapIII"])
            outs = b.step("inexact_proximal", {"x0": x, "f": F, "gamma": b.pick([1.0, 0.5]), "opt": opt})
            xn, gx, fx, w, v, fw, epsv = outs
            b.points.extend([xn, gx]); b.values.extend([fx]); b.exprs.extend([fx, epsv])
            # bound the error: eps_var <= sigma^2/2 ||x - x0||^2
            d = b.pcomb([[1, xn], [-1, x]])
            e = b.expr([[0.5 * 0.25, "sq", d]])
            b.cons(epsv, "<=", e, owner=F)
            x = xn
        elif kind == "eps_subgrad":
            outs = b.step("epsilon_subgradient", {"x0": x, "f": F, "gamma": gamma})
            xn, g0, f0, eps = outs
            b.points.extend([xn, g0]); b.values.append(f0); b.exprs.extend([f0, eps])
            b.cons(eps, "<=", b.pick([0.1, 0.0, 0.5]))
            x = xn
        elif kind == "block_gd":
            pn, d = [p for p in b.parts if p[0] == [o for o in b.ops if o.get("out") == f1][0]["partition"]][0]
            g = b.grad(F, x)
            kblk = rng.randrange(d)
            gb = b.nm("p")
            b.emit({"op": "block", "b": pn, "x": g, "k": kblk, "out": gb})
            b.points.append(gb)
            Lk = [o for o in b.ops if o.get("out") == f1][0]["params"]["L"][kblk]
            x = b.pcomb([[1, x], [-1.0 / Lk, gb]])
            b.feat("partition")
    if not stat_first:
        xs, vs = b.stat(F)
    # initial condition
    ic = b.pick(["dist", "dist", "dist_R", "fval"]) if cls1 != "RsiEbFunction" else "dist"
    if opts.get("ic"):
        ic = opts["ic"]
    if ic == "fval" and (cls1 in ("ConvexLipschitzFunction",) or len(terms) > 1):
        ic = "dist"
    if ic == "fval":
        v0 = b.val(F, x0)
        e = b.expr([[1.0, "e", v0], [-1.0, "e", vs]])
        b.cons(e, "<=", 1.0, initial=True, name=b.pick([None, "init"]))
    else:
        e = b.sqdist(x0, xs)
        kw = {}
        if rng.random() < 0.06 or opts.get("ic_scale"):
            kw["scale"] = opts.get("ic_scale") or b.pick([1e3, 1e6, 1e9, 1e-4, 1e-9, 3e-10])
            b.feat("scaled_constraint")
        b.cons(e, "<=", 1.0 if ic == "dist" else 2.25, initial=True, **kw)
    # metric(s)
    mets = []
    nm = b.pick([1, 1, 1, 2])
    for _ in range(nm):
        mk = b.pick(["fval", "dist", "grad"] if cls1 in SMOOTHISH and len(terms) == 1 else
                    (["dist"] if cls1 == "RsiEbFunction" else ["fval", "dist"]))
        if mk == "fval":
            vN = b.val(F, x)
            mets.append(b.expr([[1.0, "e", vN], [-1.0, "e", vs]]))
        elif mk == "dist":
            mets.append(b.sqdist(x, xs))
        else:
            gN = b.grad(F, x)
            mets.append(b.expr([[1.0, "sq", gN]]))
    if nm > 1:
        b.feat("multi_metric")
    if opts.get("box") or rng.random() < 0.35:
        _box(b)
    if b.conslist and rng.random() < 0.12:
        b.emit({"op": "recons", "k": b.pick(b.conslist), "owner": "pep" if rng.random() < 0.5 else f1})
        b.feat("constraint_registered_twice")
    # optional extras: user constraint / LMI
    r = rng.random()
    if r < 0.25:
        _add_lmi(b)
    elif r < 0.45:
        e = b.expr(_rand_expr_terms(b, allow_const=False))
        b.cons(e, b.pick(["<=", ">=", "==", "<", ">", "r<", "r>"]) if "boxed" in b.meta["features"] else b.pick(["<=", "<=", "<", "r<"]),
               b.pick([1.0, 0.5, 2.0]))
        b.feat("user_constraint")
    if rng.random() < 0.3 and mets:
        # square-root metric through an ACTIVE LMI with a constant entry: maximise s subject to [[m, s],[s, 1]] >= 0
        m0 = mets[0]
        sroot = b.nm("t")
        b.emit({"op": "leafexpr", "out": sroot})
        b.exprs.append(sroot)
        owner = "pep" if rng.random() < 0.5 else b.pick(b.funcs)[0]
        b.lmi([[m0, sroot], [sroot, 1.0]], owner=owner)
        b.feat("lmi_sqrt_metric" + ("" if owner == "pep" else "_on_function"))
        mets[0] = sroot
    elif rng.random() < 0.15 and mets:
        # an LMI holding the same Expression objects at non-mirrored positions: [[t, u],[u, t]] (t >= |u|), u <= metric
        t_, u_ = b.nm("t"), b.nm("t")
        b.emit({"op": "leafexpr", "out": t_})
        b.emit({"op": "leafexpr", "out": u_})
        b.exprs.extend([t_, u_])
        b.lmi([[t_, u_], [u_, t_]], owner="pep" if rng.random() < 0.6 else b.pick(b.funcs)[0])
        b.cons(t_, "<=", mets[0])
        b.feat("lmi_repeated_entries")
        mets[0] = u_
    for m in mets:
        b.metric(m)
    return b.program()


def _add_lmi(b, owner="pep", force_kind=None, force_name=None):
    """An LMI that is feasible at the origin: PSD constant part, arbitrary off-diagonal expressions."""
    rng = b.rng
    kind = force_kind or b.pick(["sym2", "nonsym2", "sym3", "one", "schur", "offconst"])
    if not b.points:
        return None
    p, q = b.pick(b.points), b.pick(b.points)
    if kind == "one":
        e = b.expr([[1.0, "const"], [-0.1, "sq", p]])
        rows = [[e]]
    elif kind == "schur":
        # [[t, <p,q>],[<p,q>, 1]] : t >= <p,q>^2 with t a fresh leaf bounded above
        t = b.nm("t")
        b.emit({"op": "leafexpr", "out": t})
        b.exprs.append(t); b.values.append(t)
        ip = b.expr([[1.0, "ip", p, q]])
        # the corner entry is the leaf itself or a multiple of it written as an expression of its own (t / 2)
        w = b.pick([None, None, 0.5, 2.0])
        rows = [[t if w is None else b.expr([[w, "e", t]]), ip], [ip, 1.0]]
        b.cons(t, "<=", 5.0)
    elif kind == "offconst":
        # [[s, c], [c, t]] : s t >= c^2 with the CONSTANT off the diagonal, s and t fresh leaves bounded above
        s_, t = b.nm("t"), b.nm("t")
        for x_ in (s_, t):
            b.emit({"op": "leafexpr", "out": x_})
            b.exprs.append(x_); b.values.append(x_)
            b.cons(x_, "<=", 5.0)
        c = b.pick([1.0, 0.5, -1.0, 2.0])
        rows = [[s_, c], [c, t]]
    elif kind == "sym2":
        d1 = b.expr([[1.0, "sq", p], [1.0, "const"]])
        d2 = b.expr([[2.0, "const"]])
        o = b.expr([[0.5, "ip", p, q]])
        rows = [[d1, o], [o, d2]]
    elif kind == "nonsym2":
        d1 = b.expr([[1.0, "sq", p], [1.0, "const"]])
        o1 = b.expr([[0.5, "ip", p, q]])
        if b.values:
            o2 = b.expr([[1.0, "e", b.pick(b.values)]])
        else:
            o2 = b.expr([[0.25, "sq", q]])
        rows = [[d1, o1], [o2, 1.0]]
        b.feat("lmi_nonsym")
    else:
        d = [b.expr([[1.0, "sq", b.pick(b.points)], [1.0, "const"]]) for _ in range(3)]
        o = [b.expr([[b.pick([0.5, -0.5, 0.2]), "ip", b.pick(b.points), b.pick(b.points)]]) for _ in range(3)]
        rows = [[d[0], o[0], o[1]], [o[0], d[1], o[2]], [o[1], o[2], d[2]]]
    b.feat("lmi_" + kind)
    kw = {}
    if rng.random() < 0.3:
        kw["via_numpy"] = True
        if rng.random() < 0.6:
            kw["clobber"] = True
        b.feat("lmi_from_numpy")
    if rng.random() < 0.3:
        kw["name"] = b.pick(["lmi", "lmi", "T"])       # labels: two LMIs may well carry the same one
    if force_name:
        kw["name"] = force_name
    return b.lmi(rows, owner=owner, **kw)


def fam_operator(rng, opts=None):
    opts = opts or {}
    b = Builder(rng)
    b.meta["family"] = "operator"
    cls1 = opts.get("cls") or b.pick([c for c in OPERATOR_CLASSES if c != "LinearOperator"])
    A = b.func(cls1)
    params = [x for x in b.funcs if x[0] == A][0][3]
    T = A
    two = rng.random() < 0.3
    if two:
        cls2 = b.pick(["MonotoneOperator", "StronglyMonotoneOperator", "CocoerciveOperator"])
        Bop = b.func(cls2)
        T = b.nm("F")
        b.emit({"op": "fcomb", "out": T, "terms": [[1.0, A], [1.0, Bop]]})
        b.funcs.append((T, "composite", "operator", {}))
        b.feat("composite")
    usefixed = cls1 in ("NonexpansiveOperator", "LipschitzOperator") and not two and rng.random() < 0.5
    stat_first = rng.random() < 0.6
    if stat_first:
        if usefixed:
            xs = b.nm("xs"); b.emit({"op": "fixed", "f": T, "x": xs}); b.points.append(xs); b.feat("fixed_point")
        else:
            xs = b.nm("xs"); b.emit({"op": "stat", "f": T, "x": xs}); b.points.append(xs)
    x0 = b.init()
    x = x0
    prev = None
    N = rng.randint(1, 3)
    forward_ok = cls1 in ("CocoerciveOperator", "CocoerciveStronglyMonotoneOperator", "LipschitzOperator",
                          "LipschitzStronglyMonotoneOperator", "NonexpansiveOperator", "SymmetricLinearOperator",
                          "SkewSymmetricLinearOperator") and not two
    for _ in range(N):
        prev = x
        if usefixed:
            # Krasnoselskii-Mann x+ = (1-t) x + t A x
            t = b.pick([0.5, 0.3, 1.0])
            g = b.grad(T, x)
            x = b.pcomb([[1 - t, x], [t, g]])
        elif forward_ok and rng.random() < 0.5:
            Lc = params.get("L", 1.0 / params.get("beta", 1.0)) if isinstance(params.get("L", 1.0), float) else 1.0
            gam = b.pick([0.5, 0.2, 1.0]) / max(Lc, 1e-3)
            g = b.grad(T, x)
            x = b.pcomb([[1, x], [-gam, g]])
        else:
            outs = b.step("proximal", {"x0": x, "f": T, "gamma": b.pick([1.0, 0.5, 2.0])})
            x = outs[0]
            b.points.extend(outs[:2])
    if not stat_first:
        b.feat("stat_after_x0")
        if usefixed:
            xs = b.nm("xs"); b.emit({"op": "fixed", "f": T, "x": xs}); b.points.append(xs); b.feat("fixed_point")
        else:
            xs = b.nm("xs"); b.emit({"op": "stat", "f": T, "x": xs}); b.points.append(xs)
    e = b.sqdist(x0, xs)
    b.cons(e, "<=", 1.0, initial=True)
    mk = b.pick(["dist", "res"])
    met = b.sqdist(x, xs) if mk == "dist" else b.sqdist(x, prev)
    if rng.random() < 0.5 or opts.get("box"):
        _box(b)
    if rng.random() < 0.2:
        _add_lmi(b)
    b.metric(met)
    return b.program()


def fam_linear(rng, opts=None):
    """LinearOperator with samples of M and of its transpose, boxed."""
    b = Builder(rng)
    b.meta["family"] = "linear"
    A = b.func("LinearOperator")
    f = None
    if rng.random() < 0.5:
        f = b.func(b.pick(["ConvexFunction", "SmoothConvexFunction"]))
    nx, nu = rng.randint(1, 3), rng.randint(1, 2)
    xs_, us_ = [], []
    for _ in range(nx):
        x = b.init() if rng.random() < 0.7 or not b.points else b.pcomb([[1, b.pick(b.points)], [0.5, b.pick(b.points)]])
        y = b.grad(A, x)
        xs_.append((x, y))
    for _ in range(nu):
        u = b.init() if rng.random() < 0.6 else b.pick([p for p, _ in xs_] + [y for _, y in xs_])
        v = b.nm("g")
        b.emit({"op": "tgrad", "f": A, "x": u, "g": v})
        b.points.append(v)
        us_.append((u, v))
    if f:
        b.oracle(f, b.pick(b.points))
        b.oracle(f, b.pick(b.points))
    _box(b, 2.0)
    met = b.expr(_rand_expr_terms(b, allow_const=False))
    b.metric(met)
    if rng.random() < 0.3:
        b.metric(b.expr(_rand_expr_terms(b, allow_const=True)))
        b.feat("multi_metric")
    return b.program()


def fam_soup(rng, opts=None):
    """Random soup over the whole vocabulary, boxed so that any metric is bounded."""
    opts = opts or {}
    b = Builder(rng)
    b.meta["family"] = "soup"
    nfun = rng.randint(1, 3)
    allcls = [c for c in CLASSES if c != "LinearOperator"]
    for _ in range(nfun):
        cls = opts.get("cls") or b.pick(allcls)
        kw = {}
        if not CLASSES[cls][1] and rng.random() < 0.3:
            kw["reuse"] = True
        if rng.random() < 0.3:
            kw["name"] = "fn%d" % b.n
        b.func(cls, **kw)
    if len(b.funcs) >= 2 and rng.random() < 0.6:
        k = rng.randint(2, len(b.funcs))
        sub = rng.sample([x[0] for x in b.funcs], k)
        T = b.nm("F")
        b.emit({"op": "fcomb", "out": T, "terms": [[b.pick([1.0, 2.0, -1.0, 0.5, 0.0]), s] for s in sub],
                "side": b.pick(["l", "r"])})
        b.funcs.append((T, "composite", "function", {}))
        b.feat("composite")
    b.init()
    nops = rng.randint(3, 9)
    for _ in range(nops):
        r = rng.random()
        fn, fcls, fkind, fpar = b.pick(b.funcs)
        if r < 0.12:
            b.init()
        elif r < 0.30:
            k = rng.randint(1, 3)
            b.pcomb([[b.pick([1, -1, 0.5, 2.0, -0.3]), b.pick(b.points)] for _ in range(k)])
        elif r < 0.55:
            b.oracle(fn, b.pick(b.points))
        elif r < 0.63:
            b.grad(fn, b.pick(b.points))
        elif r < 0.70:
            b.val(fn, b.pick(b.points))
        elif r < 0.78:
            if fcls != "SmoothStronglyConvexQuadraticFunction" or True:
                b.stat(fn)
        elif r < 0.82:
            x = b.nm("xf"); v = b.nm("v")
            b.emit({"op": "fixed", "f": fn, "x": x, "v": v})
            b.points.append(x); b.values.append(v); b.exprs.append(v)
            b.feat("fixed_point")
        elif r < 0.92:
            outs = b.step("proximal", {"x0": b.pick(b.points), "f": fn, "gamma": b.pick([1.0, 0.5, 2.0])})
            b.points.extend(outs[:2]); b.values.append(outs[2]); b.exprs.append(outs[2])
        else:
            if b.parts:
                pn, d = b.pick(b.parts)
                o = b.nm("p")
                b.emit({"op": "block", "b": pn, "x": b.pick(b.points), "k": rng.randrange(d), "out": o})
                b.points.append(o)
                b.feat("partition")
    _box(b)
    nuser = rng.randint(0, 3)
    for _ in range(nuser):
        e = b.expr(_rand_expr_terms(b, allow_const=False))
        owner = "pep" if rng.random() < 0.6 else b.pick(b.funcs)[0]
        b.cons(e, b.pick(["<=", ">=", "==", "<", ">", "r<", "r>"]), b.pick([1.0, 0.5, 0.0, 2.0]) if rng.random() < 0.8 else
               b.expr(_rand_expr_terms(b, allow_const=True)), owner=owner,
               name=b.pick([None, None, "uc%d" % b.n]))
        b.feat("user_constraint")
    if b.conslist and rng.random() < 0.25:
        b.emit({"op": "recons", "k": b.pick(b.conslist), "owner": "pep" if rng.random() < 0.5 else b.pick(b.funcs)[0]})
        b.feat("constraint_registered_twice")
    nl = b.pick([0, 0, 1, 1, 2])
    if (opts or {}).get("same_name_lmis"):
        # two (or three) different LMIs of one shape that carry the same label
        active = rng.random() < 0.6
        v0 = len(b.values)
        for _ in range(b.pick([2, 2, 3])):
            _add_lmi(b, owner="pep" if rng.random() < 0.6 else b.pick(b.funcs)[0],
                     force_kind=b.pick(["schur", "offconst"]) if active else b.pick(["sym2", "schur"]), force_name="lmi")
        nl = 0
        b.feat("same_name_lmis")
        if active:
            # every one of them is tight at the optimum: the metric pays for each epigraph variable t >= <p,q>^2
            ts = b.values[v0:]
            terms = [[-b.pick([1.0, 0.5, 2.0]), "e", t] for t in ts] + _rand_expr_terms(b, allow_const=False)
            b.metric(b.expr(terms))
            b.feat("lmis_active")
            return b.program()
    for _ in range(nl):
        owner = "pep" if rng.random() < 0.6 else b.pick(b.funcs)[0]
        _add_lmi(b, owner=owner)
    nm = b.pick([1, 1, 2, 3])
    for _ in range(nm):
        b.metric(b.expr(_rand_expr_terms(b, allow_const=rng.random() < 0.3)))
    if nm > 1:
        b.feat("multi_metric")
    return b.program()


PARAM_VARIANTS = {
    "ConvexIndicatorFunction": [{"D": 1.5}, {"D": "inf"}],
    "ConvexSupportFunction": [{"M": 2.0}, {"M": "inf"}],
    "ConvexLipschitzFunction": [{"M": 1.0}, {"M": 3.0}],
    "SmoothConvexLipschitzFunction": [{"L": 2.0, "M": 1.0}, {"L": 1.0, "M": 3.0}],
}


def fam_classcover(rng, opts=None):
    """Every class with at least three samples: named and unnamed points, a repeated evaluation at a named point
    (non-differentiable classes), a stationary point declared last; boxed so that any metric is bounded."""
    opts = opts or {}
    b = Builder(rng)
    b.meta["family"] = "classcover"
    cls = opts.get("cls") or b.pick([c for c in CLASSES])
    variant = opts.get("variant", rng.randrange(2))
    params = None
    if cls in PARAM_VARIANTS:
        params = dict(PARAM_VARIANTS[cls][variant % 2])
    kw = {}
    if variant % 2 == 0:
        kw["name"] = rng.choice(["fun", "f_{1}", "h_{0}", "f{2}"])       # names are free-form labels (LaTeX-like ones included)
    f = b.func(cls, params=params, **kw)
    pts = [b.init(name="x0"), b.init(name=None if variant % 2 else "x1")]
    pts.append(b.pcomb([[1, pts[0]], [-0.5, pts[1]]]))
    if cls == "NonexpansiveOperator" and variant % 2 == 0:
        # infimal displacement vector
        v = b.init(name="v")
        [o for o in b.ops if o.get("out") == f][0]["v"] = v
        # the function op was emitted before v exists: move it after
        fop = [o for o in b.ops if o.get("out") == f][0]
        b.ops.remove(fop)
        b.ops.append(fop)
        b.feat("infimal_displacement")
    for p in pts:
        b.oracle(f, p)
    nondiff = not CLASSES[cls][1]
    if nondiff:
        b.oracle(f, pts[0])          # second subgradient at the named point x0
        b.feat("repeated_subgradient")
    if cls == "LinearOperator":
        for p in pts[:2]:
            g = b.nm("g")
            b.emit({"op": "tgrad", "f": f, "x": p, "g": g})
            b.points.append(g)
    if cls != "SmoothStronglyConvexQuadraticFunction" and cls != "LinearOperator":
        b.stat(f, name=None if variant % 2 else "xs")
        b.feat("stat_after_x0")
    if cls == "BlockSmoothConvexFunction":
        b.feat("partition")
    _box(b, 2.0)
    b.metric(b.expr(_rand_expr_terms(b, nterms=3, allow_const=False)))
    return b.program()


def fam_steps(rng, opts=None):
    """A boxed model chaining 2-4 primitive steps drawn from all eight (incl. Bregman and linear-optimisation steps)."""
    b = Builder(rng)
    b.meta["family"] = "steps"
    f = b.func(b.pick(["SmoothStronglyConvexFunction", "SmoothConvexFunction", "ConvexFunction", "ConvexLipschitzFunction"]))
    h = b.func("StronglyConvexFunction", params={"mu": 1.0})
    ind = b.func("ConvexIndicatorFunction", params={"D": b.pick([1.0, "inf", 2.0])})
    F = f
    if rng.random() < 0.3:
        F = b.nm("F")
        b.emit({"op": "fcomb", "out": F, "terms": [[1.0, f], [1.0, ind]]})
        b.funcs.append((F, "composite", "function", {}))
        b.feat("composite")
    x = b.init()
    nsteps = rng.randint(2, 4)
    for _ in range(nsteps):
        kind = b.pick(list(STEP_SIGS))
        gamma = b.pick([1.0, 0.5, 0.2, 2.0])
        if kind == "proximal":
            outs = b.step(kind, {"x0": x, "f": b.pick([F, ind, f]), "gamma": gamma})
            b.points.extend(outs[:2]); b.values.append(outs[2]); b.exprs.append(outs[2]); x = outs[0]
        elif kind == "inexact_gradient":
            outs = b.step(kind, {"x0": x, "f": f, "gamma": gamma, "epsilon": b.pick([0.0, 0.1, 0.5]), "notion": b.pick(["absolute", "relative"])})
            b.points.extend(outs[:2]); b.values.append(outs[2]); b.exprs.append(outs[2]); x = outs[0]
        elif kind == "exact_linesearch":
            g = b.grad(f, x)
            outs = b.step(kind, {"x0": x, "f": f, "directions": [g] if rng.random() < 0.7 else [g, x]})
            b.points.extend(outs[:2]); b.values.append(outs[2]); b.exprs.append(outs[2]); x = outs[0]
        elif kind == "inexact_proximal":
            outs = b.step(kind, {"x0": x, "f": f, "gamma": gamma, "opt": b.pick(["PD_gapI", "PD_gapII", "PD_gapIII"])})
            xn, gx, fx, w, v, fw, epsv = outs
            b.points.extend([xn, gx]); b.values.append(fx); b.exprs.extend([fx, epsv])
            b.cons(epsv, "<=", b.pick([0.1, 0.0, 1.0]), owner=b.pick(["pep", f]))
            x = xn
        elif kind == "bregman_gradient":
            g = b.grad(f, x)
            sx = b.grad(h, x)
            outs = b.step(kind, {"gx0": g, "sx0": sx, "mirror_map": h, "gamma": gamma})
            b.points.extend(outs[:2]); b.values.append(outs[2]); b.exprs.append(outs[2]); x = outs[0]
        elif kind == "bregman_proximal":
            sx = b.grad(h, x)
            outs = b.step(kind, {"sx0": sx, "mirror_map": h, "min_function": f, "gamma": gamma})
            b.points.extend([outs[0], outs[1], outs[3]]); b.values.extend([outs[2], outs[4]]); b.exprs.extend([outs[2], outs[4]]); x = outs[0]
        elif kind == "linear_optimization":
            g = b.grad(f, x)
            outs = b.step(kind, {"dir": g, "ind": ind})
            b.points.extend(outs[:2]); b.values.append(outs[2]); b.exprs.append(outs[2])
            lam = b.pick([0.5, 0.3, 1.0])
            x = b.pcomb([[1 - lam, x], [lam, outs[0]]])
        else:
            outs = b.step(kind, {"x0": x, "f": f, "gamma": gamma})
            xn, g0, f0, eps = outs
            b.points.extend([xn, g0]); b.values.append(f0); b.exprs.extend([f0, eps])
            b.cons(eps, "<=", b.pick([0.1, 0.0, 0.5]))
            x = xn
    if rng.random() < 0.6:
        b.stat(F)
    _box(b, b.pick([2.0, 4.0]))
    # leaf expressions that are not function values (eps variables) are bounded too
    for e in list(b.exprs):
        if e not in b.values and e.startswith("s"):
            b.cons(e, "<=", 5.0)
            b.cons(e, ">=", -5.0)
    nm = b.pick([1, 1, 2])
    for _ in range(nm):
        b.metric(b.expr(_rand_expr_terms(b, nterms=3, allow_const=False)))
    return b.program()


def fam_big(rng, opts=None):
    """More than 127 scalar constraints (row indices beyond one byte)."""
    opts = opts or {}
    b = Builder(rng)
    b.meta["family"] = "big"
    f = b.func(b.pick(["SmoothStronglyConvexFunction", "SmoothConvexFunction"]))
    L = _lips_of([x for x in b.funcs if x[0] == f][0][3])
    xs, vs = b.stat(f)
    x = x0 = b.init()
    for _ in range(opts.get("N", 11)):
        g, v = b.oracle(f, x)
        x = b.pcomb([[1, x], [-b.pick([1.0, 0.5, 1.5]) / L, g]])
    b.cons(b.sqdist(x0, xs), "<=", 1.0, initial=True)
    vN = b.val(f, x)
    b.metric(b.expr([[1.0, "e", vN], [-1.0, "e", vs]]))
    if rng.random() < 0.5:
        _add_lmi(b)
    return b.program()


FAMILIES = {"big": fam_big, "classcover": fam_classcover, "steps": fam_steps, "method": fam_method, "operator": fam_operator, "linear": fam_linear, "soup": fam_soup}


def gen_program(rng, family=None, opts=None):
    family = family or rng.choice(["method", "method", "operator", "soup", "soup", "linear", "steps"])
    prog = FAMILIES[family](rng, opts)
    return prog


def signature(prog):
    m = prog["meta"]
    return "|".join([m.get("family", "?"), ",".join(sorted(set(m["classes"]))), ",".join(sorted(set(m["steps"]))),
                     ",".join(sorted(m["features"])), str(sum(1 for o in prog["ops"] if o["op"] == "cons")),
                     str(sum(1 for o in prog["ops"] if o["op"] == "metric"))])
