"""Translation validation of what MosekWrapper put into the (stand-in) MOSEK Task, reconstructed from the
Task's recorded data: each row / LMI entry / objective must denote the same affine functional as the declared
symbolic object (independent coefficient walk of pv/canon.py)."""
import numpy as np

from pv import canon


def _close(a, b, tol=1e-10):
    a, b = np.asarray(a, dtype=float), np.asarray(b, dtype=float)
    if a.shape != b.shape:
        return False
    if a.size == 0:
        return True
    return bool(np.max(np.abs(a - b)) <= tol * (1.0 + max(np.max(np.abs(a)), np.max(np.abs(b)))))


def validate_task(wrapper, rec):
    """Returns (findings, info). findings: list of {key, what}. Called after generate_problem (before optimize)."""
    import mosek
    task = wrapper.task
    idx = canon.Index()
    findings = []
    info = {"rows_checked": 0, "lmi_entries_checked": 0, "lmis": 0}

    def F(key, what):
        if len(findings) < 10:
            findings.append({"key": key, "what": what, "grade": "violated"})

    rows, c, C = task.dense()
    n, m = idx.n, idx.m
    if not task.bardim or task.bardim[0] != n:
        F("mosek_gram_dimension", "matrix variable 0 has dimension %r, Gram is %dx%d" % (task.bardim[:1], n, n))
        return findings, info
    if task.numvar < m:
        F("mosek_too_few_variables", "%d scalar variables for %d leaf expressions" % (task.numvar, m))
        return findings, info
    # every leaf-expression variable must be free, any other variable fixed at 0
    for j in range(task.numvar):
        free = task.vbk[j] is mosek.boundkey.fr
        if j < m and not free:
            F("mosek_leaf_variable_not_free", "variable %d (a leaf expression) is not free: %r" % (j, task.vbk[j]))
        if j >= m and free:
            F("mosek_extra_free_variable", "variable %d does not correspond to any leaf expression but is free" % j)

    def pad(a):
        out = np.zeros(task.numvar)
        out[:len(a)] = a
        return out

    used_rows = set()
    sent = [(k, o) for (k, o, tracked) in rec["sent"] if tracked]
    scal_idx = list(wrapper._constraint_index_in_mosek)
    ks = 0
    row_ptr = 0
    barvar = 0
    for kind, o in sent:
        if kind == "c":
            if ks >= len(scal_idx):
                F("mosek_constraint_index_missing", "no task row recorded for a sent scalar constraint")
                break
            i = scal_idx[ks]
            ks += 1
            if not 0 <= i < len(rows) or i in used_rows:
                F("mosek_constraint_row_reused", "scalar constraint mapped to row %r (already used or out of range)" % i)
                continue
            used_rows.add(i)
            A, a, alpha = canon.expr_num(o.expression, idx)
            r = rows[i]
            info["rows_checked"] += 1
            extra_bar = [j for j, M in r["bar"].items() if j != 0 and np.any(M != 0)]
            if extra_bar:
                F("mosek_scalar_row_touches_lmi_variable", "row %d of a scalar constraint involves matrix variable(s) %s" % (i, extra_bar))
            if not _close(r["bar"].get(0, np.zeros((n, n))), A):
                F("mosek_row_gram_part_wrong", "row %d: Gram coefficients differ from the symbolic expression by %.3e"
                  % (i, np.max(np.abs(r["bar"].get(0, np.zeros((n, n))) - A))))
            if not _close(r["a"], pad(a)):
                F("mosek_row_linear_part_wrong", "row %d: function-value coefficients differ from the symbolic expression" % i)
            if o.equality_or_inequality == "inequality":
                if r["bk"] is not mosek.boundkey.up or not _close(r["bu"], -alpha):
                    F("mosek_row_bound_wrong", "row %d: inequality sent with bound %r [%g,%g], expected up %g" % (i, r["bk"], r["bl"], r["bu"], -alpha))
            else:
                if r["bk"] is not mosek.boundkey.fx or not _close(r["bl"], -alpha) or not _close(r["bu"], -alpha):
                    F("mosek_row_bound_wrong", "row %d: equality sent with bound %r [%g,%g], expected fx %g" % (i, r["bk"], r["bl"], r["bu"], -alpha))
        else:
            barvar += 1
            info["lmis"] += 1
            size = o.shape[0]
            if barvar >= len(task.bardim) or task.bardim[barvar] != size:
                F("mosek_lmi_variable_dimension", "LMI #%d (size %d) has no matrix variable of that size at index %d (dims %s)"
                  % (barvar, size, barvar, task.bardim))
                continue
            # the n^2 rows that couple entries of this LMI: rows that involve matrix variable `barvar`
            mine = [i for i, r in enumerate(rows) if barvar in r["bar"] and np.any(r["bar"][barvar] != 0)]
            cover = {}
            for i in mine:
                r = rows[i]
                used_rows.add(i)
                S = r["bar"][barvar]
                nz = np.argwhere(np.abs(S) > 0)
                if len(nz) == 0:
                    continue
                p, q = int(nz[0][0]), int(nz[0][1])
                E = np.zeros((size, size))
                if p == q:
                    E[p, p] = -1.0
                else:
                    E[p, q] = E[q, p] = -0.5
                if not _close(S, E):
                    F("mosek_lmi_selector_wrong", "row %d: selector on matrix variable %d is not -E_(%d,%d)" % (i, barvar, p, q))
                    continue
                others = [j for j, M in r["bar"].items() if j not in (0, barvar) and np.any(M != 0)]
                if others:
                    F("mosek_lmi_row_touches_other_variable", "row %d couples matrix variables %s and %d" % (i, others, barvar))
                cover.setdefault((min(p, q), max(p, q)), []).append(i)
                if r["bk"] is not mosek.boundkey.fx:
                    F("mosek_lmi_row_not_equality", "row %d (LMI entry) is not an equality" % i)
            # each written entry (i,j) must be imposed: rows for unordered pair {i,j} must contain the functionals
            for p in range(size):
                for q in range(size):
                    info["lmi_entries_checked"] += 1
                    A, a, alpha = canon.expr_num(o[p, q], idx)
                    cand = cover.get((min(p, q), max(p, q)), [])
                    ok = False
                    for i in cand:
                        r = rows[i]
                        if _close(r["bar"].get(0, np.zeros((n, n))), A) and _close(r["a"], pad(a)) and _close(r["bl"], -alpha) \
                                and _close(r["bu"], -alpha):
                            ok = True
                            break
                    if not ok:
                        F("mosek_lmi_entry_not_coupled",
                          "entry (%d,%d) of LMI #%d is not tied to entry (%d,%d) of its own matrix variable %d (%d candidate rows)"
                          % (p, q, barvar, p, q, barvar, len(cand)))
            nrows_expected = size * size
            if len(mine) != nrows_expected:
                F("mosek_lmi_row_count", "LMI #%d of size %d is coupled through %d rows, expected %d" % (barvar, size, len(mine), nrows_expected))
    # rows that denote nothing that was declared
    for i, r in enumerate(rows):
        if i not in used_rows:
            nonzero = np.any(r["a"] != 0) or any(np.any(M != 0) for M in r["bar"].values())
            if nonzero or r["bk"] is not mosek.boundkey.fr:
                F("mosek_undeclared_row", "task row %d does not correspond to any declared constraint" % i)
    if len(task.bardim) != 1 + info["lmis"]:
        F("mosek_matrix_variable_count", "%d matrix variables for %d LMIs" % (len(task.bardim), info["lmis"]))
    # objective: maximise the objective leaf's variable, nothing else
    obj = rec.get("objective")
    if obj is not None:
        want = np.zeros(task.numvar)
        want[idx.e(obj)] = 1.0
        if not _close(c, want):
            F("mosek_objective_wrong", "objective vector is not the indicator of the objective leaf (index %d): nonzeros at %s"
              % (idx.e(obj), np.nonzero(c)[0].tolist()))
        if any(np.any(M != 0) for M in C.values()):
            F("mosek_objective_has_matrix_part", "objective has a matrix part before any heuristic")
        if task.sense is not mosek.objsense.maximize:
            F("mosek_objective_sense", "objective sense is %r" % task.sense)
    return findings, info


def validate_heuristic(wrapper, rec, weight):
    """After heuristic(W): the problem handed to the solver must be  minimise <W, G>  over the ORIGINAL constraints plus the
    row objective >= optimum - tol.  Returns findings."""
    findings = []

    def F(key, what):
        findings.append({"key": key, "what": what, "grade": "violated"})

    Wraw = np.asarray(weight, dtype=float)
    W = (Wraw + Wraw.T) / 2
    # a weight that is symmetric only up to rounding (inverse of a regularised Gram matrix) has no single symmetric reading:
    # the lower triangle mirrored (MOSEK back-end) and (W + W')/2 (cvxpy's trace) differ by at most its asymmetry
    asym = float(np.max(np.abs(Wraw - Wraw.T))) if Wraw.size else 0.0
    name = type(wrapper).__name__
    if name == "MosekWrapper":
        import mosek
        task = wrapper.task
        rows, c, C = task.dense()
        if task.sense is not mosek.objsense.minimize:
            F("heuristic_objective_sense:mosek", "objective sense after heuristic() is %r" % task.sense)
        if np.any(c != 0):
            F("heuristic_objective_has_linear_part:mosek", "the heuristic objective still has coefficients on scalar variables %s" % np.nonzero(c)[0].tolist())
        C0 = C.get(0, np.zeros_like(W))
        if any(np.any(M != 0) for j, M in C.items() if j != 0):
            F("heuristic_objective_on_lmi_variable:mosek", "the heuristic objective involves an LMI matrix variable")
        if not _close(C0, W, 1e-9) and float(np.max(np.abs(C0 - W))) > asym + 1e-9 * (1.0 + float(np.max(np.abs(W)))):
            F("heuristic_weights_wrong:mosek", "the matrix of the heuristic objective differs from the weight W handed to heuristic() by %.3e "
              "(relative %.3e)" % (np.max(np.abs(C0 - W)), np.max(np.abs(C0 - W)) / max(np.max(np.abs(W)), 1e-300)))
    elif name == "CvxpyWrapper":
        n = W.shape[0]
        rng = np.random.RandomState(0)
        P_ = rng.randn(n, n)
        Gv = P_.T @ P_
        wrapper.G.value = Gv
        obj = wrapper.prob.objective
        val = float(np.asarray(obj.args[0].value).ravel()[0])
        want = float(np.sum(W * Gv))
        if type(obj).__name__ != "Minimize" or abs(val - want) > 1e-9 * (1 + abs(want)) + asym * float(np.sum(np.abs(Gv))):
            F("heuristic_weights_wrong:cvxpy", "the heuristic objective evaluates to %.9g at a random Gram matrix, <W, G> = %.9g" % (val, want))
        if len(wrapper.prob.constraints) != len(wrapper._list_of_solver_constraints) or \
                any(a is not b for a, b in zip(wrapper.prob.constraints, wrapper._list_of_solver_constraints)):
            F("heuristic_problem_constraints_differ:cvxpy", "the heuristic problem does not hold the emitted constraint list")
    return findings
