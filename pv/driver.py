"""Shared case driver: build a program through the real API, solve it under a configuration with the boundary
monitor on, hand the record to oracles."""
import contextlib
import io
import random

from pv import gen
from pv.monitors import Boundary, backend_status, is_optimal_status

_BOUNDARY = None


def boundary():
    global _BOUNDARY
    if _BOUNDARY is None:
        _BOUNDARY = Boundary().install()
    return _BOUNDARY


def case_rng(seed, shard, i):
    return random.Random("%d/%s/%d" % (seed, shard, i))


def solve_kwargs(cfg):
    kw = {"wrapper": "mosek" if cfg.get("wrapper") == "mosek_absent" else cfg.get("wrapper", "cvxpy"),
          "return_primal_or_dual": cfg.get("mode", "dual"),
          "verbose": cfg.get("verbose", 0)}
    if cfg.get("dimred"):
        kw["dimension_reduction_heuristic"] = cfg["dimred"]
        if "eig_reg" in cfg:
            kw["eig_regularization"] = cfg["eig_reg"]
        if "tol_dr" in cfg:
            kw["tol_dimension_reduction"] = cfg["tol_dr"]
    if cfg.get("solver"):
        kw["solver"] = cfg["solver"]
    return kw


@contextlib.contextmanager
def package_absent(name):
    """An environment in which the package `name` is not installed (the library then documents a switch to cvxpy):
    importlib.util.find_spec answers None for it for the duration of the solve."""
    if name is None:
        yield
        return
    import importlib.util as iu
    orig = iu.find_spec

    def find_spec(n, *a, **kw):
        if n == name or n.startswith(name + "."):
            return None
        return orig(n, *a, **kw)
    iu.find_spec = find_spec
    try:
        yield
    finally:
        iu.find_spec = orig


def random_config(rng, allow_dimred=True, allow_scs=True):
    cfg = {"wrapper": "cvxpy", "solver": "CLARABEL", "verbose": rng.choice([0, 0, 0, 1]), "mode": rng.choice(["dual", "dual", "primal"])}
    if allow_scs and rng.random() < 0.12:
        cfg["solver"] = "SCS"
    if allow_dimred and rng.random() < 0.15:
        cfg["dimred"] = rng.choice(["trace", "logdet1", "logdet2"])
    return cfg


class Case(object):
    """Result of running one program under one configuration."""

    def __init__(self):
        self.machine = None
        self.rec = None
        self.outcome = None       # ("ok", value) | ("exc", e) | ("build_exc", e)
        self.stdout = ""
        self.status = None
        self.decidable = False
        self.cfg = None
        self.fell_back = False


def run_case(prog, cfg, pre_solve=None, quiet=True):
    """Build and solve. pre_solve(machine) is called after construction, before the solve."""
    bd = boundary()
    c = Case()
    c.cfg = dict(cfg)
    m = gen.Machine()
    c.machine = m
    buf = io.StringIO()
    n0 = len(bd.records)
    try:
        with contextlib.redirect_stdout(buf):
            m.run(prog["ops"])
    except Exception as e:
        c.outcome = ("build_exc", e)
        c.stdout = buf.getvalue()
        return c
    if pre_solve is not None:
        pre_solve(m)
    with contextlib.redirect_stdout(buf), package_absent("mosek" if cfg.get("wrapper") == "mosek_absent" else None):
        out = m.do_solve(solve_kwargs(cfg))
    c.stdout = buf.getvalue()
    c.outcome = out
    c.rec = bd.records[n0] if len(bd.records) > n0 else None
    if c.rec is not None and not c.rec.get("inner") and len(bd.records) > n0 + 1:
        # solve() re-entered itself (e.g. a fallback implemented as a recursive call): the record that holds the solver
        # traffic is the innermost one; it is judged against the options the USER passed
        with_inner = [r for r in bd.records[n0:] if r.get("inner")]
        if with_inner:
            c.rec = with_inner[-1]
    if c.rec is not None:
        c.status = backend_status(c.rec)
        sts = [str(x["status"]).lower() for x in c.rec["inner"]]
        c.decidable = bool(sts) and all(is_optimal_status(s) for s in sts) and out[0] == "ok" and out[1] is not None
    return c


def run_case_with_fallback(prog, cfg, pre_solve=None):
    """Clarabel is not universally robust: a case whose Clarabel run raises a SolverError is rebuilt and
    re-run with SCS (judged with SCS thresholds)."""
    c = run_case(prog, cfg, pre_solve)
    if c.outcome[0] == "exc" and type(c.outcome[1]).__name__ == "SolverError" and cfg.get("solver") == "CLARABEL":
        cfg2 = dict(cfg)
        cfg2["solver"] = "SCS"
        c = run_case(prog, cfg2, pre_solve)
        c.fell_back = True
    return c


def held_objects(machine):
    from PEPit.point import Point
    from PEPit.expression import Expression
    out = []
    for k, v in machine.regs.items():
        if isinstance(v, (Point, Expression)):
            out.append(v)
    return out


def strip_witness(prog, cfg, finding, extra=None):
    w = {"key": finding["key"], "what": finding["what"], "finding": {k: v for k, v in finding.items()},
         "program": prog, "config": cfg}
    if extra:
        w.update(extra)
    return w
