"""C06 monitor: contracts on the real DSL operators (wrapped from outside).

For every application of an operator of Point / Expression the monitor
  - snapshots the operands (identity-based snapshot: no __eq__ of PEPit objects is ever called),
  - lets the real method run,
  - checks  den(result) == op(den(a), den(b))  under a global random assignment of the leaves
    (leaf point -> vector in R^DIM, leaf expression -> float; Schwartz-Zippel style identity testing),
  - checks the operands are unchanged and the result is a new object,
  - for comparisons: sense and left-minus-right expression.
The monitor never creates PEPit objects (no counter side effects).
"""
import math
import random

import numpy as np

from pv import canon

DIM = 5
REL = 1e-9


STRUCT_REL = 4e-13


def _pcoef(p):
    """{key: (coefficient, sum of absolute raw entries)}"""
    return {id(k): (float(c), abs(float(c))) for k, c in canon.point_coeffs(p).items()}


def _ecoef(e):
    G, F, c = canon.expr_coeffs(e)
    d = {}

    def acc(k, v):
        o = d.get(k, (0.0, 0.0))
        d[k] = (o[0] + float(v), o[1] + abs(float(v)))
    for (p_, q_), v in G.items():
        acc(("G",) + tuple(sorted((id(p_), id(q_)))), v)      # <p,q> and <q,p> are one term; the library may store both
    for k_, v in F.items():
        acc(("F", id(k_)), v)
    if c:
        acc(("C",), c)
    return d


def _lin(terms):
    """terms: [(weight, coefficient dict)] -> (expected coefficients, sum of absolute contributions) per key"""
    want, mag = {}, {}
    for w, d in terms:
        for k, (c, m) in d.items():
            want[k] = want.get(k, 0.0) + w * c
            mag[k] = mag.get(k, 0.0) + abs(w) * m
    return want, mag


def _prod(da, db):
    want, mag = {}, {}
    for i, (c, mc) in da.items():
        for j, (d, md) in db.items():
            k = ("G",) + tuple(sorted((i, j)))
            want[k] = want.get(k, 0.0) + c * d
            mag[k] = mag.get(k, 0.0) + mc * md
    return want, mag


def expected_structure(key, a, b):
    """(expected coefficient dict, magnitude dict) of the result of `key` on (a, b), computed from the operands'
    coefficients only; None when the operation has no structural reading here."""
    from PEPit.point import Point
    from PEPit.expression import Expression
    cls, op = key.split(".")
    sc = isinstance(b, (int, float)) and not isinstance(b, bool)
    if sc and not math.isfinite(b):
        return None
    if cls == "Point":
        A = _pcoef(a)
        if op == "__add__" and isinstance(b, Point):
            return _lin([(1.0, A), (1.0, _pcoef(b))])
        if op == "__sub__" and isinstance(b, Point):
            return _lin([(1.0, A), (-1.0, _pcoef(b))])
        if op == "__neg__":
            return _lin([(-1.0, A)])
        if op in ("__mul__", "__rmul__") and sc:
            return _lin([(float(b), A)])
        if op in ("__mul__", "__rmul__") and isinstance(b, Point):
            return _prod(A, _pcoef(b))
        if op == "__truediv__" and sc and b != 0:
            return _lin([(1.0 / float(b), A)])
        if op == "__pow__":
            return _prod(A, A)
        return None
    A = _ecoef(a)
    B = _ecoef(b) if isinstance(b, Expression) else ({("C",): (float(b), abs(float(b)))} if sc and b != 0 else ({} if sc else None))
    if op == "__neg__":
        return _lin([(-1.0, A)])
    if op in ("__mul__", "__rmul__") and sc:
        return _lin([(float(b), A)])
    if op == "__truediv__" and sc and b != 0:
        return _lin([(1.0 / float(b), A)])
    if B is None:
        return None
    if op in ("__add__", "__radd__"):
        return _lin([(1.0, A), (1.0, B)])
    if op in ("__sub__", "__le__", "__lt__", "__eq__"):
        return _lin([(1.0, A), (-1.0, B)])
    if op in ("__rsub__", "__ge__", "__gt__"):
        return _lin([(-1.0, A), (1.0, B)])
    return None


def structure_mismatch(want, mag, got, allow_sign=False):
    """first key whose coefficient differs from the expected one by more than rounding of its own contributions"""
    for sign in ((1.0, -1.0) if allow_sign else (1.0,)):
        bad = None
        for k in set(want) | set(got):
            w, g = sign * want.get(k, 0.0), got.get(k, (0.0, 0.0))[0]
            m = mag.get(k, 0.0) + got.get(k, (0.0, 0.0))[1]
            if not (math.isfinite(w) and math.isfinite(g)):
                return None
            if abs(g - w) > STRUCT_REL * m + 1e-300:
                bad = (k, w, g)
                break
        if bad is None:
            return None
    return bad


class AlgebraViolation(Exception):
    pass


class Skip(Exception):
    """documented operand kind, but the reference semantics cannot decide it (nan / inf scalars)."""


class AlgebraMonitor(object):
    def __init__(self, seed=0):
        self.rng = random.Random(seed)
        self.pvals = {}
        self.evals = {}
        self._keep = []          # keep leaves alive so ids are not recycled
        self.count = 0
        self.by_op = {}
        self.signatures = set()
        self.violations = []
        self.installed = False
        self.depth = 0
        self.enabled = True
        self._orig = {}

    # -- assignment -------------------------------------------------------------------------------------
    def pv(self, leaf):
        k = id(leaf)
        if k not in self.pvals:
            self.pvals[k] = np.array([self.rng.uniform(-1, 1) for _ in range(DIM)])
            self._keep.append(leaf)
        return self.pvals[k]

    def ev(self, leaf):
        k = id(leaf)
        if k not in self.evals:
            self.evals[k] = self.rng.uniform(-1, 1)
            self._keep.append(leaf)
        return self.evals[k]

    def den_point(self, p):
        out = np.zeros(DIM)
        for k, c in canon.point_coeffs(p).items():
            out = out + c * self.pv(k)
        return out

    def den_expr(self, e):
        G, F, c = canon.expr_coeffs(e)
        s = c
        for (p, q), v in G.items():
            s += v * float(np.dot(self.pv(p), self.pv(q)))
        for k, v in F.items():
            s += v * self.ev(k)
        return s

    def den(self, o):
        from PEPit.point import Point
        from PEPit.expression import Expression
        if isinstance(o, Point):
            return self.den_point(o)
        if isinstance(o, Expression):
            return self.den_expr(o)
        if isinstance(o, bool) or isinstance(o, (int, float)):
            return float(o)
        raise canon.CanonError("no denotation for %r" % type(o))

    # -- snapshots --------------------------------------------------------------------------------------
    @staticmethod
    def snap(o):
        from PEPit.point import Point
        from PEPit.expression import Expression
        if isinstance(o, (Point, Expression)):
            items = []
            for k, v in o.decomposition_dict.items():
                kid = tuple(id(x) for x in k) if type(k) is tuple else (id(k) if not isinstance(k, (int, float)) else ("c", k))
                items.append((kid, v))
            return (id(o.decomposition_dict), tuple(items), o._is_leaf, o.counter, o.name)
        return None

    @staticmethod
    def same_snap(a, b):
        if a is None or b is None:
            return a is b
        if a[0] != b[0] or a[2:] != b[2:] or len(a[1]) != len(b[1]):
            return False
        for (k1, v1), (k2, v2) in zip(a[1], b[1]):
            if k1 != k2:
                return False
            if not (v1 == v2 or (isinstance(v1, float) and isinstance(v2, float) and math.isnan(v1) and math.isnan(v2))):
                return False
        return True

    # -- core -------------------------------------------------------------------------------------------
    def _viol(self, key, what, opname, a, b):
        if len(self.violations) < 20:
            self.violations.append({"key": key, "what": what, "op": opname,
                                    "operands": [describe(a), describe(b)]})

    def _close(self, x, y, mag):
        tol = REL * (1.0 + mag)
        if isinstance(x, np.ndarray) or isinstance(y, np.ndarray):
            return bool(np.max(np.abs(np.asarray(x) - np.asarray(y))) <= tol)
        return abs(x - y) <= tol

    def check(self, opname, cls, a, b, result, expected_fn, mag_fn=None):
        self.count += 1
        self.by_op[opname] = self.by_op.get(opname, 0) + 1

    def wrap(self, cls, opname, semantics):
        """semantics(mon, a, b) -> (kind, expected) with kind in {'point','expr','cons:inequality','cons:equality'}."""
        mon = self
        orig = getattr(cls, opname)
        self._orig[(cls, opname)] = orig

        def wrapper(a, *args, **kwargs):
            if not mon.enabled:
                return orig(a, *args, **kwargs)
            b = args[0] if args else (list(kwargs.values())[0] if kwargs else None)
            sa, sb_ = mon.snap(a), mon.snap(b)
            try:
                exp = semantics(mon, a, b)
            except Skip:
                mon.by_op["skipped_nonfinite"] = mon.by_op.get("skipped_nonfinite", 0) + 1
                return orig(a, *args, **kwargs)
            except OverflowError:
                mon.by_op["skipped_nonfinite"] = mon.by_op.get("skipped_nonfinite", 0) + 1
                return orig(a, *args, **kwargs)
            except (canon.CanonError, TypeError, ZeroDivisionError):
                exp = None   # operand kind outside the documented ones: only "must raise" (negative tests)
            mon.depth += 1
            try:
                res = orig(a, *args, **kwargs)
            finally:
                mon.depth -= 1
            if exp is None:
                # the real method returned for an operand the reference semantics cannot interpret
                mon.count += 1
                if res is not NotImplemented:
                    mon._viol("undocumented_operand_accepted:%s.%s" % (cls.__name__, opname),
                              "%s.%s returned %r for operand %r" % (cls.__name__, opname, type(res).__name__, describe(b)),
                              opname, a, b)
                return res
            mon.count += 1
            key = "%s.%s" % (cls.__name__, opname)
            mon.by_op[key] = mon.by_op.get(key, 0) + 1
            kind, want, mag = exp
            try:
                mon._post(key, kind, want, mag, a, b, sa, sb_, res)
            except canon.CanonError as e:
                mon._viol("result_not_canonical:%s" % key, "result of %s has a decomposition the layer cannot read: %s" % (key, e),
                          opname, a, b)
            return res

        wrapper.__name__ = opname
        wrapper._pv_wrapped = True
        setattr(cls, opname, wrapper)

    def _post(self, key, kind, want, mag, a, b, sa, sb_, res):
        from PEPit.point import Point
        from PEPit.expression import Expression
        from PEPit.constraint import Constraint
        if not self.same_snap(sa, self.snap(a)):
            self._viol("operand_mutated:%s" % key, "left operand changed by %s" % key, key, a, b)
        if sb_ is not None and not self.same_snap(sb_, self.snap(b)):
            self._viol("operand_mutated:%s" % key, "right operand changed by %s" % key, key, a, b)
        if res is a or (res is b and b is not None):
            self._viol("result_aliases_operand:%s" % key, "%s returned one of its operands" % key, key, a, b)
        if kind == "point":
            if not isinstance(res, Point):
                self._viol("wrong_result_type:%s" % key, "%s returned %s" % (key, type(res).__name__), key, a, b)
                return
            got = self.den_point(res)
            if res.get_is_leaf():
                self._viol("result_is_leaf:%s" % key, "%s returned a leaf" % key, key, a, b)
        elif kind == "expr":
            if not isinstance(res, Expression):
                self._viol("wrong_result_type:%s" % key, "%s returned %s" % (key, type(res).__name__), key, a, b)
                return
            got = self.den_expr(res)
            if res.get_is_leaf():
                self._viol("result_is_leaf:%s" % key, "%s returned a leaf" % key, key, a, b)
        else:
            if not isinstance(res, Constraint):
                self._viol("wrong_result_type:%s" % key, "%s returned %s" % (key, type(res).__name__), key, a, b)
                return
            sense = kind.split(":")[1]
            if res.equality_or_inequality != sense:
                self._viol("wrong_sense:%s" % key, "%s produced sense %r, written %r" % (key, res.equality_or_inequality, sense),
                           key, a, b)
            got = self.den_expr(res.expression)
            if sense == "equality":
                # either sign denotes the same equality
                if not self._close(got, want, mag) and self._close(-got, want, mag):
                    got = -got
        if not (np.all(np.isfinite(got)) and np.all(np.isfinite(want)) and math.isfinite(mag)):
            # overflow of the reference arithmetic itself (1e200 * 1e200): nothing can be decided
            self.by_op["skipped_nonfinite"] = self.by_op.get("skipped_nonfinite", 0) + 1
            return
        if not self._close(got, want, mag):
            self._viol("wrong_denotation:%s" % key,
                       "%s: result denotes %s, operands give %s" % (key, _fmt(got), _fmt(want)), key, a, b)
        else:
            # same value under one assignment is blind to terms far below the others (a coefficient of 1e-12 next to 1):
            # every coefficient of the result must be the one the operands' coefficients give
            try:
                st = expected_structure(key, a, b)
                if st is not None:
                    gotc = _pcoef(res) if kind == "point" else _ecoef(res if kind == "expr" else res.expression)
                    bad = structure_mismatch(st[0], st[1], gotc, allow_sign=(kind == "cons:equality"))
                    self.by_op["coefficient_checks"] = self.by_op.get("coefficient_checks", 0) + 1
                    if bad is not None:
                        self._viol("wrong_coefficient:%s" % key, "%s: coefficient of %s is %r in the result, the operands give %r"
                                   % (key, "a leaf term" if bad[0] != ("C",) else "the constant", bad[2], bad[1]), key, a, b)
            except canon.CanonError:
                pass
        # signature of the case (for distinct_nontrivial)
        self.signatures.add((key, type(b).__name__, _bucket(a), _bucket(b)))

    # -- installation -----------------------------------------------------------------------------------
    def install(self):
        if self.installed:
            return self
        from PEPit.point import Point
        from PEPit.expression import Expression

        def is_scalar(x):
            return isinstance(x, (int, float))

        def P(x):
            if not isinstance(x, Point):
                raise TypeError
            return x

        def mag_p(mon, *ps):
            return sum(sum(abs(c) for c in canon.point_coeffs(p).values()) for p in ps if isinstance(p, Point))

        def mag_e(mon, *es):
            tot = 0.0
            for e in es:
                if isinstance(e, Expression):
                    G, F, c = canon.expr_coeffs(e)
                    tot += sum(abs(v) for v in G.values()) * DIM + sum(abs(v) for v in F.values()) + abs(c)
                elif is_scalar(e):
                    tot += abs(e)
            return tot

        def p_add(mon, a, b):
            return "point", mon.den_point(a) + mon.den_point(P(b)), mag_p(mon, a, b)

        def p_sub(mon, a, b):
            return "point", mon.den_point(a) - mon.den_point(P(b)), mag_p(mon, a, b)

        def p_neg(mon, a, b):
            return "point", -mon.den_point(a), mag_p(mon, a)

        def p_mul(mon, a, b):
            if is_scalar(b):
                if not math.isfinite(b):
                    raise Skip
                return "point", float(b) * mon.den_point(a), mag_p(mon, a) * abs(b)
            bb = P(b)
            return "expr", float(np.dot(mon.den_point(a), mon.den_point(bb))), mag_p(mon, a) * mag_p(mon, bb) * DIM

        def p_div(mon, a, b):
            if is_scalar(b) and (b == 0 or not math.isfinite(b) or not math.isfinite(1 / b)):
                raise Skip
            if not is_scalar(b):
                raise TypeError
            return "point", mon.den_point(a) / float(b), mag_p(mon, a) / abs(b)

        def p_pow(mon, a, b):
            if not is_scalar(b) or b != 2:
                raise TypeError
            return "expr", float(np.dot(mon.den_point(a), mon.den_point(a))), mag_p(mon, a) ** 2 * DIM

        def E(x, mon):
            if isinstance(x, Expression):
                return mon.den_expr(x)
            if is_scalar(x):
                if not math.isfinite(x):
                    raise Skip
                return float(x)
            raise TypeError

        def e_add(mon, a, b):
            return "expr", mon.den_expr(a) + E(b, mon), mag_e(mon, a, b)

        def e_sub(mon, a, b):
            return "expr", mon.den_expr(a) - E(b, mon), mag_e(mon, a, b)

        def e_rsub(mon, a, b):
            return "expr", E(b, mon) - mon.den_expr(a), mag_e(mon, a, b)

        def e_neg(mon, a, b):
            return "expr", -mon.den_expr(a), mag_e(mon, a)

        def e_mul(mon, a, b):
            if is_scalar(b) and not math.isfinite(b):
                raise Skip
            if not is_scalar(b):
                raise TypeError
            return "expr", float(b) * mon.den_expr(a), mag_e(mon, a) * abs(b)

        def e_div(mon, a, b):
            if is_scalar(b) and (b == 0 or not math.isfinite(b) or not math.isfinite(1 / b)):
                raise Skip
            if not is_scalar(b):
                raise TypeError
            return "expr", mon.den_expr(a) / float(b), mag_e(mon, a) / abs(b)

        def e_le(mon, a, b):
            return "cons:inequality", mon.den_expr(a) - E(b, mon), mag_e(mon, a, b)

        def e_ge(mon, a, b):
            return "cons:inequality", E(b, mon) - mon.den_expr(a), mag_e(mon, a, b)

        def e_eq(mon, a, b):
            return "cons:equality", mon.den_expr(a) - E(b, mon), mag_e(mon, a, b)

        for name, sem in (("__add__", p_add), ("__sub__", p_sub), ("__neg__", p_neg), ("__rmul__", p_mul),
                          ("__mul__", p_mul), ("__truediv__", p_div), ("__pow__", p_pow)):
            self.wrap(Point, name, sem)
        for name, sem in (("__add__", e_add), ("__radd__", e_add), ("__sub__", e_sub), ("__rsub__", e_rsub),
                          ("__neg__", e_neg), ("__rmul__", e_mul), ("__mul__", e_mul), ("__truediv__", e_div),
                          ("__le__", e_le), ("__lt__", e_le), ("__ge__", e_ge), ("__gt__", e_ge), ("__eq__", e_eq)):
            self.wrap(Expression, name, sem)
        self.installed = True
        return self

    def uninstall(self):
        for (cls, n), o in self._orig.items():
            setattr(cls, n, o)
        self._orig = {}
        self.installed = False


def _fmt(x):
    if isinstance(x, np.ndarray):
        return "[" + ", ".join("%.6g" % v for v in x[:3]) + ", ...]"
    return "%.12g" % x


def _bucket(o):
    from PEPit.point import Point
    from PEPit.expression import Expression
    if isinstance(o, (Point, Expression)):
        d = o.decomposition_dict
        n = len(d)
        zero = any(v == 0 for v in d.values())
        mirrored = False
        if isinstance(o, Expression):
            ks = [tuple(id(x) for x in k) for k in d if type(k) is tuple]
            s = set(ks)
            mirrored = any((b, a) in s for (a, b) in ks if a != b)
            diag = any(a == b for (a, b) in ks)
            const = any((not isinstance(k, (Point, Expression, tuple))) for k in d)
            return ("E", min(n, 6), zero, mirrored, diag, const, o._is_leaf)
        return ("P", min(n, 6), zero, o._is_leaf)
    if o is None:
        return ("none",)
    if isinstance(o, (int, float)):
        return (type(o).__name__, "0" if o == 0 else ("neg" if o < 0 else "pos"))
    return (type(o).__name__,)


def describe(o):
    from PEPit.point import Point
    from PEPit.expression import Expression
    if isinstance(o, Point):
        return "Point(leaf=%s, %d terms)" % (o._is_leaf, len(o.decomposition_dict))
    if isinstance(o, Expression):
        return "Expression(leaf=%s, %d terms)" % (o._is_leaf, len(o.decomposition_dict))
    return repr(o)[:60]
