"""C06 monitor: contracts on the real DSL operators (wrapped from outside).

For every application of an operator of Point / Expression the monitor
  - snapshots the operands (identity-based snapshot: no __eq__ of PEPit objects is ever called),
  - lets the real method run,
  - checks  den(result) == op(den(a), den(b))  under a global random assignment of the leaves
    (leaf point -> vector in R^DIM, leaf expression -> float; Schwartz-Zippel style identity testing),
  - checks the operands are unchanged and the result is a new object,
  - for comparisons: sense and left-minus-right expression.
The monitor never creates PEPit objects (no counter side effects).
"""
import math
import random

import numpy as np

from pv import canon

DIM = 5
REL = 1e-9


class AlgebraViolation(Exception):
    pass


class Skip(Exception):
    """documented operand kind, but the reference semantics cannot decide it (nan / inf scalars)."""


class AlgebraMonitor(object):
    def __init__(self, seed=0):
        self.rng = random.Random(seed)
        self.pvals = {}
        self.evals = {}
        self._keep = []          # keep leaves alive so ids are not recycled
        self.count = 0
        self.by_op = {}
        self.signatures = set()
        self.violations = []
        self.installed = False
        self.depth = 0
        self.enabled = True
        self._orig = {}

    # -- assignment -------------------------------------------------------------------------------------
    def pv(self, leaf):
        k = id(leaf)
        if k not in self.pvals:
            self.pvals[k] = np.array([self.rng.uniform(-1, 1) for _ in range(DIM)])
            self._keep.append(leaf)
        return self.pvals[k]

    def ev(self, leaf):
        k = id(leaf)
        if k not in self.evals:
            self.evals[k] = self.rng.uniform(-1, 1)
            self._keep.append(leaf)
        return self.evals[k]

    def den_point(self, p):
        out = np.zeros(DIM)
        for k, c in canon.point_coeffs(p).items():
            out = out + c * self.pv(k)
        return out

    def den_expr(self, e):
        G, F, c = canon.expr_coeffs(e)
        s = c
        for (p, q), v in G.items():
            s += v * float(np.dot(self.pv(p), self.pv(q)))
        for k, v in F.items():
            s += v * self.ev(k)
        return s

    def den(self, o):
        from PEPit.point import Point
        from PEPit.expression import Expression
        if isinstance(o, Point):
            return self.den_point(o)
        if isinstance(o, Expression):
            return self.den_expr(o)
        if isinstance(o, bool) or isinstance(o, (int, float)):
            return float(o)
        raise canon.CanonError("no denotation for %r" % type(o))

    # -- snapshots --------------------------------------------------------------------------------------
    @staticmethod
    def snap(o):
        from PEPit.point import Point
        from PEPit.expression import Expression
        if isinstance(o, (Point, Expression)):
            items = []
            for k, v in o.decomposition_dict.items():
                kid = tuple(id(x) for x in k) if type(k) is tuple else (id(k) if not isinstance(k, (int, float)) else ("c", k))
                items.append((kid, v))
            return (id(o.decomposition_dict), tuple(items), o._is_leaf, o.counter, o.name)
        return None

    @staticmethod
    def same_snap(a, b):
        if a is None or b is None:
            return a is b
        if a[0] != b[0] or a[2:] != b[2:] or len(a[1]) != len(b[1]):
            return False
        for (k1, v1), (k2, v2) in zip(a[1], b[1]):
            if k1 != k2:
                return False
            if not (v1 == v2 or (isinstance(v1, float) and isinstance(v2, float) and math.isnan(v1) and math.isnan(v2))):
                return False
        return True

    # -- core -------------------------------------------------------------------------------------------
    def _viol(self, key, what, opname, a, b):
        if len(self.violations) < 20:
            self.violations.append({"key": key, "what": what, "op": opname,
                                    "operands": [describe(a), describe(b)]})

    def _close(self, x, y, mag):
        tol = REL * (1.0 + mag)
        if isinstance(x, np.ndarray) or isinstance(y, np.ndarray):
            return bool(np.max(np.abs(np.asarray(x) - np.asarray(y))) <= tol)
        return abs(x - y) <= tol

    def check(self, opname, cls, a, b, result, expected_fn, mag_fn=None):
        self.count += 1
        self.by_op[opname] = self.by_op.get(opname, 0) + 1

    def wrap(self, cls, opname, semantics):
        """semantics(mon, a, b) -> (kind, expected) with kind in {'point','expr','cons:inequality','cons:equality'}."""
        mon = self
        orig = getattr(cls, opname)
        self._orig[(cls, opname)] = orig

        def wrapper(a, *args, **kwargs):
            if not mon.enabled:
                return orig(a, *args, **kwargs)
            b = args[0] if args else (list(kwargs.values())[0] if kwargs else None)
            sa, sb_ = mon.snap(a), mon.snap(b)
            try:
                exp = semantics(mon, a, b)
            except Skip:
                mon.by_op["skipped_nonfinite"] = mon.by_op.get("skipped_nonfinite", 0) + 1
                return orig(a, *args, **kwargs)
            except (canon.CanonError, TypeError, ZeroDivisionError, OverflowError):
                exp = None   # operand kind outside the documented ones: only "must raise" (negative tests)
            mon.depth += 1
            try:
                res = orig(a, *args, **kwargs)
            finally:
                mon.depth -= 1
            if exp is None:
                # the real method returned for an operand the reference semantics cannot interpret
                mon.count += 1
                if res is not NotImplemented:
                    mon._viol("undocumented_operand_accepted:%s.%s" % (cls.__name__, opname),
                              "%s.%s returned %r for operand %r" % (cls.__name__, opname, type(res).__name__, describe(b)),
                              opname, a, b)
                return res
            mon.count += 1
            key = "%s.%s" % (cls.__name__, opname)
            mon.by_op[key] = mon.by_op.get(key, 0) + 1
            kind, want, mag = exp
            try:
                mon._post(key, kind, want, mag, a, b, sa, sb_, res)
            except canon.CanonError as e:
                mon._viol("result_not_canonical:%s" % key, "result of %s has a decomposition the layer cannot read: %s" % (key, e),
                          opname, a, b)
            return res

        wrapper.__name__ = opname
        wrapper._pv_wrapped = True
        setattr(cls, opname, wrapper)

    def _post(self, key, kind, want, mag, a, b, sa, sb_, res):
        from PEPit.point import Point
        from PEPit.expression import Expression
        from PEPit.constraint import Constraint
        if not self.same_snap(sa, self.snap(a)):
            self._viol("operand_mutated:%s" % key, "left operand changed by %s" % key, key, a, b)
        if sb_ is not None and not self.same_snap(sb_, self.snap(b)):
            self._viol("operand_mutated:%s" % key, "right operand changed by %s" % key, key, a, b)
        if res is a or (res is b and b is not None):
            self._viol("result_aliases_operand:%s" % key, "%s returned one of its operands" % key, key, a, b)
        if kind == "point":
            if not isinstance(res, Point):
                self._viol("wrong_result_type:%s" % key, "%s returned %s" % (key, type(res).__name__), key, a, b)
                return
            got = self.den_point(res)
            if res.get_is_leaf():
                self._viol("result_is_leaf:%s" % key, "%s returned a leaf" % key, key, a, b)
        elif kind == "expr":
            if not isinstance(res, Expression):
                self._viol("wrong_result_type:%s" % key, "%s returned %s" % (key, type(res).__name__), key, a, b)
                return
            got = self.den_expr(res)
            if res.get_is_leaf():
                self._viol("result_is_leaf:%s" % key, "%s returned a leaf" % key, key, a, b)
        else:
            if not isinstance(res, Constraint):
                self._viol("wrong_result_type:%s" % key, "%s returned %s" % (key, type(res).__name__), key, a, b)
                return
            sense = kind.split(":")[1]
            if res.equality_or_inequality != sense:
                self._viol("wrong_sense:%s" % key, "%s produced sense %r, written %r" % (key, res.equality_or_inequality, sense),
                           key, a, b)
            got = self.den_expr(res.expression)
            if sense == "equality":
                # either sign denotes the same equality
                if not self._close(got, want, mag) and self._close(-got, want, mag):
                    got = -got
        if not self._close(got, want, mag):
            self._viol("wrong_denotation:%s" % key,
                       "%s: result denotes %s, operands give %s" % (key, _fmt(got), _fmt(want)), key, a, b)
        # signature of the case (for distinct_nontrivial)
        self.signatures.add((key, type(b).__name__, _bucket(a), _bucket(b)))

    # -- installation -----------------------------------------------------------------------------------
    def install(self):
        if self.installed:
            return self
        from PEPit.point import Point
        from PEPit.expression import Expression

        def is_scalar(x):
            return isinstance(x, (int, float))

        def P(x):
            if not isinstance(x, Point):
                raise TypeError
            return x

        def mag_p(mon, *ps):
            return sum(sum(abs(c) for c in canon.point_coeffs(p).values()) for p in ps if isinstance(p, Point))

        def mag_e(mon, *es):
            tot = 0.0
            for e in es:
                if isinstance(e, Expression):
                    G, F, c = canon.expr_coeffs(e)
                    tot += sum(abs(v) for v in G.values()) * DIM + sum(abs(v) for v in F.values()) + abs(c)
                elif is_scalar(e):
                    tot += abs(e)
            return tot

        def p_add(mon, a, b):
            return "point", mon.den_point(a) + mon.den_point(P(b)), mag_p(mon, a, b)

        def p_sub(mon, a, b):
            return "point", mon.den_point(a) - mon.den_point(P(b)), mag_p(mon, a, b)

        def p_neg(mon, a, b):
            return "point", -mon.den_point(a), mag_p(mon, a)

        def p_mul(mon, a, b):
            if is_scalar(b):
                if not math.isfinite(b):
                    raise Skip
                return "point", float(b) * mon.den_point(a), mag_p(mon, a) * abs(b)
            bb = P(b)
            return "expr", float(np.dot(mon.den_point(a), mon.den_point(bb))), mag_p(mon, a) * mag_p(mon, bb) * DIM

        def p_div(mon, a, b):
            if is_scalar(b) and (b == 0 or not math.isfinite(b) or not math.isfinite(1 / b)):
                raise Skip
            if not is_scalar(b):
                raise TypeError
            return "point", mon.den_point(a) / float(b), mag_p(mon, a) / abs(b)

        def p_pow(mon, a, b):
            if not is_scalar(b) or b != 2:
                raise TypeError
            return "expr", float(np.dot(mon.den_point(a), mon.den_point(a))), mag_p(mon, a) ** 2 * DIM

        def E(x, mon):
            if isinstance(x, Expression):
                return mon.den_expr(x)
            if is_scalar(x):
                if not math.isfinite(x):
                    raise Skip
                return float(x)
            raise TypeError

        def e_add(mon, a, b):
            return "expr", mon.den_expr(a) + E(b, mon), mag_e(mon, a, b)

        def e_sub(mon, a, b):
            return "expr", mon.den_expr(a) - E(b, mon), mag_e(mon, a, b)

        def e_rsub(mon, a, b):
            return "expr", E(b, mon) - mon.den_expr(a), mag_e(mon, a, b)

        def e_neg(mon, a, b):
            return "expr", -mon.den_expr(a), mag_e(mon, a)

        def e_mul(mon, a, b):
            if is_scalar(b) and not math.isfinite(b):
                raise Skip
            if not is_scalar(b):
                raise TypeError
            return "expr", float(b) * mon.den_expr(a), mag_e(mon, a) * abs(b)

        def e_div(mon, a, b):
            if is_scalar(b) and (b == 0 or not math.isfinite(b) or not math.isfinite(1 / b)):
                raise Skip
            if not is_scalar(b):
                raise TypeError
            return "expr", mon.den_expr(a) / float(b), mag_e(mon, a) / abs(b)

        def e_le(mon, a, b):
            return "cons:inequality", mon.den_expr(a) - E(b, mon), mag_e(mon, a, b)

        def e_ge(mon, a, b):
            return "cons:inequality", E(b, mon) - mon.den_expr(a), mag_e(mon, a, b)

        def e_eq(mon, a, b):
            return "cons:equality", mon.den_expr(a) - E(b, mon), mag_e(mon, a, b)

        for name, sem in (("__add__", p_add), ("__sub__", p_sub), ("__neg__", p_neg), ("__rmul__", p_mul),
                          ("__mul__", p_mul), ("__truediv__", p_div), ("__pow__", p_pow)):
            self.wrap(Point, name, sem)
        for name, sem in (("__add__", e_add), ("__radd__", e_add), ("__sub__", e_sub), ("__rsub__", e_rsub),
                          ("__neg__", e_neg), ("__rmul__", e_mul), ("__mul__", e_mul), ("__truediv__", e_div),
                          ("__le__", e_le), ("__lt__", e_le), ("__ge__", e_ge), ("__gt__", e_ge), ("__eq__", e_eq)):
            self.wrap(Expression, name, sem)
        self.installed = True
        return self

    def uninstall(self):
        for (cls, n), o in self._orig.items():
            setattr(cls, n, o)
        self._orig = {}
        self.installed = False


def _fmt(x):
    if isinstance(x, np.ndarray):
        return "[" + ", ".join("%.6g" % v for v in x[:3]) + ", ...]"
    return "%.12g" % x


def _bucket(o):
    from PEPit.point import Point
    from PEPit.expression import Expression
    if isinstance(o, (Point, Expression)):
        d = o.decomposition_dict
        n = len(d)
        zero = any(v == 0 for v in d.values())
        mirrored = False
        if isinstance(o, Expression):
            ks = [tuple(id(x) for x in k) for k in d if type(k) is tuple]
            s = set(ks)
            mirrored = any((b, a) in s for (a, b) in ks if a != b)
            diag = any(a == b for (a, b) in ks)
            const = any((not isinstance(k, (Point, Expression, tuple))) for k in d)
            return ("E", min(n, 6), zero, mirrored, diag, const, o._is_leaf)
        return ("P", min(n, 6), zero, o._is_leaf)
    if o is None:
        return ("none",)
    if isinstance(o, (int, float)):
        return (type(o).__name__, "0" if o == 0 else ("neg" if o < 0 else "pos"))
    return (type(o).__name__,)


def describe(o):
    from PEPit.point import Point
    from PEPit.expression import Expression
    if isinstance(o, Point):
        return "Point(leaf=%s, %d terms)" % (o._is_leaf, len(o.decomposition_dict))
    if isinstance(o, Expression):
        return "Expression(leaf=%s, %d terms)" % (o._is_leaf, len(o.decomposition_dict))
    return repr(o)[:60]
