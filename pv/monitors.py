"""Boundary monitors: wrap attributes of the real classes from outside (no edit of /repo).

Boundary.install() wraps PEP.solve and the Wrapper-interface methods of every back-end class registered in
PEPit.wrappers.WRAPPERS.  Each PEP.solve call produces one record:

  rec = {k, opts, sent: [(kind, obj, tracked)], inner: [ {status, value, G, F} ... ], assign_after_inner,
         prepare: (wc, tol) | None, heuristic_calls, objective, ret | exc, wrapper_cls, n_points, n_exprs}

Call events are recorded before invoking, return events after.  Every monitor counts its evaluations.
"""
import numpy as np


class Records(object):
    """Append-only log of solve records with ABSOLUTE indexing that keeps only the most recent ones alive (a record holds
    the problem object, Gram matrices and everything sent: thousands of them per shard exhaust the memory).  len() is the
    number of records ever appended; records[n0], records[n0:], records[-1] work for indices that are still held."""
    KEEP = 48

    def __init__(self):
        self._n = 0
        self._held = {}

    def append(self, rec):
        self._held[self._n] = rec
        self._n += 1
        for k in [k for k in self._held if k < self._n - self.KEEP]:
            del self._held[k]

    def __len__(self):
        return self._n

    def __getitem__(self, i):
        if isinstance(i, slice):
            start, stop, step = i.indices(self._n)
            return [self._held[k] for k in range(start, stop, step) if k in self._held]
        if i < 0:
            i += self._n
        return self._held[i]

    def __iter__(self):
        return iter([self._held[k] for k in sorted(self._held)])


class Boundary(object):
    def __init__(self):
        self.records = Records()
        self.cur = None
        self.installed = False
        self.counts = {"solve_calls": 0, "sent_constraints": 0, "sent_lmis": 0, "inner_solves": 0,
                       "assign_dual_calls": 0}
        self.default_solver = None     # when set, injected as solver= for solves that do not name one
        self.skip_solve = False        # translation-validation mode: never call the solver
        self.fault = None              # callable(rec, inner_index) -> None | "none" | "raise" | "inaccurate"
        self.pre_solve = None          # callable(pep): edit the model right before PEP.solve runs (equivalent reformulations)
        self.after_generate = None     # callable(wrapper, rec)
        self.after_heuristic = None    # callable(wrapper, rec, weight): translation validation of the heuristic objective
        self._orig = {}

    def install(self):
        if self.installed:
            return self
        from PEPit.pep import PEP
        from PEPit.wrappers import WRAPPERS
        from PEPit.point import Point
        from PEPit.expression import Expression
        mon = self

        orig_solve = PEP.solve
        self._orig[(PEP, "solve")] = orig_solve

        def solve(pep, *a, **kw):
            if mon.default_solver is not None and kw.get("solver") is None:
                kw["solver"] = mon.default_solver
            if mon.pre_solve is not None:
                mon.pre_solve(pep)
            rec = {"k": len(mon.records), "opts": dict(kw), "args": a, "sent": [], "inner": [],
                   "assign_after_inner": None, "prepare": None, "heuristic_calls": 0, "objective": None,
                   "wrapper_cls": None, "pep": pep}
            mon.records.append(rec)
            prev = mon.cur
            mon.cur = rec
            mon.counts["solve_calls"] += 1
            try:
                out = orig_solve(pep, *a, **kw)
                rec["ret"] = out
                return out
            except BaseException as e:
                rec["exc"] = e
                raise
            finally:
                rec["n_points"] = Point.counter
                rec["n_exprs"] = Expression.counter
                mon.cur = prev

        PEP.solve = solve

        for cls in set(WRAPPERS.values()):
            self._wrap_backend(cls)
        self.installed = True
        return self

    def _wrap_backend(self, cls):
        mon = self
        o_sc = cls.send_constraint_to_solver
        o_sl = cls.send_lmi_constraint_to_solver
        o_gen = cls.generate_problem
        o_solve = cls.solve
        o_assign = cls.assign_dual_values
        o_prep = cls.prepare_heuristic
        o_heur = cls.heuristic
        o_setmain = cls.set_main_variables
        for n, o in (("send_constraint_to_solver", o_sc), ("send_lmi_constraint_to_solver", o_sl),
                     ("generate_problem", o_gen), ("solve", o_solve), ("assign_dual_values", o_assign),
                     ("prepare_heuristic", o_prep), ("heuristic", o_heur), ("set_main_variables", o_setmain)):
            self._orig[(cls, n)] = o

        def set_main_variables(w, *a, **kw):
            if mon.cur is not None:
                mon.cur["wrapper_cls"] = type(w).__name__
                mon.cur["wrapper"] = w
            return o_setmain(w, *a, **kw)

        def send_constraint_to_solver(w, constraint, *a, **kw):
            tracked = kw.get("track", a[0] if a else True)
            if mon.cur is not None:
                mon.cur["sent"].append(("c", constraint, bool(tracked)))
                mon.counts["sent_constraints"] += 1
            return o_sc(w, constraint, *a, **kw)

        def send_lmi_constraint_to_solver(w, psd_counter, psd_matrix, *a, **kw):
            if mon.cur is not None:
                mon.cur["sent"].append(("lmi", psd_matrix, True))
                mon.counts["sent_lmis"] += 1
            return o_sl(w, psd_counter, psd_matrix, *a, **kw)

        def generate_problem(w, objective, *a, **kw):
            if mon.cur is not None:
                mon.cur["objective"] = objective
            out = o_gen(w, objective, *a, **kw)
            if mon.after_generate is not None and mon.cur is not None:
                mon.after_generate(w, mon.cur)
            return out

        def solve(w, **kw):
            rec = mon.cur
            idx = len(rec["inner"]) if rec is not None else 0
            mon.counts["inner_solves"] += 1
            if mon.skip_solve:
                if rec is not None:
                    rec["inner"].append({"status": "skipped", "value": None})
                return "skipped", "none", None
            action = mon.fault(rec, idx) if (mon.fault is not None and rec is not None) else None
            if action == "raise":
                raise InjectedSolverFault("injected solver failure at inner solve %d" % idx)
            try:
                status, name, value = o_solve(w, **kw)
            except BaseException as e:
                if type(e).__name__ == "PanicException":
                    # a crash inside the native solver (Rust panic in Clarabel: "Eigval error") derives from BaseException;
                    # for the harness it is a solver failure like any other
                    mon.counts["solver_panics"] = mon.counts.get("solver_panics", 0) + 1
                    raise SolverPanic("the solver crashed: %s" % (str(e)[:200],)) from None
                raise
            if rec is not None:
                G, F = w.get_primal_variables()
                rec["inner"].append({"status": str(status), "value": value, "solver": name, "kw": dict(kw),
                                     "G": None if G is None else np.array(G, dtype=float, copy=True),
                                     "F": None if F is None else np.array(F, dtype=float, copy=True)})
            if action == "none":
                return status, name, None
            return status, name, value

        def assign_dual_values(w, *a, **kw):
            mon.counts["assign_dual_calls"] += 1
            if mon.cur is not None:
                mon.cur["assign_after_inner"] = len(mon.cur["inner"])
            return o_assign(w, *a, **kw)

        def prepare_heuristic(w, wc_value, tol, *a, **kw):
            if mon.cur is not None:
                mon.cur["prepare"] = (wc_value, tol)
            return o_prep(w, wc_value, tol, *a, **kw)

        def heuristic(w, weight, *a, **kw):
            if mon.cur is not None:
                mon.cur["heuristic_calls"] += 1
                mon.cur.setdefault("weights", []).append(np.array(weight, dtype=float, copy=True))
            out = o_heur(w, weight, *a, **kw)
            if mon.after_heuristic is not None and mon.cur is not None:
                mon.after_heuristic(w, mon.cur, np.array(weight, dtype=float, copy=True))
            return out

        cls.set_main_variables = set_main_variables
        cls.send_constraint_to_solver = send_constraint_to_solver
        cls.send_lmi_constraint_to_solver = send_lmi_constraint_to_solver
        cls.generate_problem = generate_problem
        cls.solve = solve
        cls.assign_dual_values = assign_dual_values
        cls.prepare_heuristic = prepare_heuristic
        cls.heuristic = heuristic

    def uninstall(self):
        for (cls, n), o in self._orig.items():
            setattr(cls, n, o)
        self._orig = {}
        self.installed = False


class SolverPanic(Exception):
    """A crash of the native solver, re-raised as an ordinary exception at the wrapper boundary."""


class InjectedSolverFault(Exception):
    pass


class InjectedFault(Exception):
    pass


def backend_status(rec):
    """Status string of the first (main) inner solve, lower-case; None if no inner solve."""
    if not rec["inner"]:
        return None
    return str(rec["inner"][0]["status"]).lower()


def is_optimal_status(s):
    if s is None:
        return False
    s = s.lower()
    return s == "optimal" or s.endswith("prim_and_dual_feas")
