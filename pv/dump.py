"""Canonical dump of everything PEPit hands to the solver for one solve + results (C12 / C13).

Coefficients are keyed by PEPit's own leaf counters (the counters are part of what is observed) and written
with float.hex(), so two dumps are equal iff the solver input is bit-for-bit the same, in the same order.
"""
import hashlib

import numpy as np


def class_state():
    from PEPit.point import Point
    from PEPit.expression import Expression
    from PEPit.function import Function
    from PEPit.constraint import Constraint
    from PEPit.psd_matrix import PSDMatrix
    from PEPit.block_partition import BlockPartition
    from PEPit.pep import PEP
    return {"Point.counter": Point.counter, "len(Point.list_of_leaf_points)": len(Point.list_of_leaf_points),
            "Expression.counter": Expression.counter,
            "len(Expression.list_of_leaf_expressions)": len(Expression.list_of_leaf_expressions),
            "Function.counter": Function.counter, "len(Function.list_of_functions)": len(Function.list_of_functions),
            "Constraint.counter": Constraint.counter, "PSDMatrix.counter": PSDMatrix.counter,
            "BlockPartition.counter": BlockPartition.counter,
            "len(BlockPartition.list_of_partitions)": len(BlockPartition.list_of_partitions),
            "PEP.counter": PEP.counter}


def _hx(v):
    return float(v).hex()


def expr_dump(e):
    from PEPit.point import Point
    from PEPit.expression import Expression
    if e.get_is_leaf():
        return [["F", e.counter, _hx(1.0)]]
    out = []
    for k, v in e.decomposition_dict.items():     # insertion order is part of the dump
        if type(k) is Expression:
            out.append(["F", k.counter, _hx(v)])
        elif type(k) is tuple:
            out.append(["G", k[0].counter, k[1].counter, _hx(v)])
        elif isinstance(k, (int, float)):
            out.append(["C", _hx(v)])
        else:
            out.append(["?", repr(type(k))])
    return out


def _arr(a):
    if a is None:
        return None
    a = np.ascontiguousarray(np.asarray(a, dtype=float))
    return {"shape": list(a.shape), "sha1": hashlib.sha1(a.tobytes()).hexdigest(),
            "head": [_hx(x) for x in a.ravel()[:4]]}


def solve_dump(rec, outcome, with_results=True, with_counters=True):
    """rec: Boundary record. Returns a JSON-able canonical dump."""
    pep = rec["pep"]
    sent = []
    for kind, o, tracked in rec["sent"]:
        if kind == "c":
            d = {"k": "c", "sense": o.equality_or_inequality, "name": o.get_name(), "expr": expr_dump(o.expression),
                 "tracked": tracked}
            if with_counters:
                d["counter"] = o.counter
        else:
            d = {"k": "lmi", "shape": list(o.shape), "name": o.get_name(),
                 "entries": [[expr_dump(o[i, j]) for j in range(o.shape[1])] for i in range(o.shape[0])]}
            if with_counters:
                d["counter"] = o.counter
        sent.append(d)
    out = {"n_points": rec.get("n_points"), "n_exprs": rec.get("n_exprs"), "wrapper": rec.get("wrapper_cls"),
           "objective": None if rec.get("objective") is None else expr_dump(rec["objective"]), "sent": sent,
           "n_inner": len(rec["inner"]), "inner_status": [str(x.get("status")) for x in rec["inner"]],
           "solver": [str(x.get("solver")) for x in rec["inner"]]}
    if rec.get("weights"):
        out["heuristic_weights"] = [_arr(W) for W in rec["weights"]]
    w = rec.get("wrapper")
    # size of the problem the back-end finally holds (cvxpy: constraints and scalar variables of the last Problem built)
    try:
        if type(w).__name__ == "CvxpyWrapper" and getattr(w, "prob", None) is not None:
            out["solver_problem_size"] = {"constraints": len(w.prob.constraints),
                                          "scalar_variables": int(sum(v.size for v in w.prob.variables()))}
    except Exception:
        pass
    task = getattr(w, "task", None)
    if task is not None and hasattr(task, "calls"):
        # MOSEK back-end (stand-in): the full sequence of Task calls with their arguments is part of the solver input
        import json as _json
        calls = [c for c in task.calls if c[0] not in ("set_Stream", "solutionsummary")]   # verbosity only, no model data
        out["task_calls"] = len(calls)
        out["task_calls_sha1"] = hashlib.sha1(_json.dumps(calls, default=str).encode()).hexdigest()
    if with_results:
        res = {"outcome": outcome[0], "value": None}
        if outcome[0] == "ok":
            res["value"] = None if outcome[1] is None else _hx(outcome[1])
            res["value_float"] = outcome[1]
        else:
            res["exc"] = type(outcome[1]).__name__
        if outcome[0] == "ok" and outcome[1] is not None:
            res["G"] = _arr(pep.G_value)
            res["F"] = _arr(pep.F_value)
            res["residual"] = _arr(pep.residual)
            duals = []
            for kind, o, tracked in rec["sent"]:
                if not tracked:
                    continue
                dv = o._dual_variable_value
                duals.append(_hx(dv) if kind == "c" and dv is not None else (_arr(dv) if dv is not None else None))
            res["duals"] = duals
        out["results"] = res
    return out


def digest(d):
    import json
    return hashlib.sha1(json.dumps(d, sort_keys=True).encode()).hexdigest()


def first_difference(a, b, path=""):
    """Human-readable location of the first difference between two dumps."""
    if type(a) is not type(b):
        return "%s: type %s vs %s" % (path, type(a).__name__, type(b).__name__)
    if isinstance(a, dict):
        for k in sorted(set(a) | set(b)):
            if k not in a or k not in b:
                return "%s.%s: present on one side only" % (path, k)
            r = first_difference(a[k], b[k], path + "." + str(k))
            if r:
                return r
        return None
    if isinstance(a, list):
        if len(a) != len(b):
            return "%s: length %d vs %d" % (path, len(a), len(b))
        for i, (x, y) in enumerate(zip(a, b)):
            r = first_difference(x, y, "%s[%d]" % (path, i))
            if r:
                return r
        return None
    if a != b:
        return "%s: %r vs %r" % (path, a, b)
    return None
